// World "exec": taskpool.TaskPool, taskpool.IOTaskPool and timer.Timer.Async (property C19)
// running as transformed real code under the simulated scheduler.
package exec

import (
	"fmt"
	"testing"
	"time"

	"github.com/lesismal/nbio/logging"
	"github.com/lesismal/nbio/taskpool"
	"github.com/lesismal/nbio/timer"

	"verif/harness/common"
	simrt "verif/sim/rt"
	ssync "verif/sim/shim/sync"
)

type taskSpec struct {
	Yields int  `json:"y,omitempty"`
	Sleep  int  `json:"s,omitempty"` // simulated microseconds
	Panic  bool `json:"p,omitempty"`
}

// Case of property C19.
type Case struct {
	Sched      common.Sched `json:"sched"`
	Kind       string       `json:"kind"` // pool | custom | io | async
	Max        int          `json:"max"`
	Queue      int          `json:"queue"`
	BufSize    int          `json:"buf,omitempty"`
	Submitters [][]taskSpec `json:"submitters"`
	Stop       int          `json:"stop"`    // -1: no Stop; k: Stop is invoked after k submissions have returned
	Barrier    bool         `json:"barrier"` // check capacity recovery after the burst
	Burst      int          `json:"burst,omitempty"` // async: functions queued behind a held-up one before the producers start
}

func gen(r *simrt.Rand, tier string, idx int) interface{} {
	c := &Case{Sched: common.GenSched(r, 60000)}
	switch r.Intn(10) {
	case 0, 1:
		c.Kind = "async"
	case 2:
		c.Kind = "io"
	case 3:
		c.Kind = "custom"
	default:
		c.Kind = "pool"
	}
	c.Max = r.Range(2, 6)
	c.Queue = r.Pick(0, 0, 1, 2, 4, 64)
	c.BufSize = r.Pick(1, 8, 64)
	ns := r.Range(1, 4)
	maxTasks := 8
	if tier == "thorough" {
		maxTasks = 16
	}
	for i := 0; i < ns; i++ {
		n := r.Range(1, maxTasks)
		var ts []taskSpec
		for j := 0; j < n; j++ {
			t := taskSpec{Yields: r.Pick(0, 0, 1, 3)}
			if r.Bool(0.2) {
				t.Sleep = r.Pick(1, 10, 1000)
			}
			if r.Bool(0.1) {
				t.Panic = true
			}
			ts = append(ts, t)
		}
		c.Submitters = append(c.Submitters, ts)
	}
	c.Stop = -1
	c.Barrier = true
	if c.Kind == "async" && r.Bool(0.15) {
		c.Burst = r.Pick(100, 1023, 1024, 1025, 1100, 3000)
	}
	if c.Kind != "async" && r.Bool(0.3) {
		total := 0
		for _, s := range c.Submitters {
			total += len(s)
		}
		c.Stop = r.Intn(total + 1)
		c.Barrier = false
	}
	return c
}

func shrinkCase(ci interface{}) []interface{} {
	c := ci.(*Case)
	var out []interface{}
	cp := func() *Case {
		x := *c
		x.Submitters = nil
		for _, s := range c.Submitters {
			x.Submitters = append(x.Submitters, append([]taskSpec(nil), s...))
		}
		return &x
	}
	for i := range c.Submitters {
		if len(c.Submitters) > 1 {
			x := cp()
			x.Submitters = append(x.Submitters[:i], x.Submitters[i+1:]...)
			out = append(out, x)
		}
	}
	for i, s := range c.Submitters {
		if len(s) > 1 {
			x := cp()
			x.Submitters[i] = x.Submitters[i][:len(s)/2]
			out = append(out, x)
			x = cp()
			x.Submitters[i] = x.Submitters[i][:len(s)-1]
			out = append(out, x)
		}
		for j, t := range s {
			if t != (taskSpec{}) {
				x := cp()
				x.Submitters[i][j] = taskSpec{}
				out = append(out, x)
			}
		}
	}
	if c.Max > 2 {
		x := cp()
		x.Max--
		out = append(out, x)
	}
	if c.Burst > 0 {
		x := cp()
		x.Burst = 0
		out = append(out, x)
		x = cp()
		x.Burst = c.Burst / 2
		out = append(out, x)
	}
	if c.Queue > 0 {
		x := cp()
		x.Queue = 0
		out = append(out, x)
	}
	for _, s := range common.ShrinkScheds(c.Sched) {
		x := cp()
		x.Sched = s
		out = append(out, x)
	}
	return out
}

type quietLogger struct{ n *int }

func (q quietLogger) SetLevel(int)                  {}
func (q quietLogger) Debug(string, ...interface{}) {}
func (q quietLogger) Info(string, ...interface{})  {}
func (q quietLogger) Warn(string, ...interface{})  {}
func (q quietLogger) Error(f string, a ...interface{}) {
	*q.n++
}

type rec struct {
	submitted bool // Go returned
	invoke    int64
	ret       int64
	afterStop bool // Go was invoked (or had not returned) when Stop was invoked
	runs      int
	start     int64
	end       int64
}

type goer interface {
	Go(func())
	Stop()
}

type ioAdapter struct {
	p       *taskpool.IOTaskPool
	inUse   map[*[]byte]bool
	bufSize int
	o       *common.Outcome
}

func (a *ioAdapter) Go(f func()) {
	a.p.Go(func(pb *[]byte) {
		if pb == nil || len(*pb) != a.bufSize {
			l := -1
			if pb != nil {
				l = len(*pb)
			}
			a.o.Fail("io-buffer-size", "", "IOTaskPool handed a buffer of length %d, configured %d", l, a.bufSize)
		}
		if a.inUse[pb] {
			a.o.Fail("io-buffer-shared", "", "IOTaskPool handed the same buffer to two running tasks")
		}
		a.inUse[pb] = true
		f()
		delete(a.inUse, pb)
	})
}
func (a *ioAdapter) Stop() { a.p.Stop() }

func newPool(c *Case, o *common.Outcome) goer {
	switch c.Kind {
	case "custom":
		return taskpool.New(c.Max, c.Queue, func(f func()) {
			defer func() { recover() }()
			f()
		})
	case "io":
		return &ioAdapter{p: taskpool.NewIO(c.Max, c.Queue, c.BufSize), inUse: map[*[]byte]bool{}, bufSize: c.BufSize, o: o}
	}
	return taskpool.New(c.Max, c.Queue)
}

// barrier reports whether k mutually waiting tasks complete on pool p.
func barrier(p goer, k int) bool {
	started := 0
	release := false
	done := 0
	for i := 0; i < k; i++ {
		simrt.GoNamed("barrier-submit", func() {
			p.Go(func() {
				started++
				simrt.WaitUntil("barrier", func() bool { return started >= k || release })
				done++
			})
		})
	}
	simrt.Idle()
	ok := started >= k
	release = true
	simrt.Idle()
	return ok
}

func run(t *testing.T, ci interface{}, trace bool) *common.Outcome {
	c := ci.(*Case)
	o := &common.Outcome{}
	ssync.PoolMode = c.Sched.PoolMode
	nerr := 0
	logging.SetLogger(quietLogger{&nerr})
	res := simrt.Run(t, c.Sched.Config(trace), func() {
		defer simrt.Finish()
		if c.Kind == "async" {
			runAsync(c, o)
			return
		}
		// calibration on a fresh pool of the same configuration
		p0 := 0
		if c.Barrier {
			for k := c.Max; k >= 1; k-- {
				fp := newPool(c, o)
				ok := barrier(fp, k)
				fp.Stop()
				simrt.Idle()
				if ok {
					p0 = k
					break
				}
			}
		}
		p := newPool(c, o)
		var recs []*rec
		running, maxRunning := 0, 0
		stopInvoked := false
		returned := 0
		var stopAt int64
		npanic := 0
		for si, specs := range c.Submitters {
			specs := specs
			base := len(recs)
			for range specs {
				recs = append(recs, &rec{})
			}
			simrt.GoNamed(fmt.Sprintf("submitter%d", si), func() {
				for j, sp := range specs {
					sp := sp
					r := recs[base+j]
					if stopInvoked {
						r.afterStop = true
					}
					r.invoke = simrt.Seq()
					p.Go(func() {
						r.runs++
						r.start = simrt.Seq()
						running++
						if running > maxRunning {
							maxRunning = running
						}
						for y := 0; y < sp.Yields; y++ {
							simrt.Yield()
						}
						if sp.Sleep > 0 {
							simrt.Sleep(time.Duration(sp.Sleep) * time.Microsecond)
						}
						running--
						r.end = simrt.Seq()
						if sp.Panic {
							npanic++
							panic("task panic (injected)")
						}
					})
					r.ret = simrt.Seq()
					r.submitted = true
					returned++
				}
			})
		}
		if c.Stop >= 0 {
			simrt.GoNamed("stopper", func() {
				simrt.WaitUntil("stop-point", func() bool { return returned >= c.Stop })
				stopAt = simrt.Seq()
				stopInvoked = true
				p.Stop()
			})
		}
		simrt.Quiesce(time.Hour)
		// quiescent: everything that can run has run
		total, before := 0, 0
		for i, r := range recs {
			total++
			handed := r.submitted && (c.Stop < 0 || r.ret < stopAt) && !r.afterStop
			if handed {
				before++
			}
			if r.runs > 1 {
				o.Fail("task-ran-twice", c.Kind, "task %d ran %d times", i, r.runs)
			}
			if handed && r.runs == 0 {
				cls := c.Kind
				if c.Stop >= 0 {
					cls += "+stop"
				}
				o.Fail("task-lost", cls, "task %d was handed over (Go returned at seq %d, Stop invoked at %d) and never ran; blocked: %v", i, r.ret, stopAt, simrt.Alive())
			}
			if c.Stop < 0 && !r.submitted {
				o.Fail("submit-stuck", c.Kind, "Go for task %d never returned although the pool is idle; blocked: %v", i, simrt.Alive())
			}
		}
		if maxRunning > c.Max {
			o.Fail("bound-exceeded", c.Kind, "%d tasks ran concurrently, configured bound %d", maxRunning, c.Max)
		}
		o.ProbeN("panics_injected", npanic)
		if maxRunning >= c.Max-1 {
			o.Probe("bound_reached")
		}
		if total > c.Max+c.Queue {
			o.Probe("burst_above_bound")
			o.NonTrivial = true
		}
		if c.Stop >= 0 && before < total {
			o.Probe("stop_raced_submission")
			o.NonTrivial = true
		}
		if c.Barrier && c.Stop < 0 && o.V == nil {
			if !barrier(p, p0) {
				o.Fail("capacity-lost", c.Kind, "a fresh pool(max=%d,queue=%d) runs %d mutually waiting tasks together; after the burst and idleness the same pool cannot", c.Max, c.Queue, p0)
			}
			o.Probe(fmt.Sprintf("p0=%d_of_max", p0-c.Max))
		}
		if c.Stop < 0 {
			p.Stop()
		}
		simrt.Idle()
	})
	finish(o, res, c.Sched)
	return o
}

func finish(o *common.Outcome, res *simrt.Result, s common.Sched) {
	o.Steps = res.Steps
	o.SimTime = res.SimTime
	o.LogHash = res.LogHash
	o.Finger = res.SchedHash
	o.Trace = res.Trace
	if res.HarnessErr != "" {
		o.Infra = res.HarnessErr
	}
	if len(res.Panics) > 0 {
		o.Fail("escaped-panic", "", "%s", res.Panics[0])
	}
	if res.BudgetHit && o.V == nil {
		o.Fail("step-budget", "", "step budget exhausted; blocked: %v", res.Blocked)
	}
	if res.Deadlock && o.V == nil {
		o.Fail("deadlock", "", "root did not finish; blocked: %v", res.Blocked)
	}
}

func runAsync(c *Case, o *common.Outcome) {
	tm := timer.New("sim")
	type arec struct {
		invoke, ret int64
		runs        int
		start, end  int64
		prod        int
	}
	var recs []*arec
	var order []int
	inside := 0
	if c.Burst > 0 {
		// a long backlog behind one slow function (the queue grows past its shrink threshold),
		// drained completely before anything else is submitted
		release, ran, next := false, 0, 0
		tm.Async(func() { simrt.WaitUntil("burst-hold", func() bool { return release }) })
		for i := 0; i < c.Burst; i++ {
			i := i
			tm.Async(func() {
				if i != next {
					o.Fail("async-fifo", "burst", "function %d of a backlog of %d ran at position %d", i, c.Burst, next)
				}
				next++
				ran++
			})
		}
		release = true
		simrt.Quiesce(time.Hour)
		if ran != c.Burst {
			o.Fail("async-exactly-once", "burst", "%d of %d queued Async functions ran", ran, c.Burst)
			return
		}
	}
	for si, specs := range c.Submitters {
		specs := specs
		si := si
		base := len(recs)
		for range specs {
			recs = append(recs, &arec{prod: si})
		}
		simrt.GoNamed(fmt.Sprintf("producer%d", si), func() {
			for j, sp := range specs {
				sp := sp
				id := base + j
				r := recs[id]
				r.invoke = simrt.Seq()
				tm.Async(func() {
					inside++
					if inside > 1 {
						o.Fail("async-overlap", "", "two Async functions ran at the same time")
					}
					r.runs++
					r.start = simrt.Seq()
					order = append(order, id)
					for y := 0; y < sp.Yields; y++ {
						simrt.Yield()
					}
					r.end = simrt.Seq()
					inside--
					if sp.Panic {
						panic("async panic (injected)")
					}
				})
				r.ret = simrt.Seq()
			}
		})
	}
	simrt.Quiesce(time.Hour)
	pos := map[int]int{}
	for i, id := range order {
		pos[id] = i
	}
	for id, r := range recs {
		if r.runs != 1 {
			o.Fail("async-exactly-once", "", "Async function %d ran %d times; blocked: %v", id, r.runs, simrt.Alive())
			return
		}
	}
	for a, ra := range recs {
		for b, rb := range recs {
			if a != b && ra.ret < rb.invoke && pos[a] > pos[b] {
				o.Fail("async-fifo", "", "Async(%d) returned (seq %d) before Async(%d) was invoked (seq %d) but ran after it", a, ra.ret, b, rb.invoke)
				return
			}
		}
	}
	if len(c.Submitters) > 1 {
		o.NonTrivial = true
	}
}

var props = []*common.Prop{{
	ID:     "C19",
	New:    func() interface{} { return &Case{} },
	Gen:    gen,
	Run:    run,
	Shrink: shrinkCase,
}}

func TestWorker(t *testing.T) { common.WorkerMain(t, props) }
