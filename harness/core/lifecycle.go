package core

// Lifecycle scenario (C03): connections of every kind (accepted, added, dialed
// asynchronously with every outcome, UDP sessions) are ended by every cause, several at
// once, racing with traffic. Oracle: the per-connection lifecycle automaton in world.go
// plus first-cause, closed-indication-after-Close and truthful-dial checks here.

import (
	"errors"
	"fmt"
	"io"
	"net"
	"syscall"
	"testing"
	"time"

	"github.com/lesismal/nbio"

	"verif/harness/common"
	"verif/sim/kernel"
	simrt "verif/sim/rt"
)

// Ender is one cause that ends (or tries to end) a connection.
type Ender struct {
	Kind    string `json:"kind"` // close | closeerr | peerfin | peerclose | peerrst | rdeadline | wdeadline | overflow | writeerr
	DelayUs int    `json:"delay_us,omitempty"`
	After   bool   `json:"after,omitempty"` // close/closeerr: afterwards call Write/Writev/Sendfile/Execute and expect the closed indication
}

// LifeConn is the plan of one connection.
type LifeConn struct {
	Kind      string  `json:"kind"`              // accepted | added | dial | udp
	Dial      string  `json:"dial,omitempty"`    // ok | refused | blackhole
	TimeoutMs int     `json:"timeout_ms,omitempty"`
	Traffic   []int   `json:"traffic,omitempty"` // bytes the peer sends (each entry one burst)
	Enders    []Ender `json:"enders,omitempty"`
	// After (dial only): k > 0 = an application that reconnects when connection k-1 goes away:
	// the dial is issued by the goroutine that closed it, as soon as its Close / CloseWithError
	// has returned (the new socket usually gets the descriptor number that has just become
	// free), or, when nothing in the plan of k-1 closes it from the application side, from
	// inside its close notification
	After int `json:"after,omitempty"`
}

// LifeCase is a case of the lifecycle scenario.
type LifeCase struct {
	Sched common.Sched  `json:"sched"`
	K     kernel.Params `json:"kernel"`
	Eng   EngCfg        `json:"eng"`
	Conns []LifeConn    `json:"conns"`
}

func (c *LifeCase) copy() *LifeCase {
	x := *c
	x.Conns = nil
	for _, cn := range c.Conns {
		cn.Traffic = append([]int(nil), cn.Traffic...)
		cn.Enders = append([]Ender(nil), cn.Enders...)
		x.Conns = append(x.Conns, cn)
	}
	return &x
}

var enderKinds = []string{"close", "close", "closeerr", "peerfin", "peerclose", "peerrst", "rdeadline", "wdeadline", "overflow", "writeerr"}

func genLifeCase(r *simrt.Rand, tier string) *LifeCase {
	c := &LifeCase{Sched: common.GenSched(r, 120000)}
	c.Eng = genEng(r)
	c.Eng.MaxWBuf = 4096
	c.K = genKernel(r, true)
	if c.K.SndCap < 16 {
		c.K.SndCap = 16
	}
	c.K.ShortRead = 0
	if r.Bool(0.1) {
		c.K.EpollAddFail = r.Range(1, 3)
	}
	if r.Bool(0.05) {
		c.K.DupFail = r.Range(1, 3)
	}
	n := r.Range(1, 3)
	for i := 0; i < n; i++ {
		var cn LifeConn
		switch k := r.Intn(10); {
		case k < 5:
			cn.Kind = "accepted"
		case k < 6:
			cn.Kind = "added"
		default:
			cn.Kind = "dial"
			cn.Dial = []string{"ok", "ok", "refused", "blackhole"}[r.Intn(4)]
			if r.Bool(0.6) || cn.Dial == "blackhole" {
				cn.TimeoutMs = r.Pick(1, 50, 1000)
			}
			if i > 0 && r.Bool(0.3) {
				cn.After = 1 + r.Intn(i)
			}
		}
		if c.Eng.Network == "unix" && cn.Kind != "accepted" {
			cn.Kind = "accepted"
			cn.Dial = ""
			cn.TimeoutMs = 0
		}
		udp := c.Eng.Network != "unix" && r.Bool(0.12)
		if udp {
			// a UDP client connection (net.DialUDP handed to the engine): a connection the engine
			// manages like the others, ended by what the application can do to it
			cn = LifeConn{Kind: "udpdial"}
		}
		for j := 0; j < r.Intn(3); j++ {
			cn.Traffic = append(cn.Traffic, r.Pick(1, 10, 1000))
		}
		ne := r.Pick(0, 1, 1, 2, 3, 4)
		for j := 0; j < ne; j++ {
			e := Ender{Kind: enderKinds[r.Intn(len(enderKinds))], DelayUs: r.Pick(0, 0, 1, 10, 100, 1000)}
			if udp {
				e.Kind = r.PickS("close", "closeerr", "closeerr", "rdeadline")
			}
			if e.Kind == "close" || e.Kind == "closeerr" {
				e.After = r.Bool(0.5)
			}
			cn.Enders = append(cn.Enders, e)
		}
		c.Conns = append(c.Conns, cn)
	}
	if c.Eng.Network == "tcp" && r.Bool(0.15) {
		// the reconnect family: a connection that the peer and the application end at about the
		// same time, and a dial that is issued as soon as the application's Close has returned -
		// descriptor numbers, epoll registrations and events that were harvested for the old
		// connection meet the new one
		first := LifeConn{Kind: r.PickS("dial", "dial", "accepted"), Enders: []Ender{
			{Kind: r.PickS("peerfin", "peerclose", "peerrst"), DelayUs: r.Pick(0, 1, 10)},
			{Kind: r.PickS("close", "closeerr"), DelayUs: r.Pick(0, 1, 10)}}}
		if first.Kind == "dial" {
			first.Dial = "ok"
		}
		for j := 0; j < r.Intn(2); j++ {
			first.Traffic = append(first.Traffic, r.Pick(1, 10))
		}
		second := LifeConn{Kind: "dial", Dial: r.PickS("ok", "refused", "blackhole", "blackhole"), TimeoutMs: r.Pick(1, 50), After: 1}
		c.K.FDReuse = true
		c.Conns = []LifeConn{first, second}
	}
	return c
}

func shrinkLife(ci interface{}) []interface{} {
	c := ci.(*LifeCase)
	var out []interface{}
	for i := range c.Conns {
		if len(c.Conns) > 1 {
			x := c.copy()
			x.Conns = append(x.Conns[:i], x.Conns[i+1:]...)
			out = append(out, x)
		}
	}
	for i, cn := range c.Conns {
		for j := range cn.Enders {
			x := c.copy()
			x.Conns[i].Enders = append(x.Conns[i].Enders[:j], x.Conns[i].Enders[j+1:]...)
			out = append(out, x)
		}
		for j, e := range cn.Enders {
			if e.DelayUs > 0 {
				x := c.copy()
				x.Conns[i].Enders[j].DelayUs = 0
				out = append(out, x)
			}
			if e.After {
				x := c.copy()
				x.Conns[i].Enders[j].After = false
				out = append(out, x)
			}
		}
		if len(cn.Traffic) > 0 {
			x := c.copy()
			x.Conns[i].Traffic = x.Conns[i].Traffic[:len(cn.Traffic)-1]
			out = append(out, x)
		}
	}
	k := c.K
	try := func(f func(p *kernel.Params)) {
		x := c.copy()
		f(&x.K)
		if x.K != k {
			out = append(out, x)
		}
	}
	try(func(p *kernel.Params) { p.ShortWrite = 0 })
	try(func(p *kernel.Params) { p.EINTRRead = 0 })
	try(func(p *kernel.Params) { p.EINTRWait = 0 })
	try(func(p *kernel.Params) { p.WaitSubset = 0 })
	try(func(p *kernel.Params) { p.InstantNet = true })
	try(func(p *kernel.Params) { p.EpollAddFail = 0 })
	try(func(p *kernel.Params) { p.DupFail = 0 })
	if c.Eng.NPoller > 1 {
		x := c.copy()
		x.Eng.NPoller = 1
		out = append(out, x)
	}
	if c.Eng.Async {
		x := c.copy()
		x.Eng.Async = false
		x.Eng.IOExec = ""
		out = append(out, x)
	}
	for _, s := range common.ShrinkScheds(c.Sched) {
		x := c.copy()
		x.Sched = s
		out = append(out, x)
	}
	return out
}

type lifeCause struct {
	kind         string
	invoke, done int64
	err          error // for closeerr
}

type lifeState struct {
	causes    []*lifeCause
	dialCalls int
	dialErr   error
	dialConn  *nbio.Conn
	established bool // ground truth from the kernel model
	plan      LifeConn
	overlap   bool
	deferred  bool // a dial that waits for another connection to go away (and has not been issued yet)
	reconnect []func() // dials to issue when this connection has been closed by the application
}

func errClassMatches(kind string, want error, got error) bool {
	switch kind {
	case "close", "stop":
		return got == nil
	case "closeerr":
		return got == want
	case "peerfin":
		return got == io.EOF
	case "peerclose":
		// after a full close of the peer a later flush may fail before the EOF is noticed
		return got == io.EOF || errors.Is(got, syscall.ECONNRESET) || errors.Is(got, syscall.EPIPE)
	case "peerrst", "writeerr":
		return got == io.EOF || errors.Is(got, syscall.ECONNRESET) || errors.Is(got, syscall.EPIPE)
	case "writeany":
		return got == io.EOF || errors.Is(got, syscall.ECONNRESET) || errors.Is(got, syscall.EPIPE) || got == nbio.ErrOverflow
	case "rdeadline":
		return got == nbio.ErrReadTimeout
	case "wdeadline":
		return got == nbio.ErrWriteTimeout
	case "overflow":
		return got == nbio.ErrOverflow
	case "dialtimeout":
		return got == nbio.ErrDialTimeout
	case "refused":
		return errors.Is(got, syscall.ECONNREFUSED) || got == io.EOF
	case "addfail":
		return got != nil
	}
	return false
}

func runLife(t *testing.T, ci interface{}, trace bool) *common.Outcome {
	c := ci.(*LifeCase)
	o := &common.Outcome{}
	var w *World
	res := simrt.Run(t, c.Sched.Config(trace), func() {
		defer simrt.Finish()
		w = NewWorld(t, o, "C03", c.Eng, c.K, c.Sched)
		// watch for descriptor access by a goroutine that is past a returned Close
		watchG, watchFD := -1, -1
		w.K.OnSyscall = func(name string, fd int) {
			if fd == watchFD && simrt.CurID() == watchG {
				w.Fail("C03", "fd-touched-after-close", name, "%s on descriptor %d by the goroutine whose Close on that connection had already returned", name, fd)
			}
		}
		if err := w.Start(); err != nil {
			o.Infra = "engine start: " + err.Error()
			return
		}
		pending := 0
		states := make([]*lifeState, len(c.Conns))
		css := make([]*ConnState, len(c.Conns))
		listenAt := func(port int) (*kernel.Sock, error) {
			return w.K.Listen(&kernel.Addr{Net: "tcp", IP: [4]byte{127, 0, 0, 1}, Port: port})
		}
		closesOverlap := 0
		stopping := false // (a reconnect is not issued from the close notifications Stop delivers)
		for i, plan := range c.Conns {
			i, plan := i, plan
			st := &lifeState{plan: plan}
			states[i] = st
			addCause := func(kind string, err error) *lifeCause {
				lc := &lifeCause{kind: kind, invoke: simrt.Seq(), err: err}
				st.causes = append(st.causes, lc)
				return lc
			}
			// application side enders run when the connection is known to the application
			startEnders := func(cs *ConnState) {
				for j, e := range plan.Enders {
					j, e := j, e
					pending++
					simrt.GoNamed(fmt.Sprintf("ender%d.%d:%s", i, j, e.Kind), func() {
						defer func() { pending-- }()
						if e.DelayUs > 0 {
							simrt.Sleep(time.Duration(e.DelayUs) * time.Microsecond)
						}
						nc := cs.C
						if nc == nil {
							return
						}
						switch e.Kind {
						case "close", "closeerr":
							var ce error
							if e.Kind == "closeerr" {
								ce = fmt.Errorf("app error %d.%d", i, j)
							}
							for _, oc := range st.causes {
								if (oc.kind == "close" || oc.kind == "closeerr") && oc.done == 0 {
									closesOverlap++
								}
							}
							lc := addCause(e.Kind, ce)
							fd := ProbeFD(nc)
							if ce != nil {
								nc.CloseWithError(ce)
							} else {
								nc.Close()
							}
							lc.done = simrt.Seq()
							for _, f := range st.reconnect {
								f()
							}
							st.reconnect = nil
							if e.After {
								watchG, watchFD = simrt.CurID(), fd
								if !c.K.FDReuse || len(c.Conns) == 1 {
									// (with descriptor reuse and several connections the number may already belong to another connection)
								} else {
									watchFD = -1
								}
								if n, err := nc.Write([]byte("after close")); err == nil {
									w.Fail("C03", "write-after-close-accepted", "Write", "Write on a connection whose Close had returned reported success (n=%d)", n)
								}
								if n, err := nc.Writev([][]byte{[]byte("after"), []byte("close")}); err == nil {
									w.Fail("C03", "write-after-close-accepted", "Writev", "Writev on a connection whose Close had returned reported success (n=%d)", n)
								}
								if f, ferr := OpenTempFile(); ferr == nil {
									if n, err := nc.Sendfile(f, 10); err == nil {
										w.Fail("C03", "write-after-close-accepted", "Sendfile", "Sendfile on a connection whose Close had returned reported success (n=%d)", n)
									}
									f.Close()
								}
								ran := false
								if nc.Execute(func() { ran = true }) || ran {
									w.Fail("C03", "execute-after-close", "", "Execute on a connection whose Close had returned accepted the job")
								}
								watchG, watchFD = -1, -1
							}
						case "peerfin":
							addCause(e.Kind, nil)
							if cs.Peer != nil {
								cs.Peer.ShutdownWrite()
							}
						case "peerclose":
							addCause(e.Kind, nil)
							if cs.Peer != nil {
								w.PeerDrain(cs, 1<<20)
								cs.Peer.CloseEnd()
							}
						case "peerrst":
							addCause(e.Kind, nil)
							if cs.Peer != nil {
								cs.Peer.Reset()
							}
						case "rdeadline":
							addCause(e.Kind, nil)
							nc.SetReadDeadline(time.Now().Add(time.Millisecond))
						case "wdeadline":
							// a write that leaves a backlog, then a write deadline that nothing clears
							sz := c.K.SndCap + 10
							if sz > c.Eng.MaxWBuf {
								sz = c.Eng.MaxWBuf
							}
							// the write itself may end the connection: register that possibility before the call
							wl := addCause("writeany", nil)
							if _, err := nc.Write(make([]byte, sz)); err != nil {
								if errors.Is(err, net.ErrClosed) {
									wl.kind = "none"
								}
								return
							}
							wl.kind = "none"
							addCause(e.Kind, nil)
							nc.SetWriteDeadline(time.Now().Add(time.Millisecond))
						case "overflow":
							lc := addCause("writeany", nil)
							// fill the kernel buffer, then exceed the bound
							fill := c.K.SndCap
							if fill > c.Eng.MaxWBuf {
								fill = c.Eng.MaxWBuf
							}
							_, err := nc.Write(make([]byte, fill))
							if err == nil {
								_, err = nc.Write(make([]byte, c.Eng.MaxWBuf+1))
							}
							if err == nil || errors.Is(err, net.ErrClosed) {
								lc.kind = "none" // the write fit (the peer drained) or the connection was closed already: no overflow happened
							} else if errors.Is(err, nbio.ErrOverflow) {
								lc.kind = "overflow"
							}
							lc.done = simrt.Seq()
						case "writeerr":
							if cs.Peer != nil {
								cs.Peer.Reset()
							}
							lc := addCause("writeany", nil)
							if _, err := nc.Write([]byte("to a dead peer")); err == nil || errors.Is(err, net.ErrClosed) {
								lc.kind = "peerrst" // the write itself did not fail; the reset ends the connection
							}
						}
					})
				}
			}
			attach := func(cs *ConnState) {
				cs.Data = st
				css[i] = cs
				cs.OnCloseHook = func(cs *ConnState, err error) {
					if err == nbio.ErrDialTimeout && cs.Dialed && cs.DialCB > 0 && cs.DialErr == nil {
						// the dial timer and the completion of the connect exclude each other: a dial
						// that has reported success is over, its timeout is no close cause any more
						w.Fail("C03", "dial-timeout-after-success", st.plan.Dial, "connection %d: the dial callback reported success, later the connection was closed with the dial timeout error (timeout %dms): the dial timer outlived the dial", cs.ID, st.plan.TimeoutMs)
						return
					}
					checkFirstCause(w, cs, st, err)
				}
			}
			switch plan.Kind {
			case "accepted":
				cs, err := w.ConnectPeer()
				if err != nil {
					o.Infra = "peer connect: " + err.Error()
					return
				}
				attach(cs)
				st.established = true
				cs.OnOpenHook = func(cs *ConnState) { startEnders(cs) }
				for _, n := range plan.Traffic {
					n := n
					pending++
					simrt.GoNamed("traffic", func() { defer func() { pending-- }(); w.PeerSend(cs, Payload(cs.ID, 'I', len(cs.Sent), n)) })
				}
			case "added":
				peerLn, err := listenAt(7100 + i)
				if err != nil {
					o.Infra = "peer listen: " + err.Error()
					return
				}
				nc, err := nbio.Dial("tcp", fmt.Sprintf("127.0.0.1:%d", 7100+i))
				if err != nil {
					o.Probe("nbio_dial_failed_by_injected_fault") // dup -> EMFILE
					continue
				}
				peer := peerLn.Accept()
				cs := w.Expect(nc.LocalAddr().String(), peer)
				attach(cs)
				st.established = true
				cs.OnOpenHook = func(cs *ConnState) { startEnders(cs) }
				if _, err := w.G.AddConn(nc); err != nil {
					st.causes = append(st.causes, &lifeCause{kind: "addfail", invoke: 0})
				}
			case "udpdial":
				remote := w.K.NewPeer(kernel.UDP)
				raddr := &kernel.Addr{Net: "udp", IP: [4]byte{127, 0, 0, 1}, Port: 7500 + i}
				w.K.BindDgram(remote, raddr)
				nc, err := nbio.Dial("udp", fmt.Sprintf("127.0.0.1:%d", 7500+i))
				if err != nil {
					o.Probe("nbio_dial_failed_by_injected_fault")
					continue
				}
				la := nc.LocalAddr().String()
				cs := w.Expect(la, nil)
				attach(cs)
				st.established = true
				traffic := plan.Traffic
				cs.OnOpenHook = func(cs *ConnState) {
					// datagrams from the remote arrive before the enders act: a client that has
					// received something is the interesting one
					got := 0
					cs.OnDataHook = func(cs *ConnState, data []byte) { got++ }
					if ka := parseUDPAddr(la); ka != nil {
						for range traffic {
							// (one byte each: the engine's read buffer may be tiny, and truncation
							// of datagrams is not this check's subject)
							b := Payload(cs.ID, 'U', len(cs.Sent), 1)
							cs.Sent = append(cs.Sent, b...)
							w.K.PeerSendTo(remote, b, ka)
						}
					}
					pending++
					simrt.GoNamed("udp-enders", func() {
						defer func() { pending-- }()
						simrt.WaitStuck("udp-data", 5*time.Millisecond, func() bool { return got > 0 || len(traffic) == 0 })
						startEnders(cs)
					})
				}
				if _, err := w.G.AddConn(nc); err != nil {
					st.causes = append(st.causes, &lifeCause{kind: "addfail", invoke: 0})
				}
			case "dial":
				addr := fmt.Sprintf("127.0.0.1:%d", 7200+i)
				var peerLn *kernel.Sock
				switch plan.Dial {
				case "refused":
					addr = fmt.Sprintf("127.0.0.1:%d", 7300+i)
				case "blackhole":
					addr = fmt.Sprintf("127.0.0.1:%d", 7400+i)
					w.K.Blackhole["tcp|"+addr] = true
				default:
					var err error
					peerLn, err = listenAt(7200 + i)
					if err != nil {
						o.Infra = "peer listen: " + err.Error()
						return
					}
				}
				cs := w.Expect(addr, nil)
				cs.Dialed = true
				attach(cs)
				issue := func() {
					cb := func(nc *nbio.Conn, err error) {
						st.dialCalls++
						cs.DialCB++
						cs.DialErr = err
						st.dialErr = err
						st.dialConn = nc
						simrt.Ev("DialCB", int64(cs.ID))
						if simrt.Tracing() {
							simrt.Logf("dial callback conn %d err=%v", cs.ID, err)
						}
						if st.dialCalls > 1 {
							w.Fail("C03", "dial-callback-twice", plan.Dial, "the dial callback of connection %d was invoked %d times", cs.ID, st.dialCalls)
						}
						if err == nil {
							if nc == nil {
								w.Fail("C03", "dial-success-without-conn", plan.Dial, "dial callback with nil error and nil connection")
								return
							}
							if cs.C == nil {
								cs.C = nc
								w.byC[nc] = cs
							}
							// ground truth: is the connection really established in the kernel?
							ks := w.K.SockOf(ProbeFD(nc))
							if plan.Dial != "ok" {
								w.Fail("C03", "dial-false-success", plan.Dial, "the dial callback reported success (err == nil) but the kernel never established the connection (dial outcome in the model: %s)", plan.Dial)
							}
							if ks != nil && ks.Peer() != nil {
								cs.Peer = ks.Peer()
								cs.Local = ks
							}
							startEnders(cs)
						}
					}
					var err error
					if plan.TimeoutMs > 0 {
						err = w.G.DialAsyncTimeout("tcp", addr, time.Duration(plan.TimeoutMs)*time.Millisecond, cb)
						// the dial timer may fire just before the connect completes: a possible cause for every timed dial
						st.causes = append(st.causes, &lifeCause{kind: "dialtimeout", invoke: 0})
					} else {
						err = w.G.DialAsync("tcp", addr, cb)
					}
					if plan.Dial == "refused" {
						st.causes = append(st.causes, &lifeCause{kind: "refused", invoke: 0})
					}
					if err != nil {
						st.dialCalls = -1 // synchronous error return: no callback expected
					}
					if plan.Dial == "ok" {
						st.established = true
						// accept on the harness side when the connection shows up
						pending++
						simrt.GoNamed("peer-accept", func() {
							defer func() { pending-- }()
							simrt.WaitStuck("peer-accept", time.Second, func() bool { return peerLn.AcceptReady() })
							peerLn.Accept()
						})
					}
				}
				if a := plan.After - 1; a >= 0 && a < i && css[a] != nil && css[a].Closes == 0 {
					prev, old := css[a], css[a].OnCloseHook
					st.deferred = true
					appCloses := false
					for _, e := range states[a].plan.Enders {
						if e.Kind == "close" || e.Kind == "closeerr" {
							appCloses = true
						}
					}
					if appCloses {
						states[a].reconnect = append(states[a].reconnect, func() {
							if st.deferred && !stopping {
								st.deferred = false
								o.Probe("dial_issued_after_close_returned")
								issue()
							}
						})
					} else {
						prev.OnCloseHook = func(pcs *ConnState, err error) {
							if old != nil {
								old(pcs, err)
							}
							if st.deferred && !stopping {
								st.deferred = false
								o.Probe("dial_issued_inside_close_notification")
								issue()
							}
						}
					}
				} else {
					issue()
				}
			}
		}
		// map dialed nbio conns to their ConnState as soon as callbacks mention them
		w.NewConn = nil
		simrt.WaitStuck("enders-done", 3*time.Second, func() bool { return pending == 0 })
		w.EnterFair()
		simrt.Quiesce(3 * time.Second)
		// ---- quiescent: dial outcomes -------------------------------------------------------
		for i, st := range states {
			plan := st.plan
			if plan.Kind != "dial" || st.dialCalls < 0 || st.deferred {
				continue
			}
			if plan.Dial == "blackhole" && plan.TimeoutMs == 0 {
				continue // still connecting: no outcome yet, none required
			}
			if st.dialCalls == 0 {
				w.Fail("C03", "dial-callback-missing", plan.Dial, "asynchronous dial %d (model outcome %s, timeout %dms) never reported its outcome although the world is quiescent and the timeout has passed", i, plan.Dial, plan.TimeoutMs)
			}
			if st.dialCalls > 0 && st.dialErr == nil && !st.established {
				w.Fail("C03", "dial-false-success", plan.Dial, "asynchronous dial %d reported success but the model outcome is %s", i, plan.Dial)
			}
		}
		// every connection that has a cause must be closed by now (liveness side of "exactly one")
		for i, cs := range css {
			if cs == nil {
				continue
			}
			st := states[i]
			real := 0
			for _, lc := range st.causes {
				if lc.kind != "none" {
					real++
				}
			}
			if real > 0 && cs.Opens > 0 && cs.Closes == 0 {
				w.Fail("C03", "close-notification-missing", st.causes[0].kind, "connection %d was opened and ended (%s) but got no close notification by quiescence", cs.ID, st.causes[0].kind)
			}
			if cs.Opens == 0 && cs.Closes > 0 && !cs.Dialed {
				w.Fail("C03", "close-without-open", "accepted", "connection %d got a close notification without an open notification", cs.ID)
			}
		}
		before := 0
		for _, cs := range w.Conns {
			if cs.Opens > 0 || (cs.Dialed && cs.DialCB > 0 && cs.DialErr == nil) {
				before++
			}
		}
		// ---- Stop: by the time it returns every opened connection has its notification ----
		stopped := false
		simrt.GoNamed("stopper", func() {
			stopping = true
			for _, cs := range css {
				if cs != nil && cs.Closes == 0 {
					if st, ok := cs.Data.(*lifeState); ok {
						st.causes = append(st.causes, &lifeCause{kind: "stop", invoke: simrt.Seq()})
					}
				}
			}
			w.StopAll()
			stopped = true
		})
		if !simrt.WaitStuck("stop", 3*time.Second, func() bool { return stopped }) {
			w.Fail("C18", "stop-hang", "lifecycle", "Stop did not return: %v", simrt.Alive())
			o.Probe("stop_hang_seen")
			return
		}
		for _, cs := range w.Conns {
			opened := cs.Opens > 0 || (cs.Dialed && cs.DialCB > 0 && cs.DialErr == nil)
			if opened && cs.Closes != 1 {
				w.Fail("C03", "close-count-at-stop", "", "connection %d (%s): %d close notifications by the time Stop returned (opened=%v)", cs.ID, cs.Key, cs.Closes, opened)
			}
			if !opened && cs.Closes > 0 {
				cls := "accepted"
				if cs.Dialed {
					cls = "dialed"
				}
				w.Fail("C03", "close-without-open", cls, "connection %d (%s) was never opened but got %d close notifications", cs.ID, cs.Key, cs.Closes)
			}
		}
		nt := 0
		for _, st := range states {
			real := 0
			for _, lc := range st.causes {
				if lc.kind != "none" {
					real++
				}
			}
			if real >= 2 || (st.plan.Kind == "dial" && st.plan.Dial != "ok") {
				nt++
			}
		}
		o.NonTrivial = nt > 0 || closesOverlap > 0
		o.ProbeN("concurrent_close_calls", closesOverlap)
	})
	Finish(o, res, w)
	w.Livelock(res)
	if res.Deadlock && o.V == nil && o.Infra == "" {
		o.Infra = fmt.Sprintf("run ended without finishing: %v", res.Blocked)
	}
	return o
}

// checkFirstCause: the reported error must belong to a cause that was not preceded by a
// completed other cause.
func checkFirstCause(w *World, cs *ConnState, st *lifeState, got error) {
	now := cs.CloseSeq
	if errors.Is(got, syscall.ENOMEM) && w.K.P.EpollAddFail > 0 {
		w.O.Probe("closed_by_injected_epoll_add_failure")
		return // the injected EPOLL_CTL_ADD failure is the (unplanned) first cause
	}
	var cands []*lifeCause
	for _, lc := range st.causes {
		if lc.kind == "none" || lc.invoke > now {
			continue
		}
		cands = append(cands, lc)
	}
	if len(cands) == 0 {
		// nothing the harness did: must be a kernel level event we did not plan (e.g. add failure)
		w.O.Probe("close_without_planned_cause")
		return
	}
	matched := false
	var kinds []string
	for _, lc := range cands {
		kinds = append(kinds, lc.kind)
		if !errClassMatches(lc.kind, lc.err, got) {
			continue
		}
		preceded := false
		for _, o2 := range cands {
			if o2 != lc && o2.done != 0 && o2.done < lc.invoke {
				preceded = true
			}
		}
		if !preceded {
			matched = true
		}
	}
	if !matched {
		w.Fail("C03", "close-error-not-first-cause", kinds[0], "connection %d: close notification reports %v, which is not the first cause; causes that had become observable (in order): %v", cs.ID, got, kinds)
	}
}

var _ = net.ErrClosed


// parseUDPAddr turns "127.0.0.1:port" into a kernel address.
func parseUDPAddr(s string) *kernel.Addr {
	var a, b, c, d, port int
	if n, _ := fmt.Sscanf(s, "%d.%d.%d.%d:%d", &a, &b, &c, &d, &port); n != 5 {
		return nil
	}
	return &kernel.Addr{Net: "udp", IP: [4]byte{byte(a), byte(b), byte(c), byte(d)}, Port: port}
}
