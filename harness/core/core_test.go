package core

import (
	"testing"

	"verif/harness/common"
	simrt "verif/sim/rt"
)

func outProp(id string) *common.Prop {
	return &common.Prop{
		ID:  id,
		New: func() interface{} { return &OutCase{} },
		Gen: func(r *simrt.Rand, tier string, idx int) interface{} { return genOutCase(r, tier, id) },
		Run: func(t *testing.T, c interface{}, trace bool) *common.Outcome { return runOut(t, c, trace, id) },
		Shrink: shrinkOut,
	}
}

var props = []*common.Prop{outProp("C01"), outProp("C04"), outProp("C17")}

func TestWorker(t *testing.T) { common.WorkerMain(t, props) }
