package core

import (
	"testing"

	"verif/harness/common"
)

func TestWorker(t *testing.T) { common.WorkerMain(t, Props) }
