package core

import (
	"testing"

	"verif/harness/common"
	simrt "verif/sim/rt"
)

func outProp(id string) *common.Prop {
	return &common.Prop{
		ID:  id,
		New: func() interface{} { return &OutCase{} },
		Gen: func(r *simrt.Rand, tier string, idx int) interface{} { return genOutCase(r, tier, id) },
		Run: func(t *testing.T, c interface{}, trace bool) *common.Outcome { return runOut(t, c, trace, id) },
		Shrink: shrinkOut,
	}
}

var props = []*common.Prop{outProp("C01"), outProp("C04"), outProp("C17"),
	{ID: "C03", New: func() interface{} { return &LifeCase{} },
		Gen:    func(r *simrt.Rand, tier string, idx int) interface{} { return genLifeCase(r, tier) },
		Run:    func(t *testing.T, c interface{}, trace bool) *common.Outcome { return runLife(t, c, trace) },
		Shrink: shrinkLife},
	{ID: "C02", New: func() interface{} { return &InCase{} },
		Gen:    func(r *simrt.Rand, tier string, idx int) interface{} { return genInCase(r, tier) },
		Run:    func(t *testing.T, c interface{}, trace bool) *common.Outcome { return runIn(t, c, trace) },
		Shrink: shrinkIn,
		Exclude: func(ci interface{}, open map[string]bool) bool {
			c := ci.(*InCase)
			for _, cn := range c.Conns {
				if cn.End != "fin" && cn.End != "close" {
					continue
				}
				if open["S22a"] && c.Eng.Mode == "LT" {
					return true
				}
				if open["S22b"] && c.Eng.Async && c.Eng.Mode != "LT" {
					return true
				}
			}
			return false
		}},
}

func TestWorker(t *testing.T) { common.WorkerMain(t, props) }
