package core

// C03, UDP peer sessions: "each connection an engine manages (..., or a UDP peer session) gets
// exactly one close notification, never before its open notification, whatever ends it; the
// reported error is the first cause". A UDP listener creates one logical connection per remote
// address. Here remotes talk to the listener in rounds: a round opens a session, something
// ends it (Close, CloseWithError, a read deadline, the engine's UDP read timeout), and the next
// round of the same remote address must get a session of its own.

import (
	"errors"
	"fmt"
	"testing"
	"time"

	"github.com/lesismal/nbio"

	"verif/harness/common"
	"verif/sim/kernel"
	simrt "verif/sim/rt"
)

// UDPRound is one session of a remote.
type UDPRound struct {
	Datagrams int    `json:"datagrams"` // 1..3 one-byte datagrams
	End       string `json:"end"`       // close | closeerr | rdeadline | udptimeout | none (only as the last round)
	DelayUs   int    `json:"delay_us,omitempty"`
	Closers   int    `json:"closers,omitempty"` // close / closeerr: number of goroutines calling it at once
	// Race: datagrams the remote sends while the session is being ended (last round only): they are
	// delivered on the ending session or start the next one - and whatever they start must be closed
	// like every other session when the engine stops
	Race int `json:"race,omitempty"`
	// Empty: the round's first datagram has no payload. It opens the session like any other (and the
	// engine's UDP read timeout runs for it), whether or not it is handed to the data callback.
	Empty bool `json:"empty,omitempty"`
}

// UDPLifeCase is a case of the UDP part of C03.
type UDPLifeCase struct {
	Sched   common.Sched  `json:"sched"`
	K       kernel.Params `json:"kernel"`
	Eng     EngCfg        `json:"eng"`
	Remotes [][]UDPRound  `json:"remotes"`
}

func genUDPLifeCase(r *simrt.Rand, tier string) *UDPLifeCase {
	c := &UDPLifeCase{Sched: common.GenSched(r, 120000)}
	c.Eng = genEng(r)
	c.Eng.Network = "udp"
	c.Eng.Async = false
	c.Eng.IOExec = ""
	if c.Eng.ReadBuf < 8 {
		c.Eng.ReadBuf = 64
	}
	c.Eng.UDPTimeoutS = r.Pick(0, 1)
	c.K = kernel.DefaultParams()
	c.K.InstantNet = true
	c.K.EINTRRead = r.PickF(0, 0.05)
	c.K.EINTRWait = r.PickF(0, 0.05)
	nr := r.Range(1, 3)
	for i := 0; i < nr; i++ {
		var rounds []UDPRound
		n := r.Range(1, 3)
		for j := 0; j < n; j++ {
			rd := UDPRound{Datagrams: r.Range(1, 3), End: r.PickS("close", "closeerr", "closeerr", "rdeadline"), DelayUs: r.Pick(0, 1, 100), Closers: r.Pick(1, 1, 2, 3)}
			if r.Bool(0.12) {
				rd.End = "openclose" // the application ends the session inside its open notification
			}
			if c.Eng.UDPTimeoutS > 0 && r.Bool(0.3) {
				rd.End = "udptimeout"
			}
			if j == n-1 && r.Bool(0.3) {
				rd.End = "none"
			}
			if j == n-1 && rd.End != "none" && r.Bool(0.4) {
				rd.Race = r.Range(1, 3)
			}
			if rd.End != "openclose" && r.Bool(0.15) {
				rd.Empty = true
			}
			rounds = append(rounds, rd)
		}
		c.Remotes = append(c.Remotes, rounds)
	}
	return c
}

func shrinkUDPLife(ci interface{}) []interface{} {
	c := ci.(*UDPLifeCase)
	cp := func() *UDPLifeCase {
		x := *c
		x.Remotes = nil
		for _, rs := range c.Remotes {
			x.Remotes = append(x.Remotes, append([]UDPRound(nil), rs...))
		}
		return &x
	}
	var out []interface{}
	for i := range c.Remotes {
		if len(c.Remotes) > 1 {
			x := cp()
			x.Remotes = append(x.Remotes[:i], x.Remotes[i+1:]...)
			out = append(out, x)
		}
	}
	for i, rs := range c.Remotes {
		if len(rs) > 1 {
			x := cp()
			x.Remotes[i] = x.Remotes[i][:len(rs)-1]
			out = append(out, x)
			x = cp()
			x.Remotes[i] = x.Remotes[i][1:]
			out = append(out, x)
		}
		for j, rd := range rs {
			if rd.Closers > 1 || rd.Datagrams > 1 || rd.DelayUs != 0 {
				x := cp()
				x.Remotes[i][j].Closers, x.Remotes[i][j].Datagrams, x.Remotes[i][j].DelayUs = 1, 1, 0
				out = append(out, x)
			}
		}
	}
	for _, s := range common.ShrinkScheds(c.Sched) {
		x := cp()
		x.Sched = s
		out = append(out, x)
	}
	return out
}

type udpSession struct {
	conn   *nbio.Conn
	opens  int
	closes int
	err    error
	data   int
	openAt int64
}

func runUDPLife(t *testing.T, ci interface{}, trace bool) *common.Outcome {
	c := ci.(*UDPLifeCase)
	o := &common.Outcome{}
	var w *World
	res := simrt.Run(t, c.Sched.Config(trace), func() {
		defer simrt.Finish()
		w = NewWorld(t, o, "C03", c.Eng, c.K, c.Sched)
		type remote struct {
			sock        *kernel.Sock
			sessions    []*udpSession // one per opened session, in order
			closeInOpen error         // non-nil: the next open notification ends its session with this error
		}
		remotes := make([]*remote, len(c.Remotes))
		byAddr := map[string]*remote{}
		byConn := map[*nbio.Conn]*udpSession{}
		w.G.OnOpen(func(nc *nbio.Conn) {
			key := ""
			if ra := nc.RemoteAddr(); ra != nil {
				key = ra.String()
			}
			if simrt.Tracing() {
				simrt.Logf("udp OnOpen %s conn=%p", key, nc)
			}
			r := byAddr[key]
			if r == nil {
				w.Fail("C03", "udp-open-unknown-remote", "", "open notification for an unknown remote %q", key)
				return
			}
			if old := byConn[nc]; old != nil {
				w.Fail("C03", "udp-session-opened-twice", "", "the same connection object got a second open notification (remote %s; it had %d close notifications)", key, old.closes)
				return
			}
			s := &udpSession{conn: nc, opens: 1, openAt: simrt.Seq()}
			if n := len(r.sessions); n > 0 && r.sessions[n-1].closes == 0 {
				// (a closing session leaves the table before its close notification is delivered;
				// a datagram in that window starts the next session early. Two connection objects,
				// each with its own open-before-close: counted, not judged.)
				w.O.Probe("udp_next_session_before_previous_close_notification")
			}
			r.sessions = append(r.sessions, s)
			byConn[nc] = s
			if err := r.closeInOpen; err != nil {
				r.closeInOpen = nil
				nc.CloseWithError(err)
			}
		})
		w.G.OnData(func(nc *nbio.Conn, data []byte) {
			ra := nc.RemoteAddr()
			if simrt.Tracing() {
				simrt.Logf("udp OnData %v conn=%p %q", ra, nc, data)
			}
			s := byConn[nc]
			if s == nil {
				w.Fail("C03", "udp-data-before-open", "", "a datagram was delivered on a connection that never got an open notification (remote %v)", ra)
				return
			}
			if s.closes > 0 {
				// (nbio takes a closed session out of its table only after it has queued the close
				// notification; a datagram that arrives in between still goes to the old session.
				// The statements do not rule that out; it is counted.)
				w.O.Probe("udp_datagram_delivered_on_closed_session")
				return
			}
			s.data++
		})
		w.G.OnClose(func(nc *nbio.Conn, err error) {
			// (calls into the transformed code are scheduling points: never make one depend on
			// whether a trace is kept)
			ra := nc.RemoteAddr()
			if simrt.Tracing() {
				simrt.Logf("udp OnClose %v conn=%p err=%v", ra, nc, err)
			}
			s := byConn[nc]
			if s == nil {
				if ra != nil { // (the listener itself has no remote address)
					w.Fail("C03", "close-without-open", "udp", "close notification for a UDP session that never got an open notification (remote %v)", ra)
				}
				return
			}
			s.closes++
			if s.closes > 1 {
				w.Fail("C03", "close-twice", "udp", "UDP session of %v got %d close notifications", ra, s.closes)
			}
			s.err = err
		})
		if err := w.Start(); err != nil {
			o.Infra = "engine start: " + err.Error()
			return
		}
		defer w.StopAll()
		done := 0
		for i, rounds := range c.Remotes {
			i, rounds := i, rounds
			r := &remote{sock: w.K.NewPeer(kernel.UDP)}
			w.K.BindDgram(r.sock, &kernel.Addr{Net: "udp", IP: [4]byte{127, 0, 0, 1}, Port: 31000 + i})
			remotes[i] = r
			byAddr[r.sock.Local.String()] = r
			simrt.GoNamed(fmt.Sprintf("udp-remote%d", i), func() {
				defer func() { done++ }()
				for j, rd := range rounds {
					class := fmt.Sprintf("%s/%s", c.Eng.Mode, rd.End)
					if j > 0 {
						// let the previous round's close finish completely (see OnData above): wait
						// until nothing else is runnable (a sleep would not do, the clock may jump)
						simrt.Idle()
					}
					if rd.End == "openclose" {
						r.closeInOpen = fmt.Errorf("closed in open %d.%d", i, j)
						want0 := r.closeInOpen
						w.K.PeerSendTo(r.sock, []byte{byte('a' + j)}, w.KAddr)
						if !simrt.WaitStuck("udp-openclose", 3*time.Second, func() bool { return len(r.sessions) > j && r.sessions[j].closes > 0 }) {
							if len(r.sessions) <= j {
								w.Fail("C03", "udp-session-not-opened", class, "remote %d, round %d: a datagram was sent after the previous session had its close notification, but no new session was opened", i, j)
							} else {
								w.Fail("C03", "udp-close-notification-missing", class, "remote %d, round %d: the session was ended with CloseWithError inside its open notification but got no close notification; blocked: %v", i, j, simrt.Alive())
							}
							return
						}
						if s := r.sessions[j]; !errors.Is(s.err, want0) && !(c.Eng.UDPTimeoutS > 0 && errors.Is(s.err, nbio.ErrReadTimeout)) {
							w.Fail("C03", "close-error-not-first-cause", "udp/openclose", "remote %d, round %d: the session was ended inside its open notification with %v but its close notification reports %v", i, j, want0, s.err)
							return
						}
						continue
					}
					wantData := rd.Datagrams
					for k := 0; k < rd.Datagrams; k++ {
						if k == 0 && rd.Empty {
							wantData-- // (delivery of an empty datagram to the data callback is not judged here)
							w.K.PeerSendTo(r.sock, []byte{}, w.KAddr)
							continue
						}
						w.K.PeerSendTo(r.sock, []byte{byte('a' + j)}, w.KAddr)
					}
					// the round's session
					// (all of them: a datagram of this round that arrives after the session was ended
					// would, rightly, start the next session, or be delivered while the close is
					// under way - neither is this check's subject)
					if !simrt.WaitStuck("udp-session", 50*time.Millisecond, func() bool { return len(r.sessions) > j && r.sessions[j].data >= wantData }) {
						if len(r.sessions) <= j {
							w.Fail("C03", "udp-session-not-opened", class, "remote %d, round %d: %d datagrams were sent after the previous session had its close notification, but no new session was opened (sessions so far: %d)", i, j, rd.Datagrams, len(r.sessions))
						}
						return
					}
					s := r.sessions[j]
					if rd.DelayUs > 0 {
						simrt.Sleep(time.Duration(rd.DelayUs) * time.Microsecond)
					}
					var want error
					any := false
					if rd.Race > 0 {
						simrt.GoNamed("udp-racer", func() {
							for k := 0; k < rd.Race; k++ {
								w.K.PeerSendTo(r.sock, []byte{'z'}, w.KAddr)
							}
						})
					}
					switch rd.End {
					case "none":
						return
					case "close", "closeerr":
						if rd.End == "closeerr" {
							want = fmt.Errorf("app error %d.%d", i, j)
						}
						pending := rd.Closers
						for q := 0; q < rd.Closers; q++ {
							simrt.GoNamed("udp-closer", func() {
								defer func() { pending-- }()
								if want != nil {
									s.conn.CloseWithError(want)
								} else {
									s.conn.Close()
								}
							})
						}
						simrt.WaitStuck("udp-closers", time.Second, func() bool { return pending == 0 })
					case "rdeadline":
						want = nbio.ErrReadTimeout
						s.conn.SetReadDeadline(time.Now().Add(200 * time.Microsecond))
					case "udptimeout":
						any = true // the engine's own timeout: whatever error it documents
					}
					if !simrt.WaitStuck("udp-close-notification", 3*time.Second, func() bool { return s.closes > 0 }) {
						w.Fail("C03", "udp-close-notification-missing", class, "remote %d, round %d: the session was ended (%s) but got no close notification", i, j, rd.End)
						return
					}
					if c.Eng.UDPTimeoutS > 0 && errors.Is(s.err, nbio.ErrReadTimeout) {
						// the engine's UDP read timeout is armed for every session and may always
						// be the first cause (the simulated clock jumps to pending timers)
						any = true
					}
					if !any && !(s.err == want || (want != nil && errors.Is(s.err, want))) {
						w.Fail("C03", "close-error-not-first-cause", "udp/"+rd.End, "remote %d, round %d: the session was ended by %s (error %v) but its close notification reports %v", i, j, rd.End, want, s.err)
						return
					}
				}
			})
		}
		// (every wait inside a remote is bounded, so the remotes always finish; waiting with a horizon
		// here let the root go on - and, since the audit below, stop the engine - while a remote was
		// merely idling between two rounds: a false alarm of this harness, seen with seed 8)
		simrt.WaitUntil("remotes-done", func() bool { return done >= len(c.Remotes) })
		w.EnterFair()
		simrt.Quiesce(100 * time.Millisecond)
		// ... whatever ends it: engine Stop. Every session that is still open now (last rounds
		// without an end, sessions started by a racing datagram) is ended by Stop, which delivers
		// the close notifications before it returns.
		stopped := false
		simrt.GoNamed("stopper", func() {
			w.StopAll()
			stopped = true
		})
		simrt.WaitStuck("engine-stop", 5*time.Second, func() bool { return stopped })
		simrt.Quiesce(100 * time.Millisecond) // (C03 says "gets", not "has got when Stop returns": that is C18's clause)
		for i, r := range remotes {
			for j, s := range r.sessions {
				if s.closes > 1 {
					w.Fail("C03", "close-twice", "udp", "remote %d session %d: %d close notifications", i, j, s.closes)
				}
				if s.closes == 0 {
					how := "Stop has returned"
					if !stopped {
						how = "Stop does not return"
					}
					w.Fail("C03", "udp-close-notification-missing", c.Eng.Mode+"/stop", "remote %d, session %d of %d: opened, never closed by anything else, and no close notification although the engine was stopped (%s)", i, j, len(r.sessions), how)
				}
			}
		}
		o.NonTrivial = false
		for _, rounds := range c.Remotes {
			if len(rounds) > 1 {
				o.NonTrivial = true
			}
		}
	})
	Finish(o, res, w)
	w.Livelock(res)
	if res.Deadlock && o.V == nil && o.Infra == "" {
		o.Infra = fmt.Sprintf("run ended without finishing: %v", res.Blocked)
	}
	return o
}
