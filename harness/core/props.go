package core

import (
	"testing"

	"verif/harness/common"
	simrt "verif/sim/rt"
)

func outProp(id string) *common.Prop {
	return &common.Prop{
		ID:  id,
		New: func() interface{} { return &OutCase{} },
		Gen: func(r *simrt.Rand, tier string, idx int) interface{} { return genOutCase(r, tier, id) },
		Run: func(t *testing.T, c interface{}, trace bool) *common.Outcome { return runOut(t, c, trace, id) },
		Shrink: shrinkOut,
		Sweep:  func(tier string) []interface{} { return sweepOut(id, tier) },
	}
}

// Props is the table of the properties checked in this world.
var Props = []*common.Prop{outProp("C01"), outProp("C04"), outProp("C17"),
	{ID: "C05", New: func() interface{} { return &JobCase{} },
		Gen:    func(r *simrt.Rand, tier string, idx int) interface{} { return genJobCase(r, tier) },
		Run:    func(t *testing.T, c interface{}, trace bool) *common.Outcome { return runJobs(t, c, trace) },
		Shrink: shrinkJobs},
	{ID: "C16", New: func() interface{} { return &DeadCase{} },
		Gen:    func(r *simrt.Rand, tier string, idx int) interface{} { return genDeadCase(r, tier) },
		Run:    func(t *testing.T, c interface{}, trace bool) *common.Outcome { return runDead(t, c, trace) },
		Shrink: shrinkDead},
	{ID: "C18", New: func() interface{} { return &StopCase{} },
		Gen:    func(r *simrt.Rand, tier string, idx int) interface{} { return genStopCase(r, tier) },
		Run:    func(t *testing.T, c interface{}, trace bool) *common.Outcome { return runStop(t, c, trace) },
		Shrink: shrinkStop},
	common.Combine("C03",
		common.Part{Name: "lifecycle", Weight: 7, P: &common.Prop{ID: "C03", New: func() interface{} { return &LifeCase{} },
			Gen:    func(r *simrt.Rand, tier string, idx int) interface{} { return genLifeCase(r, tier) },
			Run:    func(t *testing.T, c interface{}, trace bool) *common.Outcome { return runLife(t, c, trace) },
			Shrink: shrinkLife}},
		common.Part{Name: "udpsessions", Weight: 1, P: &common.Prop{ID: "C03", New: func() interface{} { return &UDPLifeCase{} },
			Gen:    func(r *simrt.Rand, tier string, idx int) interface{} { return genUDPLifeCase(r, tier) },
			Run:    runUDPLife,
			Shrink: shrinkUDPLife}},
		// Stop racing accepts, dials (pending, refused, completed at once) and closes, judged for the
		// lifecycle clauses instead of for termination
		common.Part{Name: "stoprace", Weight: 1, P: &common.Prop{ID: "C03", New: func() interface{} { return &StopCase{} },
			Gen:    func(r *simrt.Rand, tier string, idx int) interface{} { return genStopCase(r, tier) },
			Run:    func(t *testing.T, c interface{}, trace bool) *common.Outcome { return runStopAs(t, c, trace, "C03") },
			Shrink: shrinkStop}}),
	common.Combine("C02",
		common.Part{Name: "inbound", Weight: 7, P: inProp()},
		// "when no input is pending the readers go idle": the outbound scenarios (accepted, added and
		// dialed connections that write, with backlogs and without) judged for a poller or reader
		// that keeps running in the fair phase although nothing moves
		common.Part{Name: "idle", Weight: 1, P: idleProp()}),
}

func idleProp() *common.Prop {
	p := outProp("C02")
	p.Sweep = nil
	return p
}

// InboundProp is the inbound scenario family by itself (the e2e world's C11 runs use it).
func InboundProp() *common.Prop { return inProp() }

func inProp() *common.Prop {
	return &common.Prop{ID: "C02", New: func() interface{} { return &InCase{} },
		Gen:    func(r *simrt.Rand, tier string, idx int) interface{} { return genInCase(r, tier) },
		Run:    func(t *testing.T, c interface{}, trace bool) *common.Outcome { return runIn(t, c, trace) },
		Shrink: shrinkIn,
		Exclude: func(ci interface{}, open map[string]bool) bool {
			c := ci.(*InCase)
			for _, cn := range c.Conns {
				if cn.End != "fin" && cn.End != "close" {
					continue
				}
				if open["S22a"] && c.Eng.Mode == "LT" {
					return true
				}
				if open["S22b"] && c.Eng.Async && c.Eng.Mode != "LT" {
					return true
				}
			}
			return false
		}}
}


// Prop returns the check of one property (other worlds combine it with their own scenarios).
func Prop(id string) *common.Prop {
	for _, p := range Props {
		if p.ID == id {
			return p
		}
	}
	panic("core: no property " + id)
}
