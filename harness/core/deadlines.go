package core

// Deadline scenario (C16, core part): one application goroutine performs a timed history of
// Set*Deadline / Write / Close calls on a connection while the scheduler moves the simulated
// clock (also while the goroutine is parked). A reference model of the documented semantics
// judges every timeout close (never early, right kind, not stale) and, at quiescence, every
// deadline that should have fired.

import (
	"fmt"
	"testing"
	"time"

	"github.com/lesismal/nbio"

	"verif/harness/common"
	"verif/sim/kernel"
	simrt "verif/sim/rt"
)

// DOp is one step of the history.
type DOp struct {
	Op string `json:"op"`           // r | w | rw (set deadline) | cr | cw | crw (clear) | write | writebig | sleep | close | caf (CloseAfterFlush) | peerread
	Us int    `json:"us,omitempty"` // deadline distance / sleep duration in microseconds
}

// DeadCase is a case of the deadline scenario.
type DeadCase struct {
	Sched common.Sched  `json:"sched"`
	K     kernel.Params `json:"kernel"`
	Eng   EngCfg        `json:"eng"`
	Ops   []DOp         `json:"ops"`
	DialTimeoutMs int   `json:"dial_timeout_ms,omitempty"` // > 0: the connection is made with DialAsyncTimeout instead of being accepted
	InCallbackUs  int   `json:"in_callback_us,omitempty"`  // > 0 (dialed): a write deadline of this length is set inside the dial callback
}

func genDeadCase(r *simrt.Rand, tier string) *DeadCase {
	c := genDeadCase0(r, tier)
	if r.Bool(0.15) {
		c.DialTimeoutMs = r.Pick(1, 50, 1000)
		if r.Bool(0.5) {
			c.InCallbackUs = r.Pick(100, 5000, 100000)
		}
	}
	return c
}

func genDeadCase0(r *simrt.Rand, tier string) *DeadCase {
	c := &DeadCase{Sched: common.GenSched(r, 80000)}
	c.Sched.TimeJump = r.PickF(0, 0.005, 0.02, 0.05)
	c.Eng = genEng(r)
	c.Eng.Network = "tcp"
	c.K = kernel.DefaultParams()
	c.K.SndCap = r.Pick(64, 1024)
	n := r.Range(2, 8)
	if tier == "thorough" {
		n = r.Range(2, 14)
	}
	kinds := []string{"r", "w", "rw", "r", "w", "cr", "cw", "crw", "write", "writebig", "sleep", "sleep", "peerread", "close"}
	if r.Bool(0.2) {
		kinds = append(kinds, "caf", "caf", "writebig")
	}
	for i := 0; i < n; i++ {
		op := DOp{Op: kinds[r.Intn(len(kinds))]}
		switch op.Op {
		case "r", "w", "rw":
			op.Us = r.Pick(1, 100, 1000, 1000, 5000, 100000)
		case "sleep":
			op.Us = r.Pick(1, 99, 100, 101, 999, 1000, 1001, 5000, 50000)
		}
		if op.Op == "close" && i < n-1 && r.Bool(0.7) {
			op.Op = "sleep"
			op.Us = 1000
		}
		c.Ops = append(c.Ops, op)
	}
	return c
}

func shrinkDead(ci interface{}) []interface{} {
	c := ci.(*DeadCase)
	cp := func() *DeadCase { x := *c; x.Ops = append([]DOp(nil), c.Ops...); return &x }
	var out []interface{}
	for i := range c.Ops {
		if len(c.Ops) > 1 {
			x := cp()
			x.Ops = append(x.Ops[:i], x.Ops[i+1:]...)
			out = append(out, x)
		}
	}
	if c.Eng.Mode != "LT" || c.Eng.Async || c.Eng.NPoller != 1 {
		x := cp()
		x.Eng.Mode, x.Eng.Async, x.Eng.IOExec, x.Eng.NPoller = "LT", false, "", 1
		out = append(out, x)
	}
	for _, s := range common.ShrinkScheds(c.Sched) {
		x := cp()
		x.Sched = s
		out = append(out, x)
	}
	return out
}

// dlEntry is one deadline of the reference model.
type dlEntry struct {
	kind       byte // 'r' or 'w'
	at         time.Time
	setAt      time.Time // when the setting call returned
	superseded bool
	supAt      time.Time // when the superseding call (renew / clear / emptying write / close) returned
}

func runDead(t *testing.T, ci interface{}, trace bool) *common.Outcome {
	c := ci.(*DeadCase)
	o := &common.Outcome{}
	var w *World
	res := simrt.Run(t, c.Sched.Config(trace), func() {
		defer simrt.Finish()
		w = NewWorld(t, o, "C16", c.Eng, c.K, c.Sched)
		if err := w.Start(); err != nil {
			o.Infra = "engine start: " + err.Error()
			return
		}
		defer w.StopAll()
		var cs *ConnState
		var preSet *dlEntry
		if c.DialTimeoutMs > 0 {
			// a connection made by an asynchronous dial with a timeout: the dial timer must be
			// gone once the connection is established, or it shadows the deadlines set later
			addr := "127.0.0.1:7600"
			ln, err := w.K.Listen(&kernel.Addr{Net: "tcp", IP: [4]byte{127, 0, 0, 1}, Port: 7600})
			if err != nil {
				o.Infra = "peer listen: " + err.Error()
				return
			}
			cs = w.Expect(addr, nil)
			cs.Dialed = true
			dialed := false
			err = w.G.DialAsyncTimeout("tcp", addr, time.Duration(c.DialTimeoutMs)*time.Millisecond, func(nc *nbio.Conn, err error) {
				cs.DialCB++
				cs.DialErr = err
				if err == nil && nc != nil {
					if c.InCallbackUs > 0 {
						// what an application does to bound its first write: it must survive the
						// end of the dial (whose own timer lives in the same slot)
						now := time.Now()
						preSet = &dlEntry{kind: 'w', at: now.Add(time.Duration(c.InCallbackUs) * time.Microsecond), setAt: now}
						nc.SetWriteDeadline(preSet.at)
						preSet.setAt = time.Now()
					}
					cs.C = nc
					w.byC[nc] = cs
					if ks := w.K.SockOf(ProbeFD(nc)); ks != nil && ks.Peer() != nil {
						cs.Peer, cs.Local = ks.Peer(), ks
					}
				}
				dialed = true
			})
			if err != nil {
				o.Infra = "dial: " + err.Error()
				return
			}
			simrt.WaitStuck("peer-accept", time.Second, func() bool { return ln.AcceptReady() })
			ln.Accept()
			simrt.WaitStuck("dialed", time.Second, func() bool { return dialed })
			if cs.C == nil || cs.Peer == nil {
				o.Probe("dial_did_not_succeed")
				return
			}
		} else {
			var err error
			cs, err = w.ConnectPeer()
			if err != nil {
				o.Infra = err.Error()
				return
			}
			simrt.WaitStuck("open", time.Second, func() bool { return cs.OpenDone })
			if cs.C == nil {
				o.Infra = "connection never opened"
				return
			}
		}
		nc := cs.C
		var hist []*dlEntry
		if preSet != nil {
			hist = append(hist, preSet)
		}
		var closeAt time.Time
		var closeErr error
		closedSeen := false
		appClosed := false
		otherCause := false
		nearMiss := false
		cs.OnCloseHook = func(cs *ConnState, err error) {
			closedSeen = true
			closeAt = time.Now()
			closeErr = err
		}
		supersede := func(kind byte, now time.Time) {
			for _, e := range hist {
				if e.kind == kind && !e.superseded {
					e.superseded = true
					e.supAt = now
				}
			}
		}
		set := func(kind byte, d time.Duration) {
			now := time.Now()
			at := now.Add(d)
			switch kind {
			case 'r':
				nc.SetReadDeadline(at)
			case 'w':
				nc.SetWriteDeadline(at)
			}
			// "renewed before expiry" = the renewing call returned before the deadline:
			// the previous deadline stops counting when the call has returned
			supersede(kind, time.Now())
			hist = append(hist, &dlEntry{kind: kind, at: at, setAt: time.Now()})
		}
		for _, op := range c.Ops {
			if closedSeen {
				break
			}
			if cl, _ := nc.IsClosed(); cl {
				break
			}
			d := time.Duration(op.Us) * time.Microsecond
			switch op.Op {
			case "r":
				set('r', d)
			case "w":
				set('w', d)
			case "rw":
				now := time.Now()
				at := now.Add(d)
				nc.SetDeadline(at)
				supersede('r', time.Now())
				supersede('w', time.Now())
				hist = append(hist, &dlEntry{kind: 'r', at: at, setAt: time.Now()}, &dlEntry{kind: 'w', at: at, setAt: time.Now()})
			case "cr":
				nc.SetReadDeadline(time.Time{})
				supersede('r', time.Now())
			case "cw":
				nc.SetWriteDeadline(time.Time{})
				supersede('w', time.Now())
			case "crw":
				nc.SetDeadline(time.Time{})
				supersede('r', time.Now())
				supersede('w', time.Now())
			case "write", "writebig":
				n := 8
				if op.Op == "writebig" {
					n = c.K.SndCap + 100
				}
				// A write that leaves the backlog empty clears the write deadline. Whether it did
				// is decided by what the call itself did under the connection mutex: it wrote to
				// the socket (so nothing was queued before it) and the kernel took every byte.
				// Looking at the queue after the call returned would also see what the poller
				// flushed in between, which clears nothing.
				me, ownCalls, ownTaken := simrt.CurID(), 0, 0
				w.K.OnWrote = func(fd, asked, taken int) {
					if simrt.CurID() == me {
						ownCalls++
						if taken > 0 {
							ownTaken += taken
						}
					}
				}
				wn, err := nc.Write(make([]byte, n))
				w.K.OnWrote = nil
				now := time.Now()
				if err != nil {
					otherCause = true
				} else {
					cs.BufBytes += int64(wn)
					if ownCalls > 0 && ownTaken == n {
						supersede('w', now)
					}
				}
			case "sleep":
				simrt.Sleep(d)
			case "peerread":
				w.PeerDrain(cs, 1<<20)
			case "close":
				appClosed = true
				nc.Close()
				supersede('r', time.Now())
				supersede('w', time.Now())
			case "caf":
				// CloseAfterFlush: closes now when nothing is queued (like Close), otherwise when
				// the backlog has been written - until then the connection is open and its deadlines
				// stay in force (a peer that stops reading is still cut off by them)
				nc.CloseAfterFlush()
				otherCause = true
				if cl, _ := nc.IsClosed(); cl {
					appClosed = true
					supersede('r', time.Now())
					supersede('w', time.Now())
				} else {
					o.Probe("close_after_flush_deferred")
				}
			}
			// a deadline within one step of expiring when it is renewed or cleared
			for _, e := range hist {
				if e.superseded {
					if dd := e.at.Sub(e.supAt); dd >= -2*time.Microsecond && dd <= 2*time.Microsecond {
						nearMiss = true
					}
				}
			}
		}
		// let every pending deadline pass
		simrt.SetFair(true)
		w.K.Fair = true
		simrt.Quiesce(time.Second)
		now := time.Now()
		fired := 0
		// ---- judge the close ------------------------------------------------------------
		if closedSeen && (closeErr == nbio.ErrReadTimeout || closeErr == nbio.ErrWriteTimeout) {
			fired++
			kind := byte('r')
			if closeErr == nbio.ErrWriteTimeout {
				kind = 'w'
			}
			justified := false
			early := false
			for _, e := range hist {
				if e.kind != kind {
					continue
				}
				if e.at.After(closeAt) {
					if !e.superseded || !e.supAt.Before(e.setAt) {
						early = early || true
					}
					continue
				}
				// expired at or before the close: it justifies the close unless it had been
				// superseded strictly before it expired
				if !e.superseded || !e.supAt.Before(e.at) {
					justified = true
				}
			}
			if !justified {
				cls := "stale"
				if early {
					cls = "early"
				}
				w.Fail("C16", "timeout-close-unjustified", cls+"/"+string(kind), "connection closed with %v at +%v but no %c-deadline that was still in force had expired by then (%s); history: %s", closeErr, closeAt.Sub(w.start), kind, cls, histString(hist, w.start))
			}
		}
		if closedSeen && !appClosed && !otherCause && closeErr != nbio.ErrReadTimeout && closeErr != nbio.ErrWriteTimeout {
			o.Probe("closed_by_other_cause")
		}
		// ---- liveness: a deadline in force that has passed must have closed the connection --
		if !closedSeen && !appClosed {
			for _, e := range hist {
				if !e.superseded && e.at.Before(now) {
					w.Fail("C16", "deadline-not-enforced", string(e.kind), "a %c-deadline at +%v was neither renewed nor cleared, the clock is at +%v and the connection is still open; history: %s", e.kind, e.at.Sub(w.start), now.Sub(w.start), histString(hist, w.start))
					break
				}
			}
		}
		o.NonTrivial = fired > 0 || nearMiss
		if nearMiss {
			o.Probe("renewed_or_cleared_within_2us_of_expiry")
		}
		o.ProbeN("timeout_closes", fired)
	})
	Finish(o, res, w)
	w.Livelock(res)
	if res.Deadlock && o.V == nil && o.Infra == "" {
		o.Infra = fmt.Sprintf("run ended without finishing: %v", res.Blocked)
	}
	return o
}

func histString(h []*dlEntry, start time.Time) string {
	s := ""
	for _, e := range h {
		s += fmt.Sprintf("[%c at +%v set +%v", e.kind, e.at.Sub(start), e.setAt.Sub(start))
		if e.superseded {
			s += fmt.Sprintf(" superseded +%v", e.supAt.Sub(start))
		}
		s += "] "
	}
	return s
}
