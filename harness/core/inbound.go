package core

// Inbound scenario (C02): peers send bursts, pause, half-close, close or reset; the engine
// runs in every configuration of the matrix; optional echo and a concurrent application
// writer make the read path interact with interest re-arming. UDP: several remote
// addresses send datagrams to one listener.

import (
	"bytes"
	"fmt"
	"testing"
	"time"

	"github.com/lesismal/nbio"

	"verif/harness/common"
	"verif/sim/kernel"
	simrt "verif/sim/rt"
)

// InConn is the plan of one connection (or one UDP remote).
type InConn struct {
	Sends  []int  `json:"sends"`            // >0: burst of that many bytes; <0: pause of -n microseconds
	End    string `json:"end,omitempty"`    // "" stays open | fin | close | rst
	Echo   bool   `json:"echo,omitempty"`   // the data callback writes the data back
	Writer []int  `json:"writer,omitempty"` // sizes written by a concurrent application goroutine
}

// InCase is a case of the inbound scenario.
type InCase struct {
	Sched common.Sched  `json:"sched"`
	K     kernel.Params `json:"kernel"`
	Eng   EngCfg        `json:"eng"`
	Conns []InConn      `json:"conns"`
	// Early: Engine.Start runs in a goroutine of its own and the peers connect / send as soon as the
	// listener exists, i.e. possibly while Start has not finished setting the engine up
	Early bool `json:"early,omitempty"`
}

// startEngine starts the engine, in the foreground or (Early) in a goroutine so that traffic can
// arrive while Start is still running. wait blocks until Start has returned and reports its error.
func startEngine(c *InCase, w *World, ready func() bool) (wait func() error) {
	if !c.Early {
		err := w.Start()
		return func() error { return err }
	}
	var err error
	done := false
	simrt.GoNamed("engine-start", func() {
		err = w.Start()
		done = true
	})
	simrt.WaitUntil("listener-exists", func() bool { return done || ready() })
	return func() error {
		simrt.WaitUntil("engine-started", func() bool { return done })
		return err
	}
}

func (c *InCase) copy() *InCase {
	x := *c
	x.Conns = nil
	for _, cn := range c.Conns {
		cn.Sends = append([]int(nil), cn.Sends...)
		cn.Writer = append([]int(nil), cn.Writer...)
		x.Conns = append(x.Conns, cn)
	}
	return &x
}

func genInCase(r *simrt.Rand, tier string) *InCase {
	c := &InCase{Sched: common.GenSched(r, 200000)}
	c.Eng = genEng(r)
	if r.Bool(0.2) {
		c.Eng.Network = "udp"
	}
	c.K = genKernel(r, true)
	if c.K.SndCap < 16 {
		c.K.SndCap = 16
	}
	rb := c.Eng.ReadBuf
	nconn := r.Range(1, 3)
	if c.Eng.Network == "udp" {
		nconn = r.Range(1, 4)
		if c.Eng.ReadBuf < 8 {
			c.Eng.ReadBuf = 64
			rb = 64
		}
	}
	for i := 0; i < nconn; i++ {
		var cn InConn
		ns := r.Range(1, 6)
		if tier == "thorough" {
			ns = r.Range(1, 12)
		}
		for j := 0; j < ns; j++ {
			if c.Eng.Network == "udp" {
				// (0: an empty datagram; whether that is handed to the data callback is left
				// open, but it must not keep the datagrams queued behind it from being delivered)
				cn.Sends = append(cn.Sends, r.Pick(1, 8, rb/2+1, rb-1, rb, 0))
				continue
			}
			if r.Bool(0.2) {
				cn.Sends = append(cn.Sends, -r.Pick(1, 10, 1000))
				continue
			}
			n := r.Pick(1, rb-1, rb, rb+1, 2*rb, 3*rb+1, r.Intn(3*rb+2))
			if n <= 0 {
				n = 1
			}
			if n > 20000 {
				n = 20000
			}
			if rb <= 2 && n > 300 {
				n = 300
			}
			cn.Sends = append(cn.Sends, n)
		}
		if c.Eng.Network != "udp" {
			cn.End = []string{"", "", "fin", "close", "rst"}[r.Intn(5)]
			cn.Echo = r.Bool(0.3)
			if r.Bool(0.3) {
				for k := 0; k < r.Range(1, 3); k++ {
					cn.Writer = append(cn.Writer, r.Pick(1, 10, c.K.SndCap, c.K.SndCap*2+1))
				}
			}
		}
		c.Conns = append(c.Conns, cn)
	}
	c.Early = r.Bool(0.12)
	return c
}

func shrinkIn(ci interface{}) []interface{} {
	c := ci.(*InCase)
	var out []interface{}
	for i := range c.Conns {
		if len(c.Conns) > 1 {
			x := c.copy()
			x.Conns = append(x.Conns[:i], x.Conns[i+1:]...)
			out = append(out, x)
		}
	}
	for i, cn := range c.Conns {
		for j := range cn.Sends {
			if len(cn.Sends) > 1 {
				x := c.copy()
				x.Conns[i].Sends = append(x.Conns[i].Sends[:j], x.Conns[i].Sends[j+1:]...)
				out = append(out, x)
			}
		}
		for j, n := range cn.Sends {
			if n > 1 {
				for _, m := range []int{1, n / 2, n - 1} {
					if m < n && m > 0 {
						x := c.copy()
						x.Conns[i].Sends[j] = m
						out = append(out, x)
					}
				}
			}
		}
		if cn.Echo {
			x := c.copy()
			x.Conns[i].Echo = false
			out = append(out, x)
		}
		if len(cn.Writer) > 0 {
			x := c.copy()
			x.Conns[i].Writer = x.Conns[i].Writer[:len(cn.Writer)-1]
			out = append(out, x)
		}
		if cn.End != "" {
			x := c.copy()
			x.Conns[i].End = ""
			out = append(out, x)
		}
	}
	k := c.K
	try := func(f func(p *kernel.Params)) {
		x := c.copy()
		f(&x.K)
		if x.K != k {
			out = append(out, x)
		}
	}
	try(func(p *kernel.Params) { p.ShortWrite = 0 })
	try(func(p *kernel.Params) { p.ShortRead = 0 })
	try(func(p *kernel.Params) { p.EINTRRead = 0 })
	try(func(p *kernel.Params) { p.EINTRWait = 0 })
	try(func(p *kernel.Params) { p.WaitSubset = 0 })
	try(func(p *kernel.Params) { p.InstantNet = true })
	try(func(p *kernel.Params) { p.ExtraEdges = false })
	if c.Eng.NPoller > 1 {
		x := c.copy()
		x.Eng.NPoller = 1
		out = append(out, x)
	}
	if c.Eng.MaxReads != 0 {
		x := c.copy()
		x.Eng.MaxReads = 0
		out = append(out, x)
	}
	for _, s := range common.ShrinkScheds(c.Sched) {
		x := c.copy()
		x.Sched = s
		out = append(out, x)
	}
	return out
}

type udpRemote struct {
	sock  *kernel.Sock
	sent  [][]byte
	got   [][]byte
	conn  *nbio.Conn
	opens int
}

func runIn(t *testing.T, ci interface{}, trace bool) *common.Outcome {
	c := ci.(*InCase)
	o := &common.Outcome{}
	var w *World
	res := simrt.Run(t, c.Sched.Config(trace), func() {
		defer simrt.Finish()
		w = NewWorld(t, o, "C02", c.Eng, c.K, c.Sched)
		if c.Eng.Network == "udp" {
			runUDP(c, w, o)
			return
		}
		started := startEngine(c, w, func() bool { return w.K.Listening(w.KAddr) })
		defer func() {
			started()
			w.StopAll()
		}()
		if !c.Early {
			if err := started(); err != nil {
				o.Infra = "engine start: " + err.Error()
				return
			}
		}
		done := 0
		var css []*ConnState
		readsDuring := 0
		for i, plan := range c.Conns {
			plan := plan
			cs, err := w.ConnectPeer()
			if err != nil {
				o.Infra = "peer connect: " + err.Error()
				return
			}
			css = append(css, cs)
			if plan.Echo {
				cs.OnDataHook = func(cs *ConnState, data []byte) {
					n, err := cs.C.Write(append([]byte(nil), data...))
					if err == nil && n == len(data) {
						cs.Expected = append(cs.Expected, data...)
					}
				}
			}
			simrt.GoNamed(fmt.Sprintf("peer%d", i), func() {
				defer func() { done++ }()
				for _, n := range plan.Sends {
					if n < 0 {
						simrt.Sleep(time.Duration(-n) * time.Microsecond)
						continue
					}
					if cs.Local != nil && cs.Local.Readable() > 0 {
						readsDuring++
					}
					if !w.PeerSend(cs, Payload(cs.ID, 'I', len(cs.Sent), n)) {
						return
					}
				}
				switch plan.End {
				case "fin":
					cs.Peer.ShutdownWrite()
				case "close":
					// orderly close: drain what nbio sent first so that it is a FIN, not a RST
					w.PeerDrain(cs, 1<<20)
					cs.Peer.CloseEnd()
				case "rst":
					cs.Peer.Reset()
				}
			})
			if len(plan.Writer) > 0 {
				done--
				simrt.GoNamed(fmt.Sprintf("appwriter%d", i), func() {
					defer func() { done++ }()
					simrt.WaitUntil("conn-open", func() bool { return cs.OpenDone || cs.Closes > 0 })
					for _, n := range plan.Writer {
						if cs.C == nil || cs.Closes > 0 {
							return
						}
						// content is irrelevant here (C01 checks it); the peer just drains
						cs.C.Write(make([]byte, n))
					}
				})
			}
			// the peer drains whatever nbio writes, so that echo never blocks for ever
			simrt.GoNamed(fmt.Sprintf("peerdrain%d", i), func() {
				simrt.MarkDaemon()
				p := cs.Peer
				for {
					simrt.WaitUntil("drain", func() bool { return p.Readable() > 0 || p.Closed() || p.EOF() })
					if p.Closed() || (p.Readable() == 0 && p.EOF()) {
						return
					}
					p.PeerRead(1 << 16)
				}
			})
		}
		simrt.WaitStuck("peers-done", time.Second, func() bool { return done >= len(c.Conns) })
		if err := started(); err != nil {
			o.Infra = "engine start: " + err.Error()
			return
		}
		w.EnterFair()
		simrt.Quiesce(time.Second)
		multi := 0
		for i, cs := range css {
			plan := c.Conns[i]
			if cs.C == nil {
				if len(cs.Sent) > 0 && plan.End == "" {
					w.Fail("C02", "never-opened", w.class(), "connection %d was established by the peer and never opened by the engine", cs.ID)
				}
				continue
			}
			reset := plan.End == "rst" || cs.Peer.WasReset()
			if len(plan.Writer) > 0 || plan.Echo {
				// the application wrote: a write error can legitimately end the connection early
				if cl, _ := cs.C.IsClosed(); cl && plan.End == "" {
					reset = true
				}
				if plan.End == "close" {
					reset = true // nbio writes to a peer that has gone away: the write error ends the connection
				}
			}
			if !reset && cs.Delivered < len(cs.Sent) && (plan.End == "fin" || plan.End == "close") {
				cls := "sync-read-limit"
				if c.Eng.Async && c.Eng.Mode != "LT" {
					cls = "async"
				}
				w.Fail("C02", "inbound-incomplete-at-peer-close", cls, "connection %d (%s): the peer sent %d bytes and then closed its side in an orderly way; only %d bytes were delivered to the data callback before the connection was closed (closes=%d)", cs.ID, w.class(), len(cs.Sent), cs.Delivered, cs.Closes)
			}
			if !reset && cs.Delivered < len(cs.Sent) {
				w.Fail("C02", "inbound-incomplete", w.class(), "connection %d (%s): the peer sent %d bytes, %d were delivered to the data callback by quiescence (end=%q, closes=%d, %s)", cs.ID, plan.End, len(cs.Sent), cs.Delivered, plan.End, cs.Closes, w.armedDesc(cs))
			}
			if len(cs.Sent) > c.Eng.ReadBuf {
				multi++
			}
			w.SampleState(cs)
		}
		o.NonTrivial = multi > 0 && readsDuring > 0
	})
	Finish(o, res, w)
	w.Livelock(res)
	if res.Deadlock && o.V == nil && o.Infra == "" {
		o.Infra = fmt.Sprintf("run ended without finishing: %v", res.Blocked)
	}
	return o
}

func runUDP(c *InCase, w *World, o *common.Outcome) {
	remotes := make([]*udpRemote, len(c.Conns))
	byConn := map[*nbio.Conn]*udpRemote{}
	byAddr := map[string]*udpRemote{}
	w.G.OnOpen(func(nc *nbio.Conn) {
		key := ""
		if ra := nc.RemoteAddr(); ra != nil {
			key = ra.String()
		}
		r := byAddr[key]
		if r == nil {
			w.Fail("C02", "udp-unknown-remote", "", "open notification for an unknown remote %q", key)
			return
		}
		r.opens++
		if r.opens > 1 {
			w.Fail("C02", "udp-open-twice", "", "remote %s got %d open notifications", key, r.opens)
		}
		if r.conn != nil && r.conn != nc {
			w.Fail("C02", "udp-conn-changed", "", "remote %s is attributed to two different connections", key)
		}
		r.conn = nc
		byConn[nc] = r
	})
	w.G.OnData(func(nc *nbio.Conn, data []byte) {
		key := ""
		if ra := nc.RemoteAddr(); ra != nil {
			key = ra.String()
		}
		r := byAddr[key]
		if r == nil {
			w.Fail("C02", "udp-unknown-remote", "", "datagram attributed to unknown remote %q", key)
			return
		}
		if r.conn == nil {
			w.Fail("C02", "udp-data-before-open", "", "datagram from %s delivered before the open notification of its connection", key)
			r.conn = nc
		} else if r.conn != nc {
			w.Fail("C02", "udp-conn-changed", "", "datagrams of remote %s were attributed to different connections", key)
		}
		if o2 := byConn[nc]; o2 != nil && o2 != r {
			w.Fail("C02", "udp-conn-shared", "", "two remotes share one connection object")
		}
		if len(data) == 0 {
			return // an empty datagram: not compared (see the generator)
		}
		r.got = append(r.got, append([]byte(nil), data...))
	})
	started := startEngine(c, w, func() bool { return w.K.DgramAt(w.KAddr) != nil })
	defer func() {
		started()
		w.StopAll()
	}()
	if !c.Early {
		if err := started(); err != nil {
			o.Infra = "engine start: " + err.Error()
			return
		}
	}
	done := 0
	for i, plan := range c.Conns {
		plan := plan
		r := &udpRemote{sock: w.K.NewPeer(kernel.UDP)}
		w.K.BindDgram(r.sock, &kernel.Addr{Net: "udp", IP: [4]byte{127, 0, 0, 1}, Port: 30000 + i})
		remotes[i] = r
		byAddr[r.sock.Local.String()] = r
		i := i
		simrt.GoNamed(fmt.Sprintf("udp-remote%d", i), func() {
			defer func() { done++ }()
			for j, n := range plan.Sends {
				if n < 0 {
					continue
				}
				if n == 0 {
					if j > 0 { // (a remote's first datagram creates its session: keep that one real)
						w.K.PeerSendTo(r.sock, []byte{}, w.KAddr)
					}
					continue
				}
				b := Payload(100+i, 'U', j*70000, n)
				before := w.udpListener().Enqueued
				w.K.PeerSendTo(r.sock, b, w.KAddr)
				if w.udpListener().Enqueued > before {
					r.sent = append(r.sent, b) // only datagrams the socket queue accepted count
				}
			}
		})
	}
	simrt.WaitStuck("remotes-done", time.Second, func() bool { return done >= len(c.Conns) })
	if err := started(); err != nil {
		o.Infra = "engine start: " + err.Error()
		return
	}
	w.EnterFair()
	simrt.Quiesce(time.Second)
	total := 0
	for i, r := range remotes {
		total += len(r.sent)
		if len(r.got) != len(r.sent) {
			w.Fail("C02", "udp-count", w.class(), "remote %d: %d datagrams were queued at the listener, %d were delivered", i, len(r.sent), len(r.got))
			continue
		}
		for j := range r.sent {
			if !bytes.Equal(r.sent[j], r.got[j]) {
				w.Fail("C02", "udp-payload", w.class(), "remote %d: datagram %d was delivered with a different payload or boundary (sent %d bytes, got %d)", i, j, len(r.sent[j]), len(r.got[j]))
				break
			}
		}
	}
	o.NonTrivial = len(remotes) > 1 && total > 2
}

// udpListener returns the kernel socket of the engine's UDP listener.
func (w *World) udpListener() *kernel.Sock {
	if w.udpLn == nil {
		w.udpLn = w.K.DgramAt(w.KAddr)
	}
	if w.udpLn == nil {
		return &kernel.Sock{}
	}
	return w.udpLn
}
