package core

// Job scenario (C05): several goroutines submit jobs through Conn.Execute / MustExecute
// while the connection is closed at a random point, with every executor kind.

import (
	"fmt"
	"strings"
	"testing"
	"time"

	"verif/harness/common"
	"verif/sim/kernel"
	simrt "verif/sim/rt"
)

// JobSpec is one submitted job.
type JobSpec struct {
	Must     bool `json:"must,omitempty"`     // MustExecute instead of Execute
	Yields   int  `json:"y,omitempty"`        // scheduling points inside the job
	Panic    bool `json:"p,omitempty"`
	Resubmit bool `json:"r,omitempty"` // the job submits another job from inside
}

// JobCase is a case of the job scenario.
type JobCase struct {
	Sched      common.Sched `json:"sched"`
	Exec       string       `json:"exec"` // default | go | pool
	Submitters [][]JobSpec  `json:"submitters"`
	CloseAfter int          `json:"close_after"` // -1: never; k: Close is invoked after k submissions have returned
	// Backlog > 0: before the submitters start, a held-up job is submitted and Backlog more jobs are
	// queued behind it by another goroutine; then it is released and one drain session has to run
	// them all (job lists that grow far beyond what the ordinary cases reach)
	Backlog int `json:"backlog,omitempty"`
}

func genJobCase(r *simrt.Rand, tier string) *JobCase {
	c := &JobCase{Sched: common.GenSched(r, 60000), Exec: []string{"default", "go", "pool"}[r.Intn(3)]}
	ns := r.Range(1, 4)
	total := 0
	for i := 0; i < ns; i++ {
		var js []JobSpec
		for j := 0; j < r.Range(1, 6); j++ {
			js = append(js, JobSpec{Must: r.Bool(0.2), Yields: r.Pick(0, 0, 1, 3), Panic: r.Bool(0.1), Resubmit: r.Bool(0.15)})
			total++
		}
		c.Submitters = append(c.Submitters, js)
	}
	c.CloseAfter = -1
	if r.Bool(0.5) {
		c.CloseAfter = r.Intn(total + 1)
	}
	if r.Bool(0.08) {
		c.Backlog = r.Pick(30, 63, 64, 65, 66, 127, 128, 129, 200, 300, 1000)
	}
	return c
}

func shrinkJobs(ci interface{}) []interface{} {
	c := ci.(*JobCase)
	cp := func() *JobCase {
		x := *c
		x.Submitters = nil
		for _, s := range c.Submitters {
			x.Submitters = append(x.Submitters, append([]JobSpec(nil), s...))
		}
		return &x
	}
	var out []interface{}
	for i := range c.Submitters {
		if len(c.Submitters) > 1 {
			x := cp()
			x.Submitters = append(x.Submitters[:i], x.Submitters[i+1:]...)
			out = append(out, x)
		}
	}
	for i, s := range c.Submitters {
		for j := range s {
			if len(s) > 1 {
				x := cp()
				x.Submitters[i] = append(x.Submitters[i][:j], x.Submitters[i][j+1:]...)
				out = append(out, x)
			}
			if s[j] != (JobSpec{}) {
				x := cp()
				x.Submitters[i][j] = JobSpec{}
				out = append(out, x)
			}
		}
	}
	if c.CloseAfter >= 0 {
		x := cp()
		x.CloseAfter = -1
		out = append(out, x)
	}
	if c.Backlog > 0 {
		x := cp()
		x.Backlog = 0
		out = append(out, x)
		if c.Backlog > 1 {
			x = cp()
			x.Backlog = c.Backlog - 1
			out = append(out, x)
			x = cp()
			x.Backlog = c.Backlog / 2
			out = append(out, x)
		}
	}
	if c.Exec != "default" {
		x := cp()
		x.Exec = "default"
		out = append(out, x)
	}
	for _, s := range common.ShrinkScheds(c.Sched) {
		x := cp()
		x.Sched = s
		out = append(out, x)
	}
	return out
}

type jobRec struct {
	id          string
	must        bool
	invoke, ret int64
	accepted    bool
	returned    bool
	runs        int
	start, end  int64
}

func runJobs(t *testing.T, ci interface{}, trace bool) *common.Outcome {
	c := ci.(*JobCase)
	o := &common.Outcome{}
	var w *World
	res := simrt.Run(t, c.Sched.Config(trace), func() {
		defer simrt.Finish()
		eng := EngCfg{Mode: "LT", NPoller: 1, ReadBuf: 4096, Network: "tcp", Exec: c.Exec}
		w = NewWorld(t, o, "C05", eng, kernel.DefaultParams(), c.Sched)
		if err := w.Start(); err != nil {
			o.Infra = "engine start: " + err.Error()
			return
		}
		defer w.StopAll()
		cs, err := w.ConnectPeer()
		if err != nil {
			o.Infra = err.Error()
			return
		}
		simrt.WaitStuck("open", time.Second, func() bool { return cs.OpenDone })
		if cs.C == nil {
			o.Infra = "connection never opened"
			return
		}
		nc := cs.C
		var recs []*jobRec
		var order []*jobRec
		running := 0
		overlapSeen := false
		returned := 0
		var closeInvoke, closeRet int64
		pending := 0
		var submit func(sub int, name string, sp JobSpec)
		submit = func(sub int, name string, sp JobSpec) {
			r := &jobRec{id: name, must: sp.Must}
			recs = append(recs, r)
			job := func() {
				r.runs++
				r.start = simrt.Seq()
				running++
				if running > 1 {
					overlapSeen = true
					w.Fail("C05", "jobs-overlap", c.Exec, "job %s started while another job of the same connection was still running", r.id)
				}
				order = append(order, r)
				for y := 0; y < sp.Yields; y++ {
					simrt.Yield()
				}
				if sp.Resubmit {
					submit(sub, name+"+", JobSpec{Yields: 1})
				}
				running--
				r.end = simrt.Seq()
				if sp.Panic {
					panic("job panic (injected)")
				}
			}
			r.invoke = simrt.Seq()
			if sp.Must {
				nc.MustExecute(job)
				r.accepted = true
			} else {
				r.accepted = nc.Execute(job)
			}
			r.ret = simrt.Seq()
			r.returned = true
		}
		if c.Backlog > 0 {
			released, gateRunning, queued := false, false, 0
			pending++
			simrt.GoNamed("gate", func() {
				defer func() { pending-- }()
				r := &jobRec{id: "gate", must: true}
				recs = append(recs, r)
				r.invoke = simrt.Seq()
				nc.MustExecute(func() {
					r.runs++
					r.start = simrt.Seq()
					running++
					order = append(order, r)
					gateRunning = true
					simrt.WaitUntil("gate-release", func() bool { return released })
					running--
					r.end = simrt.Seq()
				})
				r.accepted, r.returned, r.ret = true, true, simrt.Seq()
			})
			simrt.WaitUntil("gate-running", func() bool { return gateRunning })
			for k := 0; k < c.Backlog; k++ {
				submit(99, fmt.Sprintf("b%d", k), JobSpec{Must: k%7 == 3})
				queued++
			}
			released = true
		}
		for si, specs := range c.Submitters {
			si, specs := si, specs
			pending++
			simrt.GoNamed(fmt.Sprintf("submitter%d", si), func() {
				defer func() { pending-- }()
				for j, sp := range specs {
					submit(si, fmt.Sprintf("s%d.%d", si, j), sp)
					returned++
				}
			})
		}
		if c.CloseAfter >= 0 {
			pending++
			simrt.GoNamed("closer", func() {
				defer func() { pending-- }()
				simrt.WaitUntil("close-point", func() bool { return returned >= c.CloseAfter })
				closeInvoke = simrt.Seq()
				nc.Close()
				closeRet = simrt.Seq()
			})
		}
		if !simrt.WaitStuck("submitters", time.Second, func() bool { return pending == 0 }) {
			w.Fail("C05", "submit-stuck", c.Exec, "a submitter never returned from Execute/MustExecute: %v", simrt.Alive())
			return
		}
		simrt.SetFair(true)
		simrt.Quiesce(time.Second)
		raced := false
		for _, r := range recs {
			if r.runs > 1 {
				w.Fail("C05", "job-ran-twice", c.Exec, "job %s ran %d times", r.id, r.runs)
			}
			if r.accepted && r.runs == 0 {
				kind := "Execute returned true"
				if r.must {
					kind = "MustExecute"
				}
				w.Fail("C05", "job-lost", c.Exec, "job %s (%s) never ran by quiescence; alive: %v", r.id, kind, simrt.Alive())
			}
			if !r.accepted && r.runs > 0 {
				w.Fail("C05", "rejected-job-ran", c.Exec, "Execute returned false for job %s but the job ran", r.id)
			}
			if !r.accepted && (closeInvoke == 0 || closeInvoke > r.ret) {
				w.Fail("C05", "execute-false-on-open-conn", c.Exec, "Execute returned false for job %s although Close had not been invoked (Close invoked at %d, Execute returned at %d)", r.id, closeInvoke, r.ret)
			}
			if !r.must && r.accepted && closeRet != 0 && closeRet < r.invoke {
				w.Fail("C05", "execute-true-on-closed-conn", c.Exec, "Execute was invoked (seq %d) after Close had returned (seq %d) and still accepted job %s", r.invoke, closeRet, r.id)
			}
			if closeInvoke != 0 && r.invoke < closeRet && r.ret > closeInvoke {
				raced = true
			}
		}
		// FIFO by real-time precedence of the submissions
		pos := map[*jobRec]int{}
		for i, r := range order {
			pos[r] = i
		}
		for _, a := range recs {
			for _, b := range recs {
				if a != b && a.accepted && b.accepted && a.runs == 1 && b.runs == 1 && a.ret < b.invoke && pos[a] > pos[b] {
					w.Fail("C05", "jobs-out-of-order", c.Exec, "job %s was submitted (returned at %d) before job %s was submitted (invoked at %d) but ran after it", a.id, a.ret, b.id, b.invoke)
					return
				}
			}
		}
		_ = overlapSeen
		o.NonTrivial = len(c.Submitters) > 1 || raced
		if raced {
			o.Probe("close_raced_submission")
		}
	})
	Finish(o, res, w)
	w.Livelock(res)
	if res.Deadlock && o.V == nil && o.Infra == "" {
		// The world is stuck (typically: Stop waits for the connection, whose mutex is held for
		// ever). When nbio itself logged a recovered Go runtime error before that - an index out of
		// range or a nil dereference in its own job loop, not a panic injected by a job - the job
		// machinery died while it held the lock: every later job, and the close handling, are lost.
		for _, l := range w.LogErrors {
			if strings.Contains(l, "runtime error:") {
				o.Fail("job-runner-died", c.Exec, "nbio recovered an internal runtime error while running the connection's jobs (%.200s) and the world is stuck afterwards: %v", l, res.Blocked)
				return o
			}
		}
		o.Infra = fmt.Sprintf("run ended without finishing: %v", res.Blocked)
	}
	return o
}
