// Package core is the world "core": one nbio.Engine (transformed real code) on the
// simulated kernel, with simulated peers. world.go holds what every core property shares:
// engine configuration, connection registry, the lifecycle monitor (C03), the inbound and
// outbound stream monitors (C02 / C01) and white-box probes read by reflection.
package core

import (
	"errors"
	"fmt"
	"os"
	"reflect"
	"testing"
	"time"

	"github.com/lesismal/nbio"
	"github.com/lesismal/nbio/logging"
	"github.com/lesismal/nbio/mempool"
	"github.com/lesismal/nbio/taskpool"

	"verif/harness/common"
	"verif/sim/kernel"
	simrt "verif/sim/rt"
	ssync "verif/sim/shim/sync"
)

func init() {
	nbio.MaxOpenFiles = kernel.FDLimit
}

// EngCfg is the engine configuration part of a case.
type EngCfg struct {
	Mode     string `json:"mode"`              // LT | ET | ONESHOT
	Async    bool   `json:"async,omitempty"`   // AsyncReadInPoller
	IOExec   string `json:"ioexec,omitempty"`  // default | inline | go | pool
	Exec     string `json:"exec,omitempty"`    // default | go | pool
	NPoller  int    `json:"npoller"`
	ReadBuf  int    `json:"readbuf"`
	MaxReads int    `json:"maxreads,omitempty"`
	MaxWBuf  int    `json:"maxwbuf,omitempty"`
	Network  string `json:"network"` // tcp | unix | udp
	UDPTimeoutS int `json:"udp_timeout_s,omitempty"`
	// MaxFiles > 0: nbio.MaxOpenFiles for this run (descriptors at or above it are refused by the
	// engine: "too many open files"); 0: the simulated kernel's limit, which is never reached
	MaxFiles int `json:"max_files,omitempty"`
}

func genEng(r *simrt.Rand) EngCfg {
	e := EngCfg{Mode: []string{"LT", "ET", "ONESHOT"}[r.Intn(3)], NPoller: r.Pick(1, 1, 2, 3), Network: "tcp"}
	if r.Bool(0.35) {
		e.Network = "unix"
	}
	e.ReadBuf = r.Pick(1, 2, 7, 64, 4096, 65536)
	e.MaxReads = r.Pick(0, 1, 2, 3)
	if e.Mode != "LT" && r.Bool(0.4) {
		e.Async = true
		e.IOExec = []string{"default", "inline", "go", "pool"}[r.Intn(4)]
	}
	return e
}

func genKernel(r *simrt.Rand, faults bool) kernel.Params {
	p := kernel.DefaultParams()
	p.SndCap = r.Pick(1, 3, 16, 100, 1024, 4096, 65536, 262144)
	p.LowatDiv = r.Pick(0, 1, 2, 3, 4)
	p.InstantNet = r.Bool(0.5)
	p.FDReuse = r.Bool(0.6)
	p.ExtraEdges = r.Bool(0.2)
	if faults {
		p.ShortWrite = r.PickF(0, 0.05, 0.3)
		p.ShortRead = r.PickF(0, 0.05, 0.3)
		p.EINTRRead = r.PickF(0, 0, 0.05)
		p.EINTRWait = r.PickF(0, 0, 0.05)
		p.WaitSubset = r.PickF(0, 0.2, 0.5)
	}
	return p
}

// ConnState is everything the oracles know about one connection.
type ConnState struct {
	ID    int
	C     *nbio.Conn
	Peer  *kernel.Sock // harness side endpoint
	Local *kernel.Sock // nbio side endpoint (for ground truth about what the kernel took)
	Key   string

	Opens, Closes     int
	OpenSeq, CloseSeq int64
	OpenDone          bool
	CloseErr          error
	Causes            []cause // close causes in the order they became observable
	InCallback        int

	// outbound (nbio -> peer)
	Expected   []byte // mode A: the accepted stream, in call order
	Recvd      []byte // what the peer has read
	FileBytes  int64  // accepted Sendfile bytes (not "held" by nbio)
	BufBytes   int64  // accepted buffer bytes
	// inbound (peer -> nbio)
	Sent      []byte // what the peer's writes were accepted for by the kernel
	Delivered int    // bytes handed to OnData so far (verified against Sent)

	OnOpenHook  func(cs *ConnState)
	OnDataHook  func(cs *ConnState, data []byte)
	OnCloseHook func(cs *ConnState, err error)
	Dialed      bool
	DialCB      int
	DialErr     error
	Data        interface{}
}

type cause struct {
	What string
	Seq  int64
	Err  error
}

// World is one run's engine, kernel and oracle state.
type World struct {
	T     *testing.T
	O     *common.Outcome
	Prop  string // the property this run is checked for; other properties' oracles are probes
	K     *kernel.Kernel
	G     *nbio.Engine
	Cfg   EngCfg
	Addr  string
	KAddr *kernel.Addr
	Conns []*ConnState
	byKey map[string]*ConnState
	byC   map[*nbio.Conn]*ConnState
	Unknown int
	ioPool  *taskpool.IOTaskPool
	exPool  *taskpool.TaskPool
	Started bool
	Stopped bool
	Stopping bool // Stop / Shutdown has been invoked (set by the scenario that invokes it)
	LogErrors []string
	NewConn func(cs *ConnState) // called when a connection is first seen (before OnOpenHook)
	states  map[uint64]bool
	fairR, fairW, fairWait int
	udpLn *kernel.Sock
	start time.Time
}

type simLogger struct{ w *World }

func (l simLogger) SetLevel(int)                  {}
func (l simLogger) Debug(string, ...interface{}) {}
func (l simLogger) Info(string, ...interface{})  {}
func (l simLogger) Warn(string, ...interface{})  {}
func (l simLogger) Error(f string, a ...interface{}) {
	if len(l.w.LogErrors) < 20 {
		l.w.LogErrors = append(l.w.LogErrors, fmt.Sprintf(f, a...))
	}
}

// ReadBufHooks, when set, makes every engine take its read buffers from mempool.DefaultMemPool through
// the OnReadBufferAlloc / OnReadBufferFree hooks (one buffer per read, returned after the data callback).
var ReadBufHooks bool

// OnWritten, when set, is registered as the engine's OnWrittenSize hook (the e2e world's C11
// runs use it to look at the bytes the hook is given).
var OnWritten func(c *nbio.Conn, b []byte, n int)

// Fail records a violation of property prop; only the run's own property fails the run.
func (w *World) Fail(prop, oracle, class, format string, a ...interface{}) {
	if prop == w.Prop {
		w.O.Fail(oracle, class, format, a...)
		if simrt.Tracing() {
			simrt.Logf("VIOLATION %s/%s: %s", oracle, class, fmt.Sprintf(format, a...))
		}
		simrt.Finish() // the verdict is in: end the run at the next scheduling point
		return
	}
	w.O.Probe("other_property_oracle_fired:" + prop + ":" + oracle + "/" + class + "/" + w.Cfg.Network)
}

// Failed reports whether the run already has its verdict.
func (w *World) Failed() bool { return w.O.V != nil }

// NewWorld builds the engine; call inside the simulated run.
func NewWorld(t *testing.T, o *common.Outcome, prop string, cfg EngCfg, kp kernel.Params, sched common.Sched) *World {
	w := &World{T: t, O: o, Prop: prop, Cfg: cfg, byKey: map[string]*ConnState{}, byC: map[*nbio.Conn]*ConnState{}, states: map[uint64]bool{}}
	ssync.PoolMode = sched.PoolMode
	w.start = time.Now()
	w.K = kernel.Install(kp)
	logging.SetLogger(simLogger{w})
	nbio.MaxOpenFiles = kernel.FDLimit
	if cfg.MaxFiles > 0 {
		nbio.MaxOpenFiles = cfg.MaxFiles
	}
	conf := nbio.Config{Name: "sim", Network: cfg.Network, NPoller: cfg.NPoller, ReadBufferSize: cfg.ReadBuf,
		MaxConnReadTimesPerEventLoop: cfg.MaxReads, MaxWriteBufferSize: cfg.MaxWBuf}
	switch cfg.Network {
	case "unix":
		w.Addr = "/sim/nbio.sock"
		w.KAddr = &kernel.Addr{Net: "unix", Name: w.Addr}
	case "udp":
		w.Addr = "127.0.0.1:7000"
		w.KAddr = &kernel.Addr{Net: "udp", IP: [4]byte{127, 0, 0, 1}, Port: 7000}
	case "none":
		conf.Network = "tcp"
	default:
		w.Addr = "127.0.0.1:7000"
		w.KAddr = &kernel.Addr{Net: "tcp", IP: [4]byte{127, 0, 0, 1}, Port: 7000}
	}
	if w.Addr != "" {
		conf.Addrs = []string{w.Addr}
	}
	if cfg.UDPTimeoutS > 0 {
		conf.UDPReadTimeout = time.Duration(cfg.UDPTimeoutS) * time.Second
	}
	switch cfg.Mode {
	case "ET":
		conf.EpollMod = nbio.EPOLLET
	case "ONESHOT":
		conf.EpollMod = nbio.EPOLLET
		conf.EPOLLONESHOT = nbio.EPOLLONESHOT
	}
	conf.AsyncReadInPoller = cfg.Async
	rb := cfg.ReadBuf
	if rb <= 0 {
		rb = 65536
	}
	switch cfg.IOExec {
	case "inline":
		conf.IOExecute = func(f func(*[]byte)) { b := make([]byte, rb); f(&b) }
	case "go":
		conf.IOExecute = func(f func(*[]byte)) { simrt.Go(func() { b := make([]byte, rb); f(&b) }) }
	case "pool":
		w.ioPool = taskpool.NewIO(3, 2, rb)
		conf.IOExecute = w.ioPool.Go
	}
	g := nbio.NewEngine(conf)
	switch cfg.Exec {
	case "go":
		g.Execute = func(f func()) { simrt.Go(f) }
	case "pool":
		w.exPool = taskpool.New(3, 2)
		g.Execute = w.exPool.Go
	}
	w.G = g
	g.OnOpen(w.onOpen)
	g.OnData(w.onData)
	if OnWritten != nil {
		g.OnWrittenSize(OnWritten)
	}
	if ReadBufHooks {
		// application supplied read buffers (C11 runs: taken from and returned to the tracked pool)
		size := cfg.ReadBuf
		g.OnReadBufferAlloc(func(c *nbio.Conn) *[]byte { return mempool.Malloc(size) })
		g.OnReadBufferFree(func(c *nbio.Conn, pbuf *[]byte) { mempool.Free(pbuf) })
	}
	g.OnClose(w.onClose)
	return w
}

// Start starts the engine.
func (w *World) Start() error {
	err := w.G.Start()
	if err == nil {
		w.Started = true
	}
	return err
}

// StopAll stops engine and helper pools (idempotent).
func (w *World) StopAll() {
	if w.Started && !w.Stopped {
		w.Stopped = true
		w.Stopping = true
		w.G.Stop()
	}
	if w.ioPool != nil {
		w.ioPool.Stop()
		w.ioPool = nil
	}
	if w.exPool != nil {
		w.exPool.Stop()
		w.exPool = nil
	}
}

func addrKey(a interface{ String() string }) string {
	if a == nil || reflect.ValueOf(a).IsNil() {
		return ""
	}
	return a.String()
}

// Expect registers a connection the harness is about to create, keyed by the address the
// nbio side will see as its remote (accepted) or local (dialed) address.
func (w *World) Expect(key string, peer *kernel.Sock) *ConnState {
	cs := &ConnState{ID: len(w.Conns), Peer: peer, Key: key}
	w.Conns = append(w.Conns, cs)
	w.byKey[key] = cs
	return cs
}

func (w *World) lookup(c *nbio.Conn) *ConnState {
	if cs := w.byC[c]; cs != nil {
		return cs
	}
	var cs *ConnState
	if ra := c.RemoteAddr(); ra != nil {
		cs = w.byKey[addrKey(ra)]
	}
	if cs == nil {
		if la := c.LocalAddr(); la != nil {
			cs = w.byKey[addrKey(la)]
		}
	}
	if cs == nil || (cs.C != nil && cs.C != c) {
		w.Unknown++
		cs = &ConnState{ID: len(w.Conns), Key: "?"}
		w.Conns = append(w.Conns, cs)
	}
	cs.C = c
	w.byC[c] = cs
	if cs.Peer != nil && cs.Local == nil {
		cs.Local = cs.Peer.Peer()
	}
	if w.NewConn != nil {
		w.NewConn(cs)
	}
	return cs
}

// ---------------------------------------------------------------------------------------
// lifecycle monitor (C03) + inbound monitor (C02), fed by the engine callbacks

func (w *World) onOpen(c *nbio.Conn) {
	cs := w.lookup(c)
	cs.Opens++
	cs.OpenSeq = simrt.Seq()
	simrt.Ev("OnOpen", int64(cs.ID))
	if cs.Opens > 1 {
		w.Fail("C03", "open-twice", "", "connection %d got %d open notifications", cs.ID, cs.Opens)
	}
	if cs.Closes > 0 {
		w.Fail("C03", "open-after-close", "", "connection %d: open notification after its close notification", cs.ID)
	}
	cs.InCallback++
	if cs.OnOpenHook != nil {
		cs.OnOpenHook(cs)
	}
	cs.InCallback--
	cs.OpenDone = true
}

func (w *World) onData(c *nbio.Conn, data []byte) {
	cs := w.lookup(c)
	simrt.Ev("OnData", int64(cs.ID), int64(len(data)))
	if cs.Opens == 0 && !cs.Dialed {
		w.Fail("C03", "data-before-open", "", "connection %d: data callback before the open notification", cs.ID)
	}
	if cs.Closes > 0 {
		w.O.Probe("data_after_close_notification")
	}
	if cs.InCallback > 0 {
		w.Fail("C02", "data-callback-overlap", w.Cfg.Mode, "connection %d: two data callbacks (or data and open) ran at the same time", cs.ID)
	}
	cs.InCallback++
	// inbound integrity: the delivered bytes must continue the stream the peer sent
	if w.Cfg.Network != "udp" {
		if cs.Delivered+len(data) > len(cs.Sent) {
			w.Fail("C02", "inbound-extra", w.class(), "connection %d: %d bytes delivered but the peer only sent %d", cs.ID, cs.Delivered+len(data), len(cs.Sent))
		} else {
			exp := cs.Sent[cs.Delivered : cs.Delivered+len(data)]
			for i := range data {
				if data[i] != exp[i] {
					w.Fail("C02", "inbound-corrupt", w.class(), "connection %d: delivered byte at stream offset %d is %#x, the peer sent %#x (duplicate, loss or reordering)", cs.ID, cs.Delivered+i, data[i], exp[i])
					break
				}
			}
		}
		cs.Delivered += len(data)
	}
	if cs.OnDataHook != nil {
		cs.OnDataHook(cs, data)
	}
	cs.InCallback--
}

func (w *World) onClose(c *nbio.Conn, err error) {
	cs := w.lookup(c)
	cs.Closes++
	cs.CloseSeq = simrt.Seq()
	simrt.Ev("OnClose", int64(cs.ID))
	if simrt.Tracing() {
		simrt.Logf("OnClose conn %d err=%v", cs.ID, err)
	}
	if cs.Closes > 1 {
		w.Fail("C03", "close-twice", "", "connection %d got %d close notifications (second error: %v)", cs.ID, cs.Closes, err)
	} else {
		cs.CloseErr = err
	}
	if cs.Opens == 0 && !(cs.Dialed && cs.DialCB > 0 && cs.DialErr == nil) {
		cls := "accepted"
		if cs.Dialed {
			cls = "dialed"
			if w.Stopping {
				cls = "dialed/stop"
			}
		}
		w.Fail("C03", "close-without-open", cls, "connection %d: close notification (err=%v) for a connection that never got its open notification / successful dial callback", cs.ID, err)
	}
	if cs.OnCloseHook != nil {
		cs.OnCloseHook(cs, err)
	}
}

func (w *World) class() string {
	s := w.Cfg.Mode
	if w.Cfg.Async {
		s += "+async:" + w.Cfg.IOExec
	}
	return s + "/" + w.Cfg.Network
}

// Cause records that a close cause became observable to nbio.
func (cs *ConnState) Cause(what string, err error) {
	cs.Causes = append(cs.Causes, cause{what, simrt.Seq(), err})
}

// ---------------------------------------------------------------------------------------
// peers

// ConnectPeer creates a peer endpoint and connects it to the engine's listener.
func (w *World) ConnectPeer() (*ConnState, error) {
	typ := kernel.TCP
	if w.Cfg.Network == "unix" {
		typ = kernel.UNIX
	}
	s := w.K.NewPeer(typ)
	if err := w.K.ConnectPeer(s, w.KAddr); err != nil {
		return nil, err
	}
	cs := w.Expect(s.Local.String(), s)
	return cs, nil
}

// PeerSend writes b to the connection from the peer side, waiting for room.
// Returns false if the connection went away.
func (w *World) PeerSend(cs *ConnState, b []byte) bool {
	for len(b) > 0 {
		n, err := cs.Peer.PeerWrite(b)
		if err != nil {
			return false
		}
		if n > 0 {
			cs.Sent = append(cs.Sent, b[:n]...)
			b = b[n:]
			continue
		}
		p := cs.Peer
		simrt.WaitUntil("peer-send-room", func() bool { return p.Space() > 0 || p.WasReset() || p.Closed() || !p.Established() })
		if p.WasReset() || p.Closed() {
			return false
		}
	}
	return true
}

// PeerDrain reads everything currently readable on the peer side into cs.Recvd.
func (w *World) PeerDrain(cs *ConnState, max int) int {
	total := 0
	for {
		b, err := cs.Peer.PeerRead(max)
		if err != nil || len(b) == 0 {
			return total
		}
		cs.Recvd = append(cs.Recvd, b...)
		total += len(b)
	}
}

// KeyByte is the keyed payload: byte i of stream (conn, dir).
func KeyByte(conn int, dir byte, i int) byte {
	x := uint32(i)*2654435761 + uint32(conn)*40503 + uint32(dir)*977
	x ^= x >> 13
	x *= 0x5bd1e995
	x ^= x >> 15
	b := byte(x)
	if b == 0xDB { // reserved for allocator poison
		b = 0x5A
	}
	return b
}

// Payload returns n keyed bytes starting at stream offset off.
func Payload(conn int, dir byte, off, n int) []byte {
	b := make([]byte, n)
	for i := range b {
		b[i] = KeyByte(conn, dir, off+i)
	}
	return b
}

// ---------------------------------------------------------------------------------------
// white-box probes by reflection (names only; a probe that does not resolve is skipped)

func field(c *nbio.Conn, name string) (reflect.Value, bool) {
	v := reflect.ValueOf(c).Elem().FieldByName(name)
	return v, v.IsValid()
}

// ProbeLeft returns nbio's own backlog counter.
func ProbeLeft(c *nbio.Conn) (int, bool) {
	v, ok := field(c, "left")
	if !ok || v.Kind() != reflect.Int {
		return 0, false
	}
	return int(v.Int()), true
}

// ProbeQueueLen returns len(writeList).
func ProbeQueueLen(c *nbio.Conn) (int, bool) {
	v, ok := field(c, "writeList")
	if !ok || v.Kind() != reflect.Slice {
		return 0, false
	}
	return v.Len(), true
}

// ProbeBool reads a bool field.
func ProbeBool(c *nbio.Conn, name string) (bool, bool) {
	v, ok := field(c, name)
	if !ok || v.Kind() != reflect.Bool {
		return false, false
	}
	return v.Bool(), true
}

// ProbeFD returns the descriptor of the connection.
func ProbeFD(c *nbio.Conn) int { return c.Hash() }

// ProbeMuxFree reports whether the connection mutex is free.
func ProbeMuxFree(c *nbio.Conn) bool {
	v, ok := field(c, "mux")
	if !ok {
		return true
	}
	l := v.FieldByName("locked")
	if !l.IsValid() {
		return true
	}
	return !l.Bool()
}

// SampleState folds an abstract state into the coverage set.
func (w *World) SampleState(cs *ConnState) {
	if cs.C == nil {
		return
	}
	q, _ := ProbeQueueLen(cs.C)
	wa, _ := ProbeBool(cs.C, "isWAdded")
	cl, _ := ProbeBool(cs.C, "closed")
	var st uint64
	switch w.Cfg.Mode {
	case "ET":
		st = 1
	case "ONESHOT":
		st = 2
	}
	if q > 0 {
		st |= 4
	}
	if wa {
		st |= 8
	}
	if cl {
		st |= 16
	}
	if cs.Local != nil {
		if cs.Local.Space() > 0 {
			st |= 32
		}
		if cs.Local.Readable() > 0 {
			st |= 64
		}
	}
	if !ProbeMuxFree(cs.C) {
		st |= 128
	}
	if w.Cfg.Async {
		st |= 256
	}
	if !w.states[st] {
		w.states[st] = true
		w.O.States = append(w.O.States, st)
	}
}

// EnterFair starts the fair phase: no more faults, round-robin scheduling.
func (w *World) EnterFair() {
	w.K.Fair = true
	w.fairR, w.fairW, w.fairWait = w.K.NRead, w.K.NWrite, w.K.NWait
	simrt.SetFair(true)
}

// Livelock turns a progress-free fair phase into a violation: of C02 when the spinning
// goroutines were reading / polling, of C04 when they were writing. A plain step-budget
// exhaustion is inconclusive (counted, never reported).
func (w *World) Livelock(res *simrt.Result) {
	if w == nil || w.O.V != nil || w.O.Infra != "" {
		return
	}
	if res.BudgetHit {
		w.O.Probe("inconclusive_step_budget_exhausted")
		w.O.NonTrivial = false
		return
	}
	if !res.Spin {
		return
	}
	r, wr, wt := w.K.NRead-w.fairR, w.K.NWrite-w.fairW, w.K.NWait-w.fairWait
	msg := fmt.Sprintf("fair phase (no faults, peer reading): %d scheduling steps without any progress (no byte moved, no descriptor opened or closed) while goroutines kept running: %v; syscalls in the fair phase: %d reads, %d writes, %d epoll_waits", 30000, res.SpinWho, r, wr, wt)
	if wr > r+wt {
		w.Fail("C04", "flush-livelock", w.class(), "%s", msg)
	} else {
		w.Fail("C02", "reader-spin", w.class(), "%s", msg)
	}
	if w.O.V == nil {
		w.O.Probe("livelock_seen_other_property")
	}
}

// Finish copies scheduler results into the outcome and applies the generic oracles.
func Finish(o *common.Outcome, res *simrt.Result, w *World) {
	if res.BudgetHit && o.V != nil {
		// (the run was cut off: what the unwinding goroutines report while the world is torn
		// down is no verdict)
		o.Probe("report_during_teardown_discarded")
		o.V = nil
	}
	o.Steps = res.Steps
	o.SimTime = res.SimTime
	o.LogHash = res.LogHash
	o.Finger = res.SchedHash
	o.Trace = res.Trace
	if res.HarnessErr != "" {
		o.Infra = res.HarnessErr
	}
	if w != nil {
		for k, v := range w.K.Stats {
			if o.Faults == nil {
				o.Faults = map[string]int{}
			}
			o.Faults[k] += v
		}
	}
	if len(res.Panics) > 0 {
		o.Fail("escaped-panic", "", "%s", res.Panics[0])
	}
}

// TempFile is a real file with keyed content, used as Sendfile source.
var tempFile *os.File
var tempFileData []byte

const TempFileSize = 300000

// FileByte is the content of the Sendfile source at offset off.
func FileByte(off int64) byte { return KeyByte(999, 'F', int(off)) }

// OpenTempFile opens a fresh handle on the keyed file (created once per process).
func OpenTempFile() (*os.File, error) {
	if tempFile == nil {
		f, err := os.CreateTemp("", "verif-sendfile-*")
		if err != nil {
			return nil, err
		}
		tempFileData = make([]byte, TempFileSize)
		for i := range tempFileData {
			tempFileData[i] = FileByte(int64(i))
		}
		if _, err := f.Write(tempFileData); err != nil {
			return nil, err
		}
		os.Remove(f.Name()) // unlinked at once; the open handle keeps it alive
		tempFile = f
	}
	fd, err := dupFile(tempFile)
	if err != nil {
		return nil, err
	}
	return fd, nil
}

func dupFile(f *os.File) (*os.File, error) {
	return os.Open(fmt.Sprintf("/proc/self/fd/%d", f.Fd()))
}

var errNoFile = errors.New("no temp file")
