package core

// Stop scenario (C18, core engine): an arbitrary history of accepts, added and dialed
// connections, traffic, backlogs, pending deadlines and closes, then Stop() or
// Shutdown(ctx) raced with new accepts, peer closes and application closes.
// Oracle: Stop returns in the fair phase; every opened connection has its close
// notification by then; nothing of the engine is left: goroutines, descriptors, timers;
// a later connect is refused.

import (
	"os"
	"context"
	"fmt"
	"strings"
	"testing"
	"time"

	"github.com/lesismal/nbio"

	"verif/harness/common"
	"verif/sim/kernel"
	simrt "verif/sim/rt"
)

// StopConn is one connection of the preceding history.
type StopConn struct {
	Kind     string `json:"kind"`               // accepted | added | dial | dialpending (never answered)
	Backlog  bool   `json:"backlog,omitempty"`  // the application writes more than the peer reads
	Sendfile bool   `json:"sendfile,omitempty"` // ... and the backlog is (also) a queued Sendfile: a dup'ed descriptor is in flight
	Deadline int    `json:"deadline_us,omitempty"`
	Traffic  int    `json:"traffic,omitempty"`  // bytes the peer sends
	Race     string `json:"race,omitempty"`     // what races with Stop: "" | connect (arrives around Stop) | peerclose | appclose | write
	UnixDial bool   `json:"unix_dial,omitempty"` // kind dial: over AF_UNIX, where the connect completes at once
}

// StopCase is a case of the stop scenario.
type StopCase struct {
	Sched    common.Sched  `json:"sched"`
	K        kernel.Params `json:"kernel"`
	Eng      EngCfg        `json:"eng"`
	Conns    []StopConn    `json:"conns"`
	Shutdown bool          `json:"shutdown,omitempty"` // Shutdown(live ctx) instead of Stop
	Early    bool          `json:"early,omitempty"`    // Stop is invoked right after Start, racing everything
	Late     int           `json:"late,omitempty"`     // peers that connect while Stop is running
}

func genStopCase(r *simrt.Rand, tier string) *StopCase {
	c := &StopCase{Sched: common.GenSched(r, 120000)}
	c.Eng = genEng(r)
	c.K = genKernel(r, true)
	if c.K.SndCap < 16 {
		c.K.SndCap = 16
	}
	c.K.ShortRead = 0
	c.Shutdown = r.Bool(0.3)
	c.Early = r.Bool(0.15)
	c.Late = r.Pick(0, 0, 1, 2, 3)
	lowFiles := r.Bool(0.1)
	n := r.Range(0, 4)
	for i := 0; i < n; i++ {
		cn := StopConn{}
		switch k := r.Intn(10); {
		case k < 6:
			cn.Kind = "accepted"
		case k < 7:
			cn.Kind = "added"
		case k < 9:
			cn.Kind = "dial"
		default:
			cn.Kind = "dialpending"
		}
		if c.Eng.Network == "unix" {
			cn.Kind = "accepted"
		}
		cn.Backlog = r.Bool(0.3)
		if r.Bool(0.3) {
			cn.Deadline = r.Pick(10, 1000, 1000000)
		}
		cn.Traffic = r.Pick(0, 0, 10, 1000)
		cn.Sendfile = r.Bool(0.15)
		cn.Race = []string{"", "", "connect", "peerclose", "appclose", "write"}[r.Intn(6)]
		c.Conns = append(c.Conns, cn)
	}
	for i := range c.Conns {
		if c.Conns[i].Kind == "dial" && r.Bool(0.3) {
			c.Conns[i].UnixDial = true
		}
	}
	if lowFiles {
		// descriptor numbers start at 1000 (epoll, eventfd, then sockets): some of this run's
		// connections get a number the engine refuses
		c.Eng.MaxFiles = 1002 + r.Range(1, 4)
	}
	return c
}

func shrinkStop(ci interface{}) []interface{} {
	c := ci.(*StopCase)
	cp := func() *StopCase { x := *c; x.Conns = append([]StopConn(nil), c.Conns...); return &x }
	var out []interface{}
	for i := range c.Conns {
		x := cp()
		x.Conns = append(x.Conns[:i], x.Conns[i+1:]...)
		out = append(out, x)
	}
	for i, cn := range c.Conns {
		if cn != (StopConn{Kind: cn.Kind}) {
			x := cp()
			x.Conns[i] = StopConn{Kind: cn.Kind}
			out = append(out, x)
		}
		if cn.Race != "" {
			x := cp()
			x.Conns[i].Race = ""
			out = append(out, x)
		}
	}
	if c.Late > 0 {
		x := cp()
		x.Late--
		out = append(out, x)
	}
	if c.Shutdown {
		x := cp()
		x.Shutdown = false
		out = append(out, x)
	}
	k := c.K
	try := func(f func(p *kernel.Params)) {
		x := cp()
		f(&x.K)
		if x.K != k {
			out = append(out, x)
		}
	}
	try(func(p *kernel.Params) { p.ShortWrite = 0 })
	try(func(p *kernel.Params) { p.EINTRRead = 0 })
	try(func(p *kernel.Params) { p.EINTRWait = 0 })
	try(func(p *kernel.Params) { p.WaitSubset = 0 })
	try(func(p *kernel.Params) { p.InstantNet = true })
	if c.Eng.NPoller > 1 {
		x := cp()
		x.Eng.NPoller = 1
		out = append(out, x)
	}
	if c.Eng.Async {
		x := cp()
		x.Eng.Async = false
		x.Eng.IOExec = ""
		out = append(out, x)
	}
	for _, s := range common.ShrinkScheds(c.Sched) {
		x := cp()
		x.Sched = s
		out = append(out, x)
	}
	return out
}

// countRealFDs returns the number of descriptors the process holds (-1 if unknown).
func countRealFDs() int {
	ents, err := os.ReadDir("/proc/self/fd")
	if err != nil {
		return -1
	}
	return len(ents)
}

func engineGoroutine(desc string) bool {
	return strings.Contains(desc, "nbio.") || strings.Contains(desc, "taskpool.") || strings.Contains(desc, "timer.") || strings.Contains(desc, "timer:")
}

func runStop(t *testing.T, ci interface{}, trace bool) *common.Outcome {
	return runStopAs(t, ci, trace, "C18")
}

// runStopAs runs the stop scenario for property prop: C18 judges termination and reclamation, C03
// (part 'stoprace') the lifecycle clauses while Stop races dials and closes - one close notification,
// never without an open notification, and one outcome per asynchronous dial.
func runStopAs(t *testing.T, ci interface{}, trace bool, prop string) *common.Outcome {
	c := ci.(*StopCase)
	o := &common.Outcome{}
	var w *World
	res := simrt.Run(t, c.Sched.Config(trace), func() {
		defer simrt.Finish()
		w = NewWorld(t, o, prop, c.Eng, c.K, c.Sched)
		if err := w.Start(); err != nil {
			o.Infra = "engine start: " + err.Error()
			return
		}
		pending := 0
		usedSendfile := false
		// (warm up first: the shared temp file and whatever the runtime opens lazily on the first
		// directory read must not count as a leak of this run)
		if f, err := OpenTempFile(); err == nil {
			f.Close()
		}
		countRealFDs()
		realFDs := countRealFDs()
		stopInvoked := false
		overlapped := false
		var racers []func()
		setup := func() {
			for i, plan := range c.Conns {
				i, plan := i, plan
				var cs *ConnState
				onOpen := func(cs *ConnState) {
					if plan.Deadline > 0 {
						cs.C.SetReadDeadline(time.Now().Add(time.Duration(plan.Deadline) * time.Microsecond))
					}
					if plan.Backlog && !plan.Sendfile {
						cs.C.Write(make([]byte, c.K.SndCap*2+10))
					}
					if plan.Sendfile {
						if f, err := OpenTempFile(); err == nil {
							usedSendfile = true
							cs.C.Sendfile(f, int64(c.K.SndCap*3+1000))
							f.Close()
							if plan.Backlog {
								cs.C.Write(make([]byte, 10))
							}
						}
					}
				}
				switch plan.Kind {
				case "accepted":
					if plan.Race == "connect" {
						racers = append(racers, func() { w.ConnectPeer() })
						continue
					}
					var err error
					cs, err = w.ConnectPeer()
					if err != nil {
						o.Probe("peer_connect_refused")
						continue
					}
					cs.OnOpenHook = onOpen
				case "added":
					ln, err := w.K.Listen(&kernel.Addr{Net: "tcp", IP: [4]byte{127, 0, 0, 1}, Port: 7100 + i})
					if err != nil {
						continue
					}
					nc, err := nbio.Dial("tcp", fmt.Sprintf("127.0.0.1:%d", 7100+i))
					if err != nil {
						continue
					}
					peer := ln.Accept()
					cs = w.Expect(nc.LocalAddr().String(), peer)
					cs.OnOpenHook = onOpen
					w.G.AddConn(nc)
				case "dial", "dialpending":
					addr := fmt.Sprintf("127.0.0.1:%d", 7200+i)
					dnet := "tcp"
					if plan.Kind == "dial" && plan.UnixDial {
						// an AF_UNIX connect completes at once: no pending dial callback in the poller
						dnet, addr = "unix", fmt.Sprintf("/sim/stop-dial-%d.sock", i)
						if ln, err := w.K.Listen(&kernel.Addr{Net: "unix", Name: addr}); err == nil {
							pending++
							simrt.GoNamed("peer-accept", func() {
								defer func() { pending-- }()
								simrt.WaitStuck("peer-accept", time.Second, func() bool { return ln.AcceptReady() })
								ln.Accept()
							})
						}
					} else if plan.Kind == "dialpending" {
						w.K.Blackhole["tcp|"+addr] = true
					} else if ln, err := w.K.Listen(&kernel.Addr{Net: "tcp", IP: [4]byte{127, 0, 0, 1}, Port: 7200 + i}); err == nil {
						pending++
						simrt.GoNamed("peer-accept", func() {
							defer func() { pending-- }()
							simrt.WaitStuck("peer-accept", time.Second, func() bool { return ln.AcceptReady() })
							ln.Accept()
						})
					}
					cs = w.Expect(addr, nil)
					cs.Dialed = true
					csd := cs
					dialErr := w.G.DialAsync(dnet, addr, func(nc *nbio.Conn, err error) {
						csd.DialCB++
						csd.DialErr = err
						if err == nil && nc != nil {
							csd.C = nc
							w.byC[nc] = csd
							if ks := w.K.SockOf(ProbeFD(nc)); ks != nil {
								csd.Local = ks
								csd.Peer = ks.Peer()
							}
							onOpen(csd)
						}
					})
					if dialErr != nil {
						csd.DialCB = -1000 // synchronous error return: no callback and no notification may follow
					}
				}
				if cs == nil {
					continue
				}
				csl := cs
				if plan.Traffic > 0 && plan.Kind == "accepted" {
					pending++
					simrt.GoNamed("traffic", func() {
						defer func() { pending-- }()
						w.PeerSend(csl, Payload(csl.ID, 'I', len(csl.Sent), plan.Traffic))
					})
				}
				switch plan.Race {
				case "peerclose":
					racers = append(racers, func() {
						if csl.Peer != nil {
							csl.Peer.CloseEnd()
						}
					})
				case "appclose":
					racers = append(racers, func() {
						if csl.C != nil {
							csl.C.Close()
						}
					})
				case "write":
					racers = append(racers, func() {
						if csl.C != nil {
							csl.C.Write(make([]byte, 100))
						}
					})
				}
			}
		}
		if c.Early {
			// everything races with Stop
			pending++
			simrt.GoNamed("setup", func() { defer func() { pending-- }(); setup() })
		} else {
			setup()
			simrt.WaitStuck("history", 100*time.Millisecond, func() bool { return pending == 0 })
		}
		for i := 0; i < c.Late; i++ {
			racers = append(racers, func() { w.ConnectPeer() })
		}
		for i, f := range racers {
			f := f
			pending++
			simrt.GoNamed(fmt.Sprintf("racer%d", i), func() {
				defer func() { pending-- }()
				if stopInvoked {
					overlapped = true
				}
				f()
			})
		}
		// ---- Stop ------------------------------------------------------------------------
		stopped := false
		simrt.GoNamed("stopper", func() {
			stopInvoked = true
			if pending > 0 {
				overlapped = true
			}
			w.Stopped = true
			if c.Shutdown {
				ctx, cancel := context.WithCancel(context.Background())
				w.Stopping = true
				w.G.Shutdown(ctx)
				cancel()
			} else {
				w.Stopping = true
				w.G.Stop()
			}
			stopped = true
		})
		// let the race play out, then be fair
		simrt.WaitStuck("race", 10*time.Millisecond, func() bool { return stopped && pending == 0 })
		w.EnterFair()
		if !simrt.WaitStuck("stop-returns", 5*time.Second, func() bool { return stopped }) {
			w.Fail("C18", "stop-hang", stopClass(c), "Stop did not return although the world is quiescent in the fair phase; blocked: %v; open connections: %s", simrt.Alive(), w.openConns())
			return
		}
		simrt.WaitStuck("racers", time.Second, func() bool { return pending == 0 })
		// at return: one close notification per opened connection
		for _, cs := range w.Conns {
			opened := cs.Opens > 0 || (cs.Dialed && cs.DialCB > 0 && cs.DialErr == nil)
			if opened && cs.Closes == 0 {
				w.Fail("C18", "close-notification-missing-at-stop", stopClass(c), "connection %d (%s) was opened but has no close notification although Stop has returned", cs.ID, cs.Key)
			}
		}
		w.StopAll()
		simrt.Quiesce(5 * time.Second)
		// "an asynchronous dial reports its outcome exactly once": a dial that DialAsync accepted
		// (nil return) has had its callback by now - with the connection, or with the error that
		// Stop (or anything else) ended it with - and a dial it refused has none
		for _, cs := range w.Conns {
			if !cs.Dialed {
				continue
			}
			switch {
			case cs.DialCB < 0 && cs.DialCB != -1000:
				w.Fail("C03", "dial-callback-after-error-return", stopClass(c), "connection %d (%s): DialAsync returned an error and its callback was invoked nevertheless", cs.ID, cs.Key)
			case cs.DialCB == 0:
				w.Fail("C03", "dial-callback-missing", stopClass(c), "connection %d (%s): DialAsync returned nil but its callback has never been invoked, although the engine has been stopped and the world is quiescent (close notifications for it: %d)", cs.ID, cs.Key, cs.Closes)
			case cs.DialCB > 1:
				w.Fail("C03", "dial-callback-twice", stopClass(c), "connection %d (%s): the dial callback was invoked %d times", cs.ID, cs.Key, cs.DialCB)
			}
		}
		// a later connect is refused
		if w.Cfg.Network != "udp" && w.K.Listening(w.KAddr) {
			w.Fail("C18", "still-listening", stopClass(c), "the engine's listener still accepts connections after Stop returned")
		}
		// nothing of the engine is left
		for _, g := range simrt.Alive() {
			if engineGoroutine(g) {
				w.Fail("C18", "goroutine-leak", stopClass(c), "after Stop returned and the world became quiescent an engine goroutine is still alive: %s", g)
				break
			}
		}
		if n := simrt.PendingTimers(); n > 0 {
			w.Fail("C18", "timer-leak", stopClass(c), "%d timers are still armed after Stop returned and every connection was closed", n)
		}
		if fds := w.K.OpenFDs(); len(fds) > 0 {
			w.Fail("C18", "descriptor-leak", stopClass(c), "descriptors still open after Stop: %v", fds)
		}
		// Sendfile queues a dup of the (real) file descriptor: those are outside the simulated
		// descriptor table, so the process's own table is compared with what it held at the start
		if usedSendfile {
			if now := countRealFDs(); realFDs >= 0 && now > realFDs {
				w.Fail("C18", "descriptor-leak", stopClass(c)+"/sendfile", "%d descriptors of the process are still open after Stop that were not open before the run (a Sendfile was in flight: the dup'ed file descriptor of its queue entry)", now-realFDs)
			}
		}
		o.NonTrivial = overlapped
	})
	Finish(o, res, w)
	if res.Spin && o.V == nil && o.Infra == "" && w != nil {
		w.Fail("C18", "stop-livelock", stopClass(c), "fair phase around Stop: 30000 scheduling steps without progress while goroutines kept running: %v (a poller or acceptor spinning instead of terminating)", res.SpinWho)
	}
	w.Livelock(res)
	if res.Deadlock && o.V == nil && o.Infra == "" {
		o.Infra = fmt.Sprintf("run ended without finishing: %v", res.Blocked)
	}
	return o
}

func stopClass(c *StopCase) string {
	s := "stop"
	if c.Shutdown {
		s = "shutdown"
	}
	if c.Early {
		s += "+early"
	}
	return s
}

func (w *World) openConns() string {
	s := ""
	for _, cs := range w.Conns {
		if (cs.Opens > 0 || cs.DialCB > 0) && cs.Closes == 0 {
			s += fmt.Sprintf("conn %d (%s) ", cs.ID, cs.Key)
		}
	}
	if s == "" {
		s = "none"
	}
	return s
}
