package core

// Outbound scenario: application writers (Write / Writev / Sendfile, from goroutines and
// from inside callbacks) against a peer whose reading pace, the kernel's acceptance pattern
// and the schedule are all drawn from the seed. Decides C01 (integrity), C04 (flush
// liveness) and C17 (write-buffer bound).

import (
	"syscall"
	"encoding/binary"
	"errors"
	"fmt"
	"net"
	"os"
	"testing"
	"time"

	"github.com/lesismal/nbio"

	"verif/harness/common"
	"verif/sim/kernel"
	simrt "verif/sim/rt"
)

// WOp is one application write operation.
type WOp struct {
	Op    string `json:"op"`              // w | v | f (sendfile) | y (yield/sleep)
	Sizes []int  `json:"sz,omitempty"`    // w: [n]; v: buffer sizes; f: [offset, len]; y: [microseconds]
	Ctx   string `json:"ctx,omitempty"`   // "" application goroutine | open | data | close
	Rel   bool   `json:"rel,omitempty"`   // w: the size is (bound - true backlog at the call) + Sizes[0]
}

// OutCase is a case of the outbound scenario.
type OutCase struct {
	Sched   common.Sched  `json:"sched"`
	K       kernel.Params `json:"kernel"`
	Eng     EngCfg        `json:"eng"`
	Multi   bool          `json:"multi,omitempty"` // several concurrent writers, record framing
	Writers [][]WOp       `json:"writers"`
	// peer behaviour
	ReadChunk  int  `json:"read_chunk"`
	StallUntilDone bool `json:"stall,omitempty"` // the peer reads nothing until the writers are done
	PeerPauseUs int `json:"peer_pause_us,omitempty"`
	Added      bool `json:"added,omitempty"`  // connection is dialed with nbio.Dial and added with AddConn (instead of accepted)
	CAF        bool `json:"caf,omitempty"`        // after the last operation the application calls CloseAfterFlush
	DialAsync  bool `json:"dial_async,omitempty"` // connection is made by Engine.DialAsync; the "open" operations run inside the dial callback
}

func (c *OutCase) copy() *OutCase {
	x := *c
	x.Writers = nil
	for _, w := range c.Writers {
		var ops []WOp
		for _, o := range w {
			o.Sizes = append([]int(nil), o.Sizes...)
			ops = append(ops, o)
		}
		x.Writers = append(x.Writers, ops)
	}
	return &x
}

var interestingSizes = []int{0, 1, 2, 3, 7, 8, 64, 100, 1000, 4095, 4096, 4097, 16384, 65535, 65536, 65537, 100000, 200000}

func genSize(r *simrt.Rand, capHint int, big bool) int {
	n := genSize0(r, capHint, big)
	// keep the number of flush cycles per operation bounded: tiny kernel buffers get
	// proportionally smaller writes (a 200 KB write through a 1-byte buffer explores
	// nothing new after the first few hundred cycles)
	lim := capHint * 12
	if lim < 100 {
		lim = 100
	}
	if n > lim {
		n = lim - r.Intn(3)
	}
	return n
}

func genSize0(r *simrt.Rand, capHint int, big bool) int {
	switch r.Intn(6) {
	case 0:
		// around the kernel capacity
		d := r.Range(-2, 2)
		if capHint+d >= 0 {
			return capHint + d
		}
		return capHint
	case 1:
		return r.Intn(capHint*3 + 2)
	case 2:
		if big {
			return r.Pick(65535, 65536, 65537, 100000, 200000, 1<<20)
		}
		return r.Pick(1000, 4096, 16384)
	default:
		n := interestingSizes[r.Intn(len(interestingSizes))]
		if !big && n > 70000 {
			n = 70000
		}
		return n
	}
}

func genOutCase(r *simrt.Rand, tier string, prop string) *OutCase {
	c := &OutCase{Sched: common.GenSched(r, 150000)}
	c.Eng = genEng(r)
	c.Eng.Async = c.Eng.Async && r.Bool(0.5)
	c.K = genKernel(r, true)
	if c.Eng.Mode != "ET" {
		c.K.EINTRWrite = r.PickF(0, 0, 0.05)
	}
	big := r.Bool(0.25)
	c.ReadChunk = r.Pick(1, 7, 100, 4096, 65536, 1<<20)
	c.StallUntilDone = r.Bool(0.4)
	c.PeerPauseUs = r.Pick(0, 0, 10, 1000)
	c.Added = r.Bool(0.15) && c.Eng.Network == "tcp"
	c.DialAsync = !c.Added && r.Bool(0.12) // tcp: completes through the poller; unix: completes at once
	c.CAF = r.Bool(0.15)
	nops := r.Range(1, 6)
	if tier == "thorough" {
		nops = r.Range(1, 10)
	}
	if prop == "C17" {
		c.Eng.MaxWBuf = r.Pick(1, 2, 10, 100, 1000, 4096, 65536, 262144)
		nops = r.Range(2, 12)
	} else if r.Bool(0.15) {
		c.Eng.MaxWBuf = r.Pick(100, 4096, 1 << 20)
	}
	if prop == "C04" {
		c.StallUntilDone = r.Bool(0.7)
		if r.Bool(0.5) {
			c.K.SndCap = r.Pick(1, 3, 16, 100, 1024)
		}
	}
	capHint := c.K.SndCap
	if prop == "C17" && r.Bool(0.6) && c.Eng.MaxWBuf < capHint*40 {
		capHint = c.Eng.MaxWBuf
	}
	if capHint < 4096 {
		big = false
	}
	if (prop != "C17" && r.Bool(0.25)) || (prop == "C17" && r.Bool(0.2)) {
		// several concurrent writers with record framing (C17: the bound must hold for the sum of
		// what concurrent callers leave behind; sizes are placed around a share of the bound)
		if prop == "C17" && c.Eng.MaxWBuf > 4 {
			capHint = c.Eng.MaxWBuf / 2
		}
		c.Multi = true
		nw := r.Range(2, 3)
		for w := 0; w < nw; w++ {
			var ops []WOp
			for i := 0; i < r.Range(1, 4); i++ {
				if r.Bool(0.3) {
					nb := r.Range(2, 4)
					var sz []int
					for j := 0; j < nb; j++ {
						sz = append(sz, r.Pick(0, 1, 5, 100, capHint, capHint*3+5))
					}
					ops = append(ops, WOp{Op: "v", Sizes: sz})
				} else {
					ops = append(ops, WOp{Op: "w", Sizes: []int{genSize(r, capHint, false)}})
				}
				if r.Bool(0.2) {
					ops = append(ops, WOp{Op: "y", Sizes: []int{r.Pick(0, 1, 100)}})
				}
			}
			c.Writers = append(c.Writers, ops)
		}
		return c
	}
	var ops []WOp
	for i := 0; i < nops; i++ {
		op := WOp{}
		switch k := r.Intn(10); {
		case k < 5:
			op.Op = "w"
			op.Sizes = []int{genSize(r, capHint, big)}
		case k < 8:
			op.Op = "v"
			nb := r.Range(1, 6)
			for j := 0; j < nb; j++ {
				op.Sizes = append(op.Sizes, genSize(r, capHint, false))
			}
		case k < 9:
			op.Op = "f"
			off := r.Pick(0, 0, 1, 4096, 100000)
			ln := r.Pick(0, 1, 100, 4096, 65536, 150000)
			if ln == 0 || ln > capHint*12+100 {
				ln = capHint*12 + 100
			}
			op.Sizes = []int{off, ln}
		default:
			op.Op = "y"
			op.Sizes = []int{r.Pick(0, 1, 100, 10000)}
		}
		if op.Op != "y" {
			switch r.Intn(8) {
			case 0:
				if i == 0 || ops[len(ops)-1].Ctx == "open" {
					op.Ctx = "open"
				}
			case 1:
				op.Ctx = "data"
			}
		}
		if prop == "C17" && op.Op == "w" && op.Ctx == "" && r.Bool(0.45) {
			// aim at the bound itself: the remaining budget at the moment of the call, +-1
			op.Rel = true
			op.Sizes = []int{r.Pick(-1, 0, 0, 0, -2, 1, -100)}
		}
		ops = append(ops, op)
	}
	c.Writers = [][]WOp{ops}
	return c
}

// sweepOut enumerates the fault-point sweep of the outbound properties: small plans (2 operations
// in the quick tier, 3 in the thorough tier, from an alphabet of Write / Writev / Sendfile shapes
// sized relative to the kernel's send capacity) x epoll mode x transport x kernel capacity (64 bytes:
// a backlog forms by itself; 4096: everything fits and the scripted fault is the only disturbance)
// x peer (reads at once / stalls until the writers are done) x first operation inside the open
// callback or not; each plan runs once undisturbed and then once per (k, take): the k-th write that
// would have fitted is cut short to `take` bytes (1, half, all but one) - exactly one fault per run,
// at every position, under a calm schedule (no pre-emption at plain yields). Enumeration, not sampling:
// a change that needs one short write at one particular point of one of these plans is met for certain.
func sweepOut(prop, tier string) []interface{} {
	var out []interface{}
	const C = 64
	alpha := []WOp{
		{Op: "w", Sizes: []int{C / 2}},
		{Op: "w", Sizes: []int{3 * C}},
		{Op: "v", Sizes: []int{C / 2, 0, C}},
		{Op: "v", Sizes: []int{2 * C, C / 2}},
		{Op: "f", Sizes: []int{0, 2 * C}},
	}
	nops, maxAt, takes := 2, 5, []int{1, 1 << 30}
	if tier == "thorough" {
		nops, maxAt, takes = 3, 9, []int{1, 0, 1 << 30}
	}
	var plans [][]WOp
	var rec func(prefix []WOp)
	rec = func(prefix []WOp) {
		if len(prefix) == nops {
			plans = append(plans, append([]WOp(nil), prefix...))
			return
		}
		for _, a := range alpha {
			rec(append(prefix, a))
		}
	}
	rec(nil)
	idx := 0
	for _, mode := range []string{"LT", "ET", "ONESHOT"} {
		for _, network := range []string{"tcp", "unix"} {
			for _, capv := range []int{C, 4096} {
				for _, stall := range []bool{false, true} {
					if stall && capv != C {
						continue // nothing queues up behind a large buffer: a stalling peer changes nothing
					}
					for _, inOpen := range []bool{false, true} {
						if inOpen && tier != "thorough" && capv != C {
							continue
						}
						for _, plan := range plans {
							for at := 0; at <= maxAt; at++ {
								for ti, take := range takes {
									if at == 0 && ti > 0 {
										continue
									}
									idx++
									c := &OutCase{ReadChunk: 4096, StallUntilDone: stall}
									c.Sched = common.Sched{Seed: uint64(idx), Strategy: int(simrt.StratRandom), Stick: 1, MaxSteps: 150000}
									c.Eng = EngCfg{Mode: mode, NPoller: 1, ReadBuf: 4096, Network: network}
									if prop == "C17" {
										c.Eng.MaxWBuf = 4 * C
									}
									c.K = kernel.DefaultParams()
									c.K.SndCap = capv
									c.K.ShortAt = at
									c.K.ShortTake = take
									var ops []WOp
									for i, o := range plan {
										o.Sizes = append([]int(nil), o.Sizes...)
										if i == 0 && inOpen {
											o.Ctx = "open"
										}
										ops = append(ops, o)
									}
									c.Writers = [][]WOp{ops}
									out = append(out, c)
								}
							}
						}
					}
				}
			}
		}
	}
	return out
}

func shrinkOut(ci interface{}) []interface{} {
	c := ci.(*OutCase)
	var out []interface{}
	for wi, w := range c.Writers {
		if len(c.Writers) > 1 {
			x := c.copy()
			x.Writers = append(x.Writers[:wi], x.Writers[wi+1:]...)
			if len(x.Writers) == 1 {
				// keep Multi: the framing stays valid with one writer
			}
			out = append(out, x)
		}
		for i := range w {
			if len(w) > 1 {
				x := c.copy()
				x.Writers[wi] = append(x.Writers[wi][:i], x.Writers[wi][i+1:]...)
				out = append(out, x)
			}
		}
		for i, op := range w {
			if op.Ctx != "" {
				x := c.copy()
				x.Writers[wi][i].Ctx = ""
				out = append(out, x)
			}
			if op.Op == "v" && len(op.Sizes) > 1 {
				for j := range op.Sizes {
					x := c.copy()
					s := x.Writers[wi][i].Sizes
					x.Writers[wi][i].Sizes = append(s[:j], s[j+1:]...)
					out = append(out, x)
				}
			}
			for j, s := range op.Sizes {
				if op.Op == "f" && j == 0 {
					if s > 0 {
						x := c.copy()
						x.Writers[wi][i].Sizes[0] = 0
						out = append(out, x)
					}
					continue
				}
				for _, ns := range []int{0, 1, s / 2, s - 1} {
					if ns >= 0 && ns < s {
						x := c.copy()
						x.Writers[wi][i].Sizes[j] = ns
						out = append(out, x)
					}
				}
			}
		}
	}
	def := kernel.DefaultParams()
	k := c.K
	try := func(f func(p *kernel.Params)) {
		x := c.copy()
		f(&x.K)
		if x.K != k {
			out = append(out, x)
		}
	}
	try(func(p *kernel.Params) { p.ShortWrite = 0 })
	try(func(p *kernel.Params) { p.ShortRead = 0 })
	try(func(p *kernel.Params) { p.EINTRRead = 0 })
	try(func(p *kernel.Params) { p.EINTRWait = 0 })
	try(func(p *kernel.Params) { p.EINTRWrite = 0 })
	try(func(p *kernel.Params) { p.WaitSubset = 0 })
	try(func(p *kernel.Params) { p.InstantNet = true })
	try(func(p *kernel.Params) { p.ExtraEdges = false })
	try(func(p *kernel.Params) { p.FDReuse = def.FDReuse })
	try(func(p *kernel.Params) { p.LowatDiv = def.LowatDiv })
	if c.Eng.NPoller > 1 {
		x := c.copy()
		x.Eng.NPoller = 1
		out = append(out, x)
	}
	if c.Eng.Async {
		x := c.copy()
		x.Eng.Async = false
		x.Eng.IOExec = ""
		out = append(out, x)
	}
	if c.PeerPauseUs > 0 {
		x := c.copy()
		x.PeerPauseUs = 0
		out = append(out, x)
	}
	if c.DialAsync {
		x := c.copy()
		x.DialAsync = false
		out = append(out, x)
	}
	if c.CAF {
		x := c.copy()
		x.CAF = false
		out = append(out, x)
	}
	if c.Added {
		x := c.copy()
		x.Added = false
		out = append(out, x)
	}
	for _, s := range common.ShrinkScheds(c.Sched) {
		x := c.copy()
		x.Sched = s
		out = append(out, x)
	}
	return out
}

// ---------------------------------------------------------------------------------------

type outState struct {
	c        *OutCase
	w        *World
	cs       *ConnState
	pending  []byte // input of the call in progress (mode A)
	tail     []byte // input of a call that failed fatally: a prefix of it may end the stream
	verified int
	failedCall bool
	dataOps  []func() // operations waiting to be executed inside a data callback
	closeOps []func()
	writersDone int
	abort    bool
	anyErr   error
	backlogSeen bool
	faultsAtBacklog bool
	fileIn   int64
	// mode B
	recs     map[[2]int]*recInfo
	parsed   [][2]int
	parseOff int
	// C17
	maxHeld int64
	cycles  int
	nearBound bool
}

type recInfo struct {
	invoke, ret int64
	size        int
	ok          bool
	seen        int
	pos         int
}

// expectedAt returns the byte expected at stream offset i (mode A).
func (s *outState) expectedAt(i int) (byte, bool) {
	cs := s.cs
	if i < len(cs.Expected) {
		return cs.Expected[i], true
	}
	i -= len(cs.Expected)
	if i < len(s.pending) {
		return s.pending[i], true
	}
	i -= len(s.pending)
	if i < len(s.tail) {
		return s.tail[i], true
	}
	return 0, false
}

func (s *outState) verifyRecvd() {
	cs := s.cs
	if s.c.Multi {
		s.parseRecords()
		return
	}
	for s.verified < len(cs.Recvd) {
		want, ok := s.expectedAt(s.verified)
		if !ok {
			s.w.Fail("C01", "outbound-extra", s.class(), "peer received %d bytes but only %d were accepted (+%d in progress): duplicated or foreign bytes", len(cs.Recvd), len(cs.Expected), len(s.pending))
			return
		}
		if cs.Recvd[s.verified] != want {
			s.w.Fail("C01", "outbound-corrupt", s.class(), "peer received %#x at stream offset %d, the accepted stream has %#x there (loss, reordering or alteration); accepted so far %d bytes", cs.Recvd[s.verified], s.verified, want, len(cs.Expected))
			return
		}
		s.verified++
	}
}

func (s *outState) class() string {
	return s.c.Eng.Mode + "/" + s.c.Eng.Network
}

const recHdr = 12

func makeRecord(writer, seq, size int) []byte {
	if size < recHdr {
		size = recHdr
	}
	b := make([]byte, size)
	b[0] = 0xA5
	b[1] = byte(writer)
	binary.LittleEndian.PutUint16(b[2:], uint16(seq))
	binary.LittleEndian.PutUint32(b[4:], uint32(size))
	binary.LittleEndian.PutUint32(b[8:], uint32(size)^0x5EC0DE^uint32(writer)<<24^uint32(seq)<<8)
	for i := recHdr; i < size; i++ {
		b[i] = KeyByte(writer*1000+seq, 'R', i)
	}
	return b
}

func (s *outState) parseRecords() {
	cs := s.cs
	for {
		rest := cs.Recvd[s.parseOff:]
		if len(rest) < recHdr {
			return
		}
		if rest[0] != 0xA5 {
			s.w.Fail("C01", "record-interleaved", s.class(), "stream offset %d: expected the start of a record, found %#x (records of concurrent calls were interleaved or bytes were lost)", s.parseOff, rest[0])
			return
		}
		wr, seq := int(rest[1]), int(binary.LittleEndian.Uint16(rest[2:]))
		size := int(binary.LittleEndian.Uint32(rest[4:]))
		chk := binary.LittleEndian.Uint32(rest[8:])
		if chk != uint32(size)^0x5EC0DE^uint32(wr)<<24^uint32(seq)<<8 || size < recHdr {
			s.w.Fail("C01", "record-interleaved", s.class(), "stream offset %d: corrupt record header", s.parseOff)
			return
		}
		if len(rest) < size {
			return
		}
		for i := recHdr; i < size; i++ {
			if rest[i] != KeyByte(wr*1000+seq, 'R', i) {
				s.w.Fail("C01", "record-interleaved", s.class(), "record (writer %d, seq %d): body byte %d is foreign: the bytes of one call were interleaved with another call's", wr, seq, i)
				return
			}
		}
		ri := s.recs[[2]int{wr, seq}]
		if ri == nil {
			s.w.Fail("C01", "record-unknown", s.class(), "peer received a record (writer %d, seq %d) that no call wrote", wr, seq)
			return
		}
		ri.seen++
		ri.pos = len(s.parsed)
		if ri.seen > 1 {
			s.w.Fail("C01", "record-duplicated", s.class(), "record (writer %d, seq %d) was received %d times", wr, seq, ri.seen)
			return
		}
		s.parsed = append(s.parsed, [2]int{wr, seq})
		s.parseOff += size
	}
}

// held returns the true backlog: accepted buffer bytes the kernel has not taken yet.
func (s *outState) held() int64 {
	cs := s.cs
	if cs.Local == nil {
		return 0
	}
	return cs.BufBytes - (cs.Local.BytesIn - cs.Local.FileIn)
}

// doOp performs one write operation on the connection and updates the oracle state.
func (s *outState) doOp(op WOp, writer int, seq *int) {
	cs, w := s.cs, s.w
	c := cs.C
	if c == nil {
		return
	}
	M := int64(s.c.Eng.MaxWBuf)
	var input []byte
	var bufs [][]byte
	total := 0
	switch op.Op {
	case "y":
		d := 0
		if len(op.Sizes) > 0 {
			d = op.Sizes[0]
		}
		if d > 0 {
			simrt.Sleep(time.Duration(d) * time.Microsecond)
		} else {
			simrt.Yield()
		}
		return
	case "w", "v":
		if s.c.Multi {
			*seq++
			if op.Op == "w" {
				input = makeRecord(writer, *seq, op.Sizes[0])
				bufs = [][]byte{input}
			} else {
				sum := 0
				for _, n := range op.Sizes {
					sum += n
				}
				input = makeRecord(writer, *seq, sum)
				// cut the record into the requested buffer sizes (the last takes the rest)
				rest := input
				for i, n := range op.Sizes {
					if i == len(op.Sizes)-1 || n > len(rest) {
						n = len(rest)
					}
					bufs = append(bufs, rest[:n])
					rest = rest[n:]
				}
			}
			total = len(input)
			s.recs[[2]int{writer, *seq}] = &recInfo{size: total}
		} else {
			off := len(cs.Expected)
			sizes := op.Sizes
			if op.Rel && M > 0 && op.Op == "w" {
				n := int(M-s.held()) + op.Sizes[0]
				if n < 0 {
					n = 0
				}
				sizes = []int{n}
			}
			for _, n := range sizes {
				b := Payload(cs.ID, 'O', off+total, n)
				bufs = append(bufs, b)
				input = append(input, b...)
				total += n
			}
		}
	case "f":
	}
	before := s.held()
	invoke := simrt.Seq()
	var n int
	var err error
	isBuf := true
	switch op.Op {
	case "w":
		s.pending = input
		// hand nbio a private copy: the caller may reuse its buffer after Write returns
		arg := append([]byte(nil), bufs[0]...)
		n, err = c.Write(arg)
		for i := range arg {
			arg[i] = 0xEE
		}
	case "v":
		s.pending = input
		args := make([][]byte, len(bufs))
		for i, b := range bufs {
			args[i] = append([]byte(nil), b...)
		}
		n, err = c.Writev(args)
		for _, a := range args {
			for i := range a {
				a[i] = 0xEE
			}
		}
	case "f":
		isBuf = false
		f, ferr := OpenTempFile()
		if ferr != nil {
			w.O.Infra = "temp file: " + ferr.Error()
			return
		}
		off, ln := int64(op.Sizes[0]), int64(op.Sizes[1])
		if off > TempFileSize {
			off = TempFileSize
		}
		f.Seek(off, 0)
		want := ln
		if want <= 0 || want > TempFileSize-off {
			want = TempFileSize - off
		}
		input = tempFileData[off : off+want]
		total = len(input)
		s.pending = input
		var n64 int64
		n64, err = c.Sendfile(f, ln)
		f.Close()
		n = int(n64)
	}
	ret := simrt.Seq()
	if simrt.Tracing() {
		simrt.Logf("op %s%v ctx=%q -> n=%d err=%v (held before %d, after %d)", op.Op, op.Sizes, op.Ctx, n, err, before, s.held())
	}
	acc := n
	if acc < 0 {
		acc = 0
	}
	if acc > total {
		w.Fail("C01", "count-too-large", s.class(), "%s of %d bytes reported %d accepted", op.Op, total, n)
		acc = total
	}
	// A call that fails although the connection stays open and usable is a refusal, not an ending:
	// the documented contract of Write / Writev / Sendfile is "what cannot be written now is queued"
	// (a fatal error closes the connection; ErrOverflow closes it too). An EAGAIN / EINTR handed to
	// the caller while the whole budget is free is a write that fits and is not accepted (C17), and
	// for the stream (C01 / C04) it is a call that accepted nothing - checking goes on as usual.
	refused := false
	if err != nil && (errors.Is(err, syscall.EAGAIN) || errors.Is(err, syscall.EINTR)) {
		if closed, _ := c.IsClosed(); !closed && cs.Closes == 0 {
			refused = true
			w.O.Probe("call_refused_with_retryable_error_on_open_connection")
			if acc > 0 {
				w.Fail("C01", "accepted-bytes-with-retryable-error", s.class()+"/"+op.Op, "%s of %d bytes returned n=%d together with %v on a connection that stays open: the caller cannot know what was accepted", opName(op.Op), total, n, err)
			}
			limit := M
			if limit <= 0 {
				limit = 1 << 40
			}
			if isBuf := op.Op != "f"; isBuf && before+int64(total) <= limit {
				w.Fail("C17", "fitting-write-refused", opName(op.Op), "%s of %d bytes was refused with %v (connection open) although the true backlog was %d and the bound is %d: a write that fits is always accepted", opName(op.Op), total, err, before, s.c.Eng.MaxWBuf)
			}
		}
	}
	if err == nil && n != total {
		w.Fail("C01", "short-count-without-error", s.class()+"/"+op.Op, "%s of %d bytes (buffers %v) returned n=%d with a nil error: a call that returns without error must have accepted its whole input", opName(op.Op), total, op.Sizes, n)
	}
	if s.c.Multi {
		ri := s.recs[[2]int{writer, *seq}]
		ri.invoke, ri.ret = invoke, ret
		ri.ok = err == nil && n == total
		if err != nil && !refused {
			s.anyErr = err
		}
	} else {
		s.pending = nil
		if refused {
			// nothing of this call belongs to the stream
		} else if err != nil && !errors.Is(err, net.ErrClosed) && !errors.Is(err, nbio.ErrOverflow) {
			// fatal error in this call: a prefix of its input may be the end of the stream
			s.tail = input
			s.anyErr = err
		} else {
			if err != nil {
				s.anyErr = err
				acc = 0
			}
			cs.Expected = append(cs.Expected, input[:acc]...)
		}
	}
	if isBuf {
		if err == nil || acc > 0 {
			cs.BufBytes += int64(acc)
		}
	} else if err == nil {
		cs.FileBytes += int64(acc)
	}
	// ---- C17: the bound, on the true backlog -------------------------------------------
	if M > 0 && isBuf && total > 0 && s.c.Multi && err == nil {
		// concurrent writers: what the other writers' calls still in progress have queued is not
		// in the accounting yet, so the measured backlog is a lower bound of the true one - a
		// measured excess is an excess; "fits" cannot be judged here
		if after := s.held(); after > M {
			w.Fail("C17", "bound-exceeded", opName(op.Op)+"/concurrent", "after %s of %d bytes by one of %d concurrent writers nbio holds at least %d unsent bytes, bound %d", opName(op.Op), total, len(s.c.Writers), after, M)
		}
		if d := before + int64(total) - M; d >= -int64(total) && d <= int64(total) {
			s.nearBound = true
		}
	}
	if M > 0 && isBuf && total > 0 && !s.c.Multi {
		after := s.held()
		if after > s.maxHeld {
			s.maxHeld = after
		}
		d := before + int64(total) - M
		if d >= -1 && d <= 1 {
			s.nearBound = true
		}
		switch {
		case errors.Is(err, nbio.ErrOverflow):
			if before+int64(total) <= M {
				w.Fail("C17", "false-overflow", opName(op.Op), "%s of %d bytes was refused with ErrOverflow although the true backlog was %d and the bound is %d (fits)", opName(op.Op), total, before, M)
			}
			w.O.Probe("overflow_refusals")
		case err == nil:
			if after > M {
				w.Fail("C17", "bound-exceeded", opName(op.Op), "after %s of %d bytes nbio holds %d unsent bytes, bound %d", opName(op.Op), total, after, M)
			}
		}
		if left, ok := ProbeLeft(c); ok && err == nil && ProbeMuxFree(c) {
			if int64(left) != after {
				w.Fail("C17", "counter-drift", opName(op.Op), "after %s of %d bytes the internal backlog counter is %d but the true backlog is %d (accepted %d, kernel took %d)", opName(op.Op), total, left, after, cs.BufBytes, cs.Local.BytesIn-cs.Local.FileIn)
			}
		}
	}
	if q, ok := ProbeQueueLen(c); ok && q > 0 {
		s.backlogSeen = true
	}
	w.SampleState(cs)
}

func opName(op string) string {
	switch op {
	case "w":
		return "Write"
	case "v":
		return "Writev"
	case "f":
		return "Sendfile"
	}
	return op
}

func runOut(t *testing.T, ci interface{}, trace bool, prop string) *common.Outcome {
	c := ci.(*OutCase)
	o := &common.Outcome{}
	var w *World
	res := simrt.Run(t, c.Sched.Config(trace), func() {
		defer simrt.Finish()
		w = NewWorld(t, o, prop, c.Eng, c.K, c.Sched)
		if err := w.Start(); err != nil {
			o.Infra = "engine start: " + err.Error()
			return
		}
		defer w.StopAll()
		s := &outState{c: c, w: w, recs: map[[2]int]*recInfo{}}
		// split leading "open" ops
		var openOps []WOp
		script := c.Writers
		if !c.Multi && len(script) > 0 {
			ops := script[0]
			for len(ops) > 0 && ops[0].Ctx == "open" {
				openOps = append(openOps, ops[0])
				ops = ops[1:]
			}
			script = [][]WOp{ops}
		}
		seq0 := 0
		hookup := func(cs *ConnState) {
			s.cs = cs
			cs.OnOpenHook = func(cs *ConnState) {
				for _, op := range openOps {
					s.doOp(op, 0, &seq0)
				}
			}
			cs.OnDataHook = func(cs *ConnState, data []byte) {
				for len(s.dataOps) > 0 {
					f := s.dataOps[0]
					s.dataOps = s.dataOps[1:]
					f()
				}
			}
		}
		var cs *ConnState
		if c.Added {
			// the harness owns a listener; nbio.Dial connects to it and the conn is added
			la := &kernel.Addr{Net: "tcp", IP: [4]byte{127, 0, 0, 1}, Port: 7100}
			ln, err := w.K.Listen(la)
			if err != nil {
				o.Infra = "listen: " + err.Error()
				return
			}
			nc, err := nbio.Dial("tcp", "127.0.0.1:7100")
			if err != nil {
				o.Infra = "nbio.Dial: " + err.Error()
				return
			}
			peer := ln.Accept()
			cs = w.Expect(nc.LocalAddr().String(), peer)
			hookup(cs)
			if _, err := w.G.AddConn(nc); err != nil {
				o.Probe("addconn_failed")
				return
			}
		} else if c.DialAsync {
			// the engine connects by itself; the dial callback is this connection's open
			// notification, and a backlog written inside it must drain like any other
			la := &kernel.Addr{Net: "tcp", IP: [4]byte{127, 0, 0, 1}, Port: 7100}
			dnet, daddr := "tcp", "127.0.0.1:7100"
			if c.Eng.Network == "unix" {
				// an AF_UNIX connect completes at once: DialAsync then reports through Engine.Async
				// instead of the poller, with the descriptor registered for read+write meanwhile
				la = &kernel.Addr{Net: "unix", Name: "/sim/dialed.sock"}
				dnet, daddr = "unix", "/sim/dialed.sock"
			}
			ln, err := w.K.Listen(la)
			if err != nil {
				o.Infra = "listen: " + err.Error()
				return
			}
			cs = w.Expect(daddr, nil)
			cs.Dialed = true
			hookup(cs)
			err = w.G.DialAsync(dnet, daddr, func(nc *nbio.Conn, err error) {
				cs.DialCB++
				cs.DialErr = err
				if err != nil || nc == nil {
					return
				}
				cs.C = nc
				w.byC[nc] = cs
				if ks := w.K.SockOf(ProbeFD(nc)); ks != nil && ks.Peer() != nil {
					cs.Peer = ks.Peer()
					cs.Local = ks
				}
				cs.InCallback++
				cs.OnOpenHook(cs)
				cs.InCallback--
				cs.OpenDone = true
			})
			if err != nil {
				o.Infra = "DialAsync: " + err.Error()
				return
			}
			_ = ln
		} else {
			var err error
			cs, err = w.ConnectPeer()
			if err != nil {
				o.Infra = "peer connect: " + err.Error()
				return
			}
			hookup(cs)
		}
		simrt.WaitStuck("conn-open", time.Second, func() bool { return cs.OpenDone || cs.Closes > 0 })
		if cs.C == nil || cs.Closes > 0 || !cs.OpenDone {
			o.Probe("conn_never_opened")
			return
		}
		// peer reader
		peerStop := false
		simrt.GoNamed("peer-reader", func() {
			p := cs.Peer
			for !peerStop {
				simrt.WaitUntil("peer-readable", func() bool {
					return peerStop || ((!c.StallUntilDone || s.writersDone == len(script)) && (p.Readable() > 0 || p.EOF()))
				})
				if peerStop {
					return
				}
				if p.Readable() == 0 && p.EOF() {
					return
				}
				b, err := p.PeerRead(c.ReadChunk)
				if err != nil {
					return
				}
				cs.Recvd = append(cs.Recvd, b...)
				s.verifyRecvd()
				if c.PeerPauseUs > 0 && s.writersDone < len(script) {
					simrt.Sleep(time.Duration(c.PeerPauseUs) * time.Microsecond)
				}
			}
		})
		// writers
		for wi, ops := range script {
			wi, ops := wi, ops
			simrt.GoNamed(fmt.Sprintf("writer%d", wi), func() {
				defer func() { s.writersDone++ }()
				seq := 0
				for _, op := range ops {
					if cs.Closes > 0 || s.abort {
						return
					}
					switch op.Ctx {
					case "data":
						done := false
						op := op
						s.dataOps = append(s.dataOps, func() { s.doOp(op, wi, &seq); done = true })
						if !w.PeerSend(cs, []byte{KeyByte(cs.ID, 'I', len(cs.Sent))}) {
							return
						}
						simrt.WaitUntil("data-op", func() bool { return done || cs.Closes > 0 || s.abort })
					default:
						s.doOp(op, wi, &seq)
					}
					if w.Failed() {
						return
					}
				}
			})
		}
		if !simrt.WaitStuck("writers-done", time.Second, func() bool { return s.writersDone == len(script) }) {
			// a writer waits for a data callback that never comes: the world is stuck
			o.Probe("writer_stuck_waiting_for_data_callback")
			s.abort = true
			s.dataOps = nil
			simrt.WaitUntil("writers-abort", func() bool { return s.writersDone == len(script) })
		}
		// ---- fair phase: faults stop, the peer keeps reading ------------------------------
		if q, ok := ProbeQueueLen(cs.C); ok && q > 0 {
			o.Probe("backlog_at_fair_phase")
			s.backlogSeen = true
		}
		nfaults := 0
		for k, v := range w.K.Stats {
			if k != "" {
				nfaults += v
			}
		}
		caf := false
		if c.CAF && s.anyErr == nil && cs.Closes == 0 && !w.Failed() {
			if closed, _ := cs.C.IsClosed(); !closed {
				// "closes the connection once all the data that Write, Writev and Sendfile have
				// accepted so far has been written": nothing accepted may be lost to the close
				caf = true
				cs.C.CloseAfterFlush()
			}
		}
		w.EnterFair()
		simrt.Quiesce(time.Second)
		s.verifyRecvd()
		closed, _ := cs.C.IsClosed()
		if caf && s.anyErr == nil && !w.Failed() {
			o.Probe("close_after_flush_called")
			if miss := s.missing(); miss != "" {
				if closed || cs.Closes > 0 {
					w.Fail("C01", "lost-at-close-after-flush", s.class(), "CloseAfterFlush was called after the last operation had returned; the connection has been closed but %s", miss)
				} else {
					q, qok := ProbeQueueLen(cs.C)
					s.lostOrStalled(q, qok, miss)
				}
			}
		} else if !closed && cs.Closes == 0 && s.anyErr == nil && !w.Failed() {
			s.finalCheck()
		} else {
			o.Probe("conn_closed_before_end")
		}
		o.NonTrivial = s.backlogSeen && nfaults > 0
		if prop == "C04" {
			o.NonTrivial = s.backlogSeen
		}
		if prop == "C17" {
			o.NonTrivial = s.nearBound && s.backlogSeen
		}
		peerStop = true
	})
	Finish(o, res, w)
	w.Livelock(res)
	if res.Deadlock && o.V == nil && o.Infra == "" {
		o.Infra = fmt.Sprintf("run ended without finishing: %v", res.Blocked)
	}
	return o
}

// missing says what the peer has not received of the accepted output ("" = nothing).
func (s *outState) missing() string {
	cs := s.cs
	if s.c.Multi {
		n := 0
		for _, ri := range s.recs {
			if ri.ok && ri.seen == 0 {
				n++
			}
		}
		if n > 0 {
			return fmt.Sprintf("%d accepted records never reached the peer", n)
		}
		return ""
	}
	if len(cs.Recvd) < len(cs.Expected) {
		return fmt.Sprintf("the peer received %d of %d accepted bytes", len(cs.Recvd), len(cs.Expected))
	}
	return ""
}

// finalCheck: the connection is open, the peer has read everything it can get.
func (s *outState) finalCheck() {
	cs, w := s.cs, s.w
	q, qok := ProbeQueueLen(cs.C)
	if cs.Delivered < len(cs.Sent) {
		w.Fail("C02", "inbound-stalled", w.class(), "connection %d: the peer sent %d bytes, only %d were delivered to the data callback although the connection is open and the world is quiescent (epoll registration: %s)", cs.ID, len(cs.Sent), cs.Delivered, w.armedDesc(cs))
		if w.Prop != "C02" {
			w.O.Probe("inbound_stalled_seen")
		}
	}
	if s.c.Multi {
		missing := 0
		var first [2]int
		for k, ri := range s.recs {
			if ri.ok && ri.seen == 0 {
				if missing == 0 || k[0] < first[0] || (k[0] == first[0] && k[1] < first[1]) {
					first = k
				}
				missing++
			}
		}
		if missing > 0 {
			s.lostOrStalled(q, qok, fmt.Sprintf("%d accepted records never reached the peer (first: writer %d seq %d)", missing, first[0], first[1]))
			return
		}
		// order: per writer and real time
		last := map[int]int{}
		for _, k := range s.parsed {
			if k[1] <= last[k[0]] {
				w.Fail("C01", "record-reordered", s.class(), "records of writer %d arrived out of order (seq %d after %d)", k[0], k[1], last[k[0]])
				return
			}
			last[k[0]] = k[1]
		}
		for a, ra := range s.recs {
			for b, rb := range s.recs {
				if ra.ok && rb.ok && ra.ret < rb.invoke && ra.pos > rb.pos {
					w.Fail("C01", "record-reordered", s.class(), "call (writer %d seq %d) returned before call (writer %d seq %d) was invoked but its bytes come later in the stream", a[0], a[1], b[0], b[1])
					return
				}
			}
		}
		return
	}
	if len(cs.Recvd) < len(cs.Expected) {
		s.lostOrStalled(q, qok, fmt.Sprintf("peer received %d of %d accepted bytes", len(cs.Recvd), len(cs.Expected)))
	}
	if M := s.c.Eng.MaxWBuf; M > 0 {
		if left, ok := ProbeLeft(cs.C); ok && left != 0 && len(cs.Recvd) == len(cs.Expected) {
			w.Fail("C17", "counter-drift", "drained", "everything was delivered but the internal backlog counter is %d: the budget does not come back after the backlog drained", left)
		}
	}
}

func (s *outState) lostOrStalled(q int, qok bool, what string) {
	cs, w := s.cs, s.w
	wa, _ := ProbeBool(cs.C, "isWAdded")
	detail := fmt.Sprintf("%s; connection open, peer reading, world quiescent; nbio queue entries=%d, isWAdded=%v, %s, socket space=%d", what, q, wa, w.armedDesc(cs), cs.Local.Space())
	if qok && q > 0 {
		w.Fail("C04", "backlog-stalled", s.class(), "%s", detail)
		if w.Prop != "C04" {
			w.O.Probe("stalled_backlog_seen")
		}
		return
	}
	w.Fail("C01", "outbound-lost", s.class(), "%s", detail)
}

// epfdOf finds the epoll descriptor of the poller a connection belongs to (by reflection).
func epfdOf(c *nbio.Conn) int {
	v, ok := field(c, "p")
	if !ok || v.IsNil() {
		return -1
	}
	e := v.Elem().FieldByName("epfd")
	if !e.IsValid() {
		return -1
	}
	return int(e.Int())
}

var _ = os.Getpid


// armedDesc describes the kernel-side epoll registration of a connection.
func (w *World) armedDesc(cs *ConnState) string {
	mask, on := w.K.Armed(epfdOf(cs.C), ProbeFD(cs.C))
	st := "armed"
	if !on {
		st = "NOT armed (disabled one-shot or not registered)"
	}
	return fmt.Sprintf("kernel epoll mask=%#x %s", mask, st)
}
