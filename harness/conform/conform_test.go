// Package conform is the kernel-model conformance suite (DESIGN.md 8.3): generated scripts of
// socket and epoll operations are executed once against the real Linux kernel of this machine
// (raw system calls on TCP loopback / AF_UNIX stream sockets, outside any bubble) and once
// against verif/sim/kernel under the simulator's scheduler, and the two observation logs are
// compared. Observations are abstract - which call fails with which errno, how many bytes a small
// read returns, which event bits an epoll_wait reports - never byte-exact buffer sizes: a script
// only ever fills a direction completely ("until EAGAIN") or drains it completely.
//
// It is self-validation of the trusted base, not a property check: it decides nothing about nbio.
package conform

import (
	"encoding/json"
	"fmt"
	"os"
	"strconv"
	"strings"
	"syscall"
	"testing"
	"time"

	"verif/sim/kernel"
	simrt "verif/sim/rt"
)

type op struct {
	K string `json:"k"`
	N int    `json:"n,omitempty"`
}

type script struct {
	Typ  string `json:"typ"`  // tcp | unix
	Mode string `json:"mode"` // LT | ET | ONESHOT
	Ops  []op   `json:"ops"`
}

const (
	in    = 0x1
	out   = 0x4
	errb  = 0x8
	hup   = 0x10
	rdhup = 0x2000
)

func modeBits(m string) uint32 {
	switch m {
	case "ET":
		return 0x80000000
	case "ONESHOT":
		return 0x80000000 | 0x40000000
	}
	return 0
}

func maskStr(m uint32) string {
	var p []string
	for _, b := range []struct {
		v uint32
		s string
	}{{in, "IN"}, {out, "OUT"}, {errb, "ERR"}, {hup, "HUP"}, {rdhup, "RDHUP"}} {
		if m&b.v != 0 {
			p = append(p, b.s)
			m &^= b.v
		}
	}
	if m != 0 {
		p = append(p, fmt.Sprintf("0x%x", m))
	}
	if len(p) == 0 {
		return "-"
	}
	return strings.Join(p, "|")
}

func errStr(e error) string {
	if e == nil {
		return "ok"
	}
	if en, ok := e.(syscall.Errno); ok {
		switch en {
		case syscall.EAGAIN:
			return "EAGAIN"
		case syscall.EPIPE:
			return "EPIPE"
		case syscall.ECONNRESET:
			return "ECONNRESET"
		case syscall.EBADF:
			return "EBADF"
		case syscall.ENOENT:
			return "ENOENT"
		case syscall.EEXIST:
			return "EEXIST"
		case syscall.ENOTCONN:
			return "ENOTCONN"
		case syscall.ECONNREFUSED:
			return "ECONNREFUSED"
		case syscall.EINPROGRESS:
			return "EINPROGRESS"
		}
		return "errno" + strconv.Itoa(int(en))
	}
	return e.Error()
}

// backend is what a script runs against.
type backend interface {
	aWrite(b []byte) (int, error)
	aRead(b []byte) (int, error)
	bWrite(b []byte) (int, error)
	bRead(b []byte) (int, error)
	bShutdown()
	bClose()
	bReset()
	aShutdown()
	aClose()
	ctl(op int, events uint32) error
	wait() (uint32, bool)
	settle()
	fillRounds() int // how often a fill is repeated (with pauses) until a round takes nothing
}

// interpret runs the script and returns the observation log.
//
// Normalisations (deliberate abstractions of the model, listed in DESIGN.md 13):
//   - EPIPE and ECONNRESET from a write are one class (Linux picks by protocol and by whether a FIN
//     preceded the reset; nbio treats both as a fatal write error);
//   - once the peer endpoint is gone (closed / reset) or both directions are shut down, only the
//     following is compared: whether epoll reports the descriptor at all, how many bytes a read
//     still returns before the end, and nothing about writes (TCP accepts the first write to a
//     closed peer and fails the second, AF_UNIX fails the first; the model fails the first);
//   - a fill is "write until EAGAIN, repeated until a round takes nothing" on the real kernel,
//     whose two buffers (sender, receiver) the model merges into one.
func interpret(sc script, be backend) []string {
	var log []string
	obs := func(i int, o op, format string, a ...interface{}) {
		log = append(log, fmt.Sprintf("%d %s/%d: ", i, o.K, o.N)+fmt.Sprintf(format, a...))
	}
	werr := func(e error) string {
		if e == syscall.EPIPE || e == syscall.ECONNRESET {
			return "EPIPE*"
		}
		return errStr(e)
	}
	mb := modeBits(sc.Mode)
	big := make([]byte, 64<<10)
	bGone, aShut, bShut := false, false, false
	filled := false // TCP: the direction A->B was filled and B has not drained since
	for i, o := range sc.Ops {
		term := bGone || (aShut && bShut)
		switch o.K {
		case "a_write":
			n, e := be.aWrite(big[:o.N])
			switch {
			case term && e != syscall.EBADF:
				obs(i, o, "post-term")
			case filled && (e == nil || e == syscall.EAGAIN):
				// Linux TCP has two buffers (sender's, receiver's) and moves data between them
				// as acknowledgements and window updates flow, so "full" is not a stable state
				// once segments are exchanged; the model merges both into one capacity. Room that
				// appears without the peer reading is indistinguishable, for the writer, from the
				// peer having read a little.
				obs(i, o, "full?")
			case e == nil:
				obs(i, o, "n=%d", n)
			default:
				obs(i, o, "%s", werr(e))
			}
		case "a_fill":
			var e error
			total := 0
			for round := 0; round < be.fillRounds(); round++ {
				took := 0
				for k := 0; k < 4096; k++ {
					var n int
					n, e = be.aWrite(big)
					if e != nil {
						break
					}
					took += n
				}
				total += took
				if took == 0 || e != syscall.EAGAIN {
					break
				}
				be.settle()
				be.settle()
			}
			switch {
			case term && e != syscall.EBADF:
				obs(i, o, "post-term")
			case e == syscall.EAGAIN && filled:
				obs(i, o, "EAGAIN any=?")
			case e == syscall.EAGAIN:
				obs(i, o, "EAGAIN any=%v", total > 0)
				filled = sc.Typ == "tcp"
			default:
				obs(i, o, "%s", werr(e))
			}
		case "a_read":
			buf := make([]byte, o.N)
			n, e := be.aRead(buf)
			switch {
			case term && e != syscall.EBADF && (e != nil || n == 0) && o.N > 0:
				obs(i, o, "END")
			case e == nil:
				obs(i, o, "n=%d", n)
			default:
				obs(i, o, "%s", errStr(e))
			}
		case "a_readall":
			buf := make([]byte, 4096)
			total := 0
			var e error
			var n int
			for k := 0; k < 1<<16; k++ {
				n, e = be.aRead(buf)
				if e != nil || n == 0 {
					break
				}
				total += n
			}
			end := errStr(e)
			if e == nil {
				end = "EOF"
			}
			if term && e != syscall.EBADF && e != syscall.EAGAIN {
				end = "END"
			}
			obs(i, o, "total=%d end=%s", total, end)
		case "b_write":
			n, e := be.bWrite(big[:o.N])
			if e == nil {
				obs(i, o, "n=%d", n)
			} else {
				obs(i, o, "%s", werr(e))
			}
		case "b_drain":
			buf := make([]byte, 64<<10)
			var e error
			var n int
			for k := 0; k < 1<<16; k++ {
				be.settle()
				n, e = be.bRead(buf)
				if e != nil || n == 0 {
					break
				}
			}
			end := errStr(e)
			if e == nil {
				end = "EOF"
			}
			obs(i, o, "end=%s", end)
			filled = false
		case "b_shutdown":
			be.bShutdown()
			bShut = true
		case "b_close":
			be.bClose()
			bGone = true
		case "b_reset":
			be.bReset()
			bGone = true
		case "a_shutdown":
			be.aShutdown()
			aShut = true
		case "a_close":
			be.aClose()
		case "mod":
			obs(i, o, "%s", errStr(be.ctl(3, uint32(o.N)|mb)))
		case "add":
			obs(i, o, "%s", errStr(be.ctl(1, uint32(o.N)|mb)))
		case "del":
			obs(i, o, "%s", errStr(be.ctl(2, 0)))
		case "wait":
			m, ok := be.wait()
			switch {
			case !ok:
				obs(i, o, "none")
			case term:
				obs(i, o, "reported")
			default:
				obs(i, o, "%s", maskStr(m))
			}
		}
		be.settle()
	}
	return log
}

// ---------------------------------------------------------------------------------------
// the real kernel

type realBE struct {
	a, b, ep int
	aOpen    bool
	bOpen    bool
	pause    time.Duration
}

func must(e error) {
	if e != nil {
		panic(e)
	}
}

func newReal(typ string, pause time.Duration) *realBE {
	r := &realBE{pause: pause, aOpen: true, bOpen: true}
	switch typ {
	case "unix":
		p, e := syscall.Socketpair(syscall.AF_UNIX, syscall.SOCK_STREAM, 0)
		must(e)
		r.a, r.b = p[0], p[1]
	default:
		l, e := syscall.Socket(syscall.AF_INET, syscall.SOCK_STREAM, 0)
		must(e)
		must(syscall.Bind(l, &syscall.SockaddrInet4{Addr: [4]byte{127, 0, 0, 1}}))
		must(syscall.Listen(l, 8))
		sa, e := syscall.Getsockname(l)
		must(e)
		b, e := syscall.Socket(syscall.AF_INET, syscall.SOCK_STREAM, 0)
		must(e)
		must(syscall.Connect(b, sa))
		a, _, e := syscall.Accept(l)
		must(e)
		syscall.Close(l)
		r.a, r.b = a, b
		// no Nagle: a small write must not wait for the (delayed) acknowledgement of the previous one
		syscall.SetsockoptInt(a, syscall.IPPROTO_TCP, syscall.TCP_NODELAY, 1)
		syscall.SetsockoptInt(b, syscall.IPPROTO_TCP, syscall.TCP_NODELAY, 1)
	}
	must(syscall.SetNonblock(r.a, true))
	must(syscall.SetNonblock(r.b, true))
	ep, e := syscall.EpollCreate1(0)
	must(e)
	r.ep = ep
	return r
}

func (r *realBE) finish() {
	if r.aOpen {
		syscall.Close(r.a)
	}
	if r.bOpen {
		syscall.Close(r.b)
	}
	syscall.Close(r.ep)
}

func fix(n int, e error) (int, error) {
	if e != nil {
		return 0, e
	}
	return n, nil
}

func (r *realBE) aWrite(b []byte) (int, error) {
	if !r.aOpen {
		return 0, syscall.EBADF
	}
	return fix(syscall.Write(r.a, b))
}
func (r *realBE) aRead(b []byte) (int, error) {
	if !r.aOpen {
		return 0, syscall.EBADF
	}
	return fix(syscall.Read(r.a, b))
}
func (r *realBE) bWrite(b []byte) (int, error) {
	if !r.bOpen {
		return 0, syscall.EBADF
	}
	return fix(syscall.Write(r.b, b))
}
func (r *realBE) bRead(b []byte) (int, error) {
	if !r.bOpen {
		return 0, syscall.EBADF
	}
	return fix(syscall.Read(r.b, b))
}
func (r *realBE) bShutdown() {
	if r.bOpen {
		syscall.Shutdown(r.b, syscall.SHUT_WR)
	}
}
func (r *realBE) aShutdown() {
	if r.aOpen {
		syscall.Shutdown(r.a, syscall.SHUT_WR)
	}
}
func (r *realBE) bClose() {
	if r.bOpen {
		syscall.Close(r.b)
		r.bOpen = false
	}
}
func (r *realBE) bReset() {
	if r.bOpen {
		syscall.SetsockoptLinger(r.b, syscall.SOL_SOCKET, syscall.SO_LINGER, &syscall.Linger{Onoff: 1, Linger: 0})
		syscall.Close(r.b)
		r.bOpen = false
	}
}
func (r *realBE) aClose() {
	if r.aOpen {
		syscall.Close(r.a)
		r.aOpen = false
	}
}
func (r *realBE) ctl(op int, events uint32) error {
	if !r.aOpen {
		return syscall.EBADF // the number may have been reused by the runtime: do not touch it
	}
	return syscall.EpollCtl(r.ep, op, r.a, &syscall.EpollEvent{Events: events, Fd: int32(r.a)})
}
func (r *realBE) wait() (uint32, bool) {
	evs := make([]syscall.EpollEvent, 4)
	for {
		n, e := syscall.EpollWait(r.ep, evs, 0)
		if e == syscall.EINTR {
			continue
		}
		if e != nil || n == 0 {
			return 0, false
		}
		return evs[0].Events, true
	}
}
func (r *realBE) settle() { time.Sleep(r.pause) }
func (r *realBE) fillRounds() int { return 50 }

// ---------------------------------------------------------------------------------------
// the model

type simBE struct {
	k        *kernel.Kernel
	a        int
	ep       int
	b        *kernel.Sock
	aOpen    bool
	bOpen    bool
}

func newSim(typ string) *simBE {
	p := kernel.DefaultParams() // benign: instant delivery, no injected faults
	k := kernel.Install(p)
	s := &simBE{k: k, aOpen: true, bOpen: true}
	addr := &kernel.Addr{Net: "tcp", IP: [4]byte{127, 0, 0, 1}}
	st := kernel.TCP
	if typ == "unix" {
		addr = &kernel.Addr{Net: "unix", Name: "@conform"}
		st = kernel.UNIX
	}
	ln, err := k.Listen(addr)
	must(err)
	s.b = k.NewPeer(st)
	must(k.ConnectPeer(s.b, addr))
	sv := ln.Accept()
	fd, err := k.FDFor(sv)
	must(err)
	s.a = fd
	ln.CloseListener()
	ep, err := k.EpollCreate()
	must(err)
	s.ep = ep
	return s
}

func (s *simBE) aWrite(b []byte) (int, error) { return fix(s.k.Write(s.a, b)) }
func (s *simBE) aRead(b []byte) (int, error)  { return fix(s.k.Read(s.a, b)) }
func (s *simBE) bWrite(b []byte) (int, error) {
	if !s.bOpen {
		return 0, syscall.EBADF
	}
	n, e := s.b.PeerWrite(b)
	if e == nil && n == 0 && len(b) > 0 {
		return 0, syscall.EAGAIN
	}
	return n, e
}
func (s *simBE) bRead(b []byte) (int, error) {
	if !s.bOpen {
		return 0, syscall.EBADF
	}
	d, e := s.b.PeerRead(len(b))
	if e != nil {
		return 0, e
	}
	if d == nil {
		if s.b.EOF() {
			return 0, nil
		}
		return 0, syscall.EAGAIN
	}
	return copy(b, d), nil
}
func (s *simBE) bShutdown() {
	if s.bOpen {
		s.b.ShutdownWrite()
	}
}
func (s *simBE) aShutdown() {
	if sk := s.k.SockOf(s.a); sk != nil {
		sk.ShutdownWrite()
	}
}
func (s *simBE) bClose() {
	if s.bOpen {
		s.b.CloseEnd()
		s.bOpen = false
	}
}
func (s *simBE) bReset() {
	if s.bOpen {
		s.b.Reset()
		s.bOpen = false
	}
}
func (s *simBE) aClose() {
	if s.aOpen {
		s.k.Close(s.a)
		s.aOpen = false
	}
}
func (s *simBE) ctl(op int, events uint32) error {
	return s.k.EpollCtl(s.ep, op, s.a, events, int32(s.a))
}
func (s *simBE) wait() (uint32, bool) {
	evs, e := s.k.EpollWait(s.ep, 4, 0)
	if e != nil || len(evs) == 0 {
		return 0, false
	}
	return evs[0].Events, true
}
func (s *simBE) settle() { simrt.Idle() }
func (s *simBE) fillRounds() int { return 1 }

func runSim(t *testing.T, sc script) (log []string, herr string) {
	res := simrt.Run(t, simrt.Config{Seed: 1, Strategy: simrt.StratRandom, Stick: 1, MaxSteps: 2000000}, func() {
		be := newSim(sc.Typ)
		log = interpret(sc, be)
		simrt.Finish()
	})
	if res.HarnessErr != "" || len(res.Panics) > 0 || res.BudgetHit {
		herr = fmt.Sprintf("harness: %s panics=%v budget=%v", res.HarnessErr, res.Panics, res.BudgetHit)
	}
	return
}

func runReal(sc script, pause time.Duration) []string {
	be := newReal(sc.Typ, pause)
	defer be.finish()
	return interpret(sc, be)
}

// ---------------------------------------------------------------------------------------
// generation

func gen(r *simrt.Rand) script {
	sc := script{Typ: r.PickS("tcp", "unix"), Mode: r.PickS("LT", "ET", "ONESHOT")}
	interest := []int{in | rdhup, in | out | rdhup, in, in | out}
	sc.Ops = append(sc.Ops, op{K: "add", N: interest[r.Intn(len(interest))]})
	n := r.Range(3, 14)
	bGone, bShut, aClosed := false, false, false
	for i := 0; i < n; i++ {
		if aClosed {
			// only a few calls on the closed descriptor, then stop
			sc.Ops = append(sc.Ops, op{K: r.PickS("a_write", "a_read", "mod"), N: 4})
			break
		}
		x := r.Intn(100)
		switch {
		case x < 22:
			sc.Ops = append(sc.Ops, op{K: "wait"})
		case x < 32:
			sc.Ops = append(sc.Ops, op{K: "a_write", N: r.Pick(1, 5, 32)})
		case x < 40:
			sc.Ops = append(sc.Ops, op{K: "a_fill"})
		case x < 50:
			if !bGone {
				sc.Ops = append(sc.Ops, op{K: "b_drain"})
			}
		case x < 60:
			if !bGone {
				sc.Ops = append(sc.Ops, op{K: "b_write", N: r.Pick(1, 7, 40)})
			}
		case x < 68:
			sc.Ops = append(sc.Ops, op{K: "a_read", N: r.Pick(0, 1, 8, 100)})
		case x < 74:
			sc.Ops = append(sc.Ops, op{K: "a_readall"})
		case x < 84:
			sc.Ops = append(sc.Ops, op{K: "mod", N: interest[r.Intn(len(interest))]})
		case x < 87:
			sc.Ops = append(sc.Ops, op{K: "del"}, op{K: "wait"}, op{K: "add", N: interest[r.Intn(len(interest))]})
		case x < 89:
			sc.Ops = append(sc.Ops, op{K: "add", N: in}) // EEXIST
		case x < 92:
			if !bGone && !bShut {
				sc.Ops = append(sc.Ops, op{K: "b_shutdown"})
				bShut = true
			}
		case x < 95:
			if !bGone {
				sc.Ops = append(sc.Ops, op{K: "b_close"})
				bGone = true
			}
		case x < 97:
			if !bGone {
				sc.Ops = append(sc.Ops, op{K: "b_reset"})
				bGone = true
			}
		case x < 98:
			// (a half-close by the side under test is not generated: nbio never calls shutdown(2),
			// and the model does not claim Linux's poll results for that state)
		default:
			sc.Ops = append(sc.Ops, op{K: "a_close"})
			aClosed = true
		}
		// a wait right behind most state changes: that is where the interesting bits are
		if r.Bool(0.5) && !aClosed {
			sc.Ops = append(sc.Ops, op{K: "wait"})
		}
	}
	return sc
}

func diff(a, b []string) int {
	for i := 0; i < len(a) || i < len(b); i++ {
		if i >= len(a) || i >= len(b) || a[i] != b[i] {
			return i
		}
	}
	return -1
}

func envInt(k string, def int) int {
	if v, err := strconv.Atoi(os.Getenv(k)); err == nil {
		return v
	}
	return def
}

// TestConformance runs CONFORM_N generated scripts (seed CONFORM_SEED) against both kernels.
func TestConformance(t *testing.T) {
	n := envInt("CONFORM_N", 300)
	seed := uint64(envInt("CONFORM_SEED", 1))
	r := simrt.NewRand(seed)
	bad := 0
	classes := map[string]int{}
	for i := 0; i < n; i++ {
		sc := gen(r)
		model, herr := runSim(t, sc)
		if herr != "" {
			t.Fatalf("script %d: %s", i, herr)
		}
		real := runReal(sc, 300*time.Microsecond)
		d := diff(real, model)
		if d >= 0 {
			// rule out timing noise on the real side: once more, slowly
			real = runReal(sc, 5*time.Millisecond)
			d = diff(real, model)
		}
		if d >= 0 {
			bad++
			js, _ := json.Marshal(sc)
			rl, ml := "<end>", "<end>"
			if d < len(real) {
				rl = real[d]
			}
			if d < len(model) {
				ml = model[d]
			}
			cls := sc.Typ + "/" + sc.Mode + " real[" + after(rl) + "] model[" + after(ml) + "] at " + opAt(rl, ml)
			classes[cls]++
			if classes[cls] <= 2 {
				t.Logf("DISAGREE script %d %s\n  first difference at log line %d\n  real : %v\n  model: %v", i, js, d, real, model)
			}
		}
	}
	for c, k := range classes {
		t.Logf("class x%d: %s", k, c)
	}
	t.Logf("scripts=%d disagreements=%d", n, bad)
	if bad > 0 {
		t.Fail()
	}
}

func after(l string) string {
	if i := strings.Index(l, ": "); i >= 0 {
		return l[i+2:]
	}
	return l
}

func opAt(a, b string) string {
	l := a
	if l == "<end>" {
		l = b
	}
	if i := strings.Index(l, ": "); i >= 0 {
		l = l[:i]
	}
	if i := strings.Index(l, " "); i >= 0 {
		l = l[i+1:]
	}
	return l
}

// ---------------------------------------------------------------------------------------
// fixed scripts: non-blocking connect (what Engine.DialAsync meets), eventfd (the pollers'
// wake-up descriptor), calls on descriptors that are not registered / not open

type fixedBE interface {
	// connectNB starts a non-blocking TCP connect to a listening (true) or closed (false) port and
	// registers the descriptor for IN|OUT|RDHUP in the given mode before it; returns the errno.
	connectNB(listening bool, mode string) string
	waitMask() string
	soError() string
	writeOne() string
	readOne() string
	eventfdScript() []string
	ctlErrors() []string
	udpScript(mode string) []string
}

func fixedScript(be fixedBE, listening bool, mode string) []string {
	var log []string
	log = append(log, "connect: "+be.connectNB(listening, mode))
	log = append(log, "wait: "+be.waitMask())
	log = append(log, "wait: "+be.waitMask())
	log = append(log, "so_error: "+be.soError())
	if listening {
		log = append(log, "write: "+be.writeOne())
		log = append(log, "read: "+be.readOne())
	} else {
		// after SO_ERROR was taken; the exact errno Linux gives (EPIPE / ECONNREFUSED) is
		// outside what the model claims: only success vs failure is compared
		w := be.writeOne()
		if w != "ok" {
			w = "fails"
		}
		log = append(log, "write: "+w)
	}
	return log
}

type realFixed struct{ fd, ep, ln int }

func (r *realFixed) connectNB(listening bool, mode string) string {
	l, e := syscall.Socket(syscall.AF_INET, syscall.SOCK_STREAM, 0)
	must(e)
	must(syscall.Bind(l, &syscall.SockaddrInet4{Addr: [4]byte{127, 0, 0, 1}}))
	sa, e := syscall.Getsockname(l)
	must(e)
	if listening {
		must(syscall.Listen(l, 8))
		r.ln = l
	} else {
		syscall.Close(l) // bound but never listening, now closed: connects are refused
		r.ln = -1
	}
	fd, e := syscall.Socket(syscall.AF_INET, syscall.SOCK_STREAM|syscall.SOCK_NONBLOCK, 0)
	must(e)
	r.fd = fd
	r.ep, e = syscall.EpollCreate1(0)
	must(e)
	err := syscall.Connect(fd, sa)
	must(syscall.EpollCtl(r.ep, 1, fd, &syscall.EpollEvent{Events: in | out | rdhup | modeBits(mode), Fd: int32(fd)}))
	time.Sleep(2 * time.Millisecond)
	return errStr(err)
}
func (r *realFixed) waitMask() string {
	evs := make([]syscall.EpollEvent, 4)
	n, e := syscall.EpollWait(r.ep, evs, 0)
	if e != nil || n == 0 {
		return "none"
	}
	return maskStr(evs[0].Events)
}
func (r *realFixed) soError() string {
	v, e := syscall.GetsockoptInt(r.fd, syscall.SOL_SOCKET, syscall.SO_ERROR)
	if e != nil {
		return errStr(e)
	}
	if v == 0 {
		return "ok"
	}
	return errStr(syscall.Errno(v))
}
func (r *realFixed) writeOne() string { _, e := syscall.Write(r.fd, []byte("x")); return errStr(e) }
func (r *realFixed) readOne() string {
	_, e := syscall.Read(r.fd, make([]byte, 1))
	return errStr(e)
}
func (r *realFixed) close() {
	syscall.Close(r.fd)
	syscall.Close(r.ep)
	if r.ln >= 0 {
		syscall.Close(r.ln)
	}
}
func (r *realFixed) eventfdScript() []string {
	var log []string
	r0, _, e0 := syscall.Syscall(syscall.SYS_EVENTFD2, 0, syscall.O_NONBLOCK, 0)
	if e0 != 0 {
		panic(e0)
	}
	efd := int(r0)
	ep, _ := syscall.EpollCreate1(0)
	defer syscall.Close(efd)
	defer syscall.Close(ep)
	w := func() string {
		evs := make([]syscall.EpollEvent, 4)
		n, _ := syscall.EpollWait(ep, evs, 0)
		if n == 0 {
			return "none"
		}
		return maskStr(evs[0].Events)
	}
	log = append(log, "add: "+errStr(syscall.EpollCtl(ep, 1, efd, &syscall.EpollEvent{Events: in, Fd: int32(efd)})))
	log = append(log, "wait: "+w())
	one := []byte{1, 0, 0, 0, 0, 0, 0, 0}
	_, e := syscall.Write(efd, one)
	log = append(log, "write: "+errStr(e))
	_, e = syscall.Write(efd, one)
	log = append(log, "write: "+errStr(e))
	log = append(log, "wait: "+w())
	log = append(log, "wait: "+w())
	buf := make([]byte, 8)
	n, e := syscall.Read(efd, buf)
	log = append(log, fmt.Sprintf("read: n=%d v=%d %s", n, buf[0], errStr(e)))
	log = append(log, "wait: "+w())
	_, e = syscall.Read(efd, buf)
	log = append(log, "read: "+errStr(e))
	return log
}
func (r *realFixed) ctlErrors() []string {
	var log []string
	p, _ := syscall.Socketpair(syscall.AF_UNIX, syscall.SOCK_STREAM, 0)
	ep, _ := syscall.EpollCreate1(0)
	defer syscall.Close(ep)
	defer syscall.Close(p[1])
	ev := &syscall.EpollEvent{Events: in, Fd: int32(p[0])}
	log = append(log, "mod-unregistered: "+errStr(syscall.EpollCtl(ep, 3, p[0], ev)))
	log = append(log, "del-unregistered: "+errStr(syscall.EpollCtl(ep, 2, p[0], ev)))
	log = append(log, "add: "+errStr(syscall.EpollCtl(ep, 1, p[0], ev)))
	log = append(log, "add-again: "+errStr(syscall.EpollCtl(ep, 1, p[0], ev)))
	d, _ := syscall.Dup(p[0])
	syscall.Write(p[1], []byte("x"))
	syscall.Close(p[0])
	// the registration lives as long as the open file description: the duplicate keeps it
	evs := make([]syscall.EpollEvent, 4)
	n, _ := syscall.EpollWait(ep, evs, 0)
	log = append(log, fmt.Sprintf("wait-after-close-of-registered-number-with-dup-alive: %d", n))
	syscall.Close(d)
	n, _ = syscall.EpollWait(ep, evs, 0)
	log = append(log, fmt.Sprintf("wait-after-last-close: %d", n))
	log = append(log, "mod-closed: "+errStr(syscall.EpollCtl(ep, 3, 987, ev)))
	_, e := syscall.Read(987, make([]byte, 1))
	log = append(log, "read-closed: "+errStr(e))
	_, e = syscall.Write(987, make([]byte, 1))
	log = append(log, "write-closed: "+errStr(e))
	return log
}

func (r *realFixed) udpScript(mode string) []string {
	var log []string
	a, e := syscall.Socket(syscall.AF_INET, syscall.SOCK_DGRAM|syscall.SOCK_NONBLOCK, 0)
	must(e)
	defer syscall.Close(a)
	must(syscall.Bind(a, &syscall.SockaddrInet4{Addr: [4]byte{127, 0, 0, 1}}))
	sa, _ := syscall.Getsockname(a)
	b, e := syscall.Socket(syscall.AF_INET, syscall.SOCK_DGRAM, 0)
	must(e)
	defer syscall.Close(b)
	ep, _ := syscall.EpollCreate1(0)
	defer syscall.Close(ep)
	must(syscall.EpollCtl(ep, 1, a, &syscall.EpollEvent{Events: in | modeBits(mode), Fd: int32(a)}))
	w := func() string {
		time.Sleep(time.Millisecond)
		evs := make([]syscall.EpollEvent, 4)
		n, _ := syscall.EpollWait(ep, evs, 0)
		if n == 0 {
			return "none"
		}
		return maskStr(evs[0].Events)
	}
	rd := func(n int) string {
		buf := make([]byte, n)
		k, _, e := syscall.Recvfrom(a, buf, 0)
		if e != nil {
			return errStr(e)
		}
		return fmt.Sprintf("n=%d %q", k, buf[:k])
	}
	log = append(log, "wait: "+w())
	for _, d := range []string{"abc", "", "defgh"} {
		must(syscall.Sendto(b, []byte(d), 0, sa))
	}
	log = append(log, "wait: "+w(), "recv2: "+rd(2), "recv100: "+rd(100), "wait: "+w(), "recv100: "+rd(100), "recv100: "+rd(100), "wait: "+w())
	must(syscall.Sendto(b, []byte("z"), 0, sa))
	log = append(log, "wait: "+w(), "wait: "+w(), "recv100: "+rd(100))
	return log
}

type simFixed struct {
	k      *kernel.Kernel
	fd, ep int
}

func (s *simFixed) connectNB(listening bool, mode string) string {
	s.k = kernel.Install(kernel.DefaultParams())
	addr := &kernel.Addr{Net: "tcp", IP: [4]byte{127, 0, 0, 1}, Port: 5555}
	if listening {
		_, err := s.k.Listen(addr)
		must(err)
	}
	fd, err := s.k.Socket(kernel.TCP)
	must(err)
	s.fd = fd
	s.ep, err = s.k.EpollCreate()
	must(err)
	cerr := s.k.Connect(fd, addr)
	must(s.k.EpollCtl(s.ep, 1, fd, in|out|rdhup|modeBits(mode), int32(fd)))
	simrt.Idle()
	return errStr(cerr)
}
func (s *simFixed) waitMask() string {
	evs, e := s.k.EpollWait(s.ep, 4, 0)
	if e != nil || len(evs) == 0 {
		return "none"
	}
	return maskStr(evs[0].Events)
}
func (s *simFixed) soError() string {
	if e := s.k.SockOf(s.fd).TakeError(); e != 0 {
		return errStr(e)
	}
	return "ok"
}
func (s *simFixed) writeOne() string { _, e := s.k.Write(s.fd, []byte("x")); return errStr(e) }
func (s *simFixed) readOne() string  { _, e := s.k.Read(s.fd, make([]byte, 1)); return errStr(e) }
func (s *simFixed) eventfdScript() []string {
	var log []string
	k := kernel.Install(kernel.DefaultParams())
	efd, _ := k.EventFD()
	ep, _ := k.EpollCreate()
	w := func() string {
		evs, _ := k.EpollWait(ep, 4, 0)
		if len(evs) == 0 {
			return "none"
		}
		return maskStr(evs[0].Events)
	}
	log = append(log, "add: "+errStr(k.EpollCtl(ep, 1, efd, in, int32(efd))))
	log = append(log, "wait: "+w())
	one := []byte{1, 0, 0, 0, 0, 0, 0, 0}
	_, e := k.Write(efd, one)
	log = append(log, "write: "+errStr(e))
	_, e = k.Write(efd, one)
	log = append(log, "write: "+errStr(e))
	log = append(log, "wait: "+w())
	log = append(log, "wait: "+w())
	buf := make([]byte, 8)
	n, e := k.Read(efd, buf)
	log = append(log, fmt.Sprintf("read: n=%d v=%d %s", n, buf[0], errStr(e)))
	log = append(log, "wait: "+w())
	_, e = k.Read(efd, buf)
	log = append(log, "read: "+errStr(e))
	return log
}
func (s *simFixed) ctlErrors() []string {
	var log []string
	k := kernel.Install(kernel.DefaultParams())
	addr := &kernel.Addr{Net: "unix", Name: "@x"}
	ln, _ := k.Listen(addr)
	b := k.NewPeer(kernel.UNIX)
	must(k.ConnectPeer(b, addr))
	a, _ := k.FDFor(ln.Accept())
	ep, _ := k.EpollCreate()
	log = append(log, "mod-unregistered: "+errStr(k.EpollCtl(ep, 3, a, in, int32(a))))
	log = append(log, "del-unregistered: "+errStr(k.EpollCtl(ep, 2, a, in, int32(a))))
	log = append(log, "add: "+errStr(k.EpollCtl(ep, 1, a, in, int32(a))))
	log = append(log, "add-again: "+errStr(k.EpollCtl(ep, 1, a, in, int32(a))))
	d, _ := k.Dup(a)
	b.PeerWrite([]byte("x"))
	k.Close(a)
	evs, _ := k.EpollWait(ep, 4, 0)
	log = append(log, fmt.Sprintf("wait-after-close-of-registered-number-with-dup-alive: %d", len(evs)))
	k.Close(d)
	evs, _ = k.EpollWait(ep, 4, 0)
	log = append(log, fmt.Sprintf("wait-after-last-close: %d", len(evs)))
	log = append(log, "mod-closed: "+errStr(k.EpollCtl(ep, 3, 1987, in, 0)))
	_, e := k.Read(1987, make([]byte, 1))
	log = append(log, "read-closed: "+errStr(e))
	_, e = k.Write(1987, make([]byte, 1))
	log = append(log, "write-closed: "+errStr(e))
	return log
}

func (s *simFixed) udpScript(mode string) []string {
	var log []string
	k := kernel.Install(kernel.DefaultParams())
	a, err := k.Socket(kernel.UDP)
	must(err)
	addr := &kernel.Addr{Net: "udp", IP: [4]byte{127, 0, 0, 1}, Port: 7777}
	if e := k.BindDgram(k.SockOf(a), addr); e != 0 {
		panic(e)
	}
	b := k.NewPeer(kernel.UDP)
	ep, _ := k.EpollCreate()
	must(k.EpollCtl(ep, 1, a, in|modeBits(mode), int32(a)))
	w := func() string {
		simrt.Idle()
		evs, _ := k.EpollWait(ep, 4, 0)
		if len(evs) == 0 {
			return "none"
		}
		return maskStr(evs[0].Events)
	}
	rd := func(n int) string {
		buf := make([]byte, n)
		c, _, e := k.Recvfrom(a, buf)
		if e != nil {
			return errStr(e)
		}
		return fmt.Sprintf("n=%d %q", c, buf[:c])
	}
	log = append(log, "wait: "+w())
	for _, d := range []string{"abc", "", "defgh"} {
		k.PeerSendTo(b, []byte(d), addr)
	}
	log = append(log, "wait: "+w(), "recv2: "+rd(2), "recv100: "+rd(100), "wait: "+w(), "recv100: "+rd(100), "recv100: "+rd(100), "wait: "+w())
	k.PeerSendTo(b, []byte("z"), addr)
	log = append(log, "wait: "+w(), "wait: "+w(), "recv100: "+rd(100))
	return log
}

func TestConformanceFixed(t *testing.T) {
	cmp := func(name string, real, model []string) {
		if d := diff(real, model); d >= 0 {
			t.Errorf("DISAGREE %s at line %d\n  real : %q\n  model: %q", name, d, real, model)
		} else {
			t.Logf("agree %s: %q", name, real)
		}
	}
	for _, mode := range []string{"LT", "ET", "ONESHOT"} {
		for _, listening := range []bool{true, false} {
			r := &realFixed{}
			real := fixedScript(r, listening, mode)
			r.close()
			var model []string
			simrt.Run(t, simrt.Config{Seed: 1, Strategy: simrt.StratRandom, Stick: 1}, func() {
				model = fixedScript(&simFixed{}, listening, mode)
				simrt.Finish()
			})
			cmp(fmt.Sprintf("connect listening=%v %s", listening, mode), real, model)
		}
	}
	var model []string
	simrt.Run(t, simrt.Config{Seed: 1, Strategy: simrt.StratRandom, Stick: 1}, func() {
		model = (&simFixed{}).eventfdScript()
		simrt.Finish()
	})
	cmp("eventfd", (&realFixed{}).eventfdScript(), model)
	simrt.Run(t, simrt.Config{Seed: 1, Strategy: simrt.StratRandom, Stick: 1}, func() {
		model = (&simFixed{}).ctlErrors()
		simrt.Finish()
	})
	cmp("descriptor errors", (&realFixed{}).ctlErrors(), model)
	for _, mode := range []string{"LT", "ET", "ONESHOT"} {
		simrt.Run(t, simrt.Config{Seed: 1, Strategy: simrt.StratRandom, Stick: 1}, func() {
			model = (&simFixed{}).udpScript(mode)
			simrt.Finish()
		})
		cmp("udp "+mode, (&realFixed{}).udpScript(mode), model)
	}
}
