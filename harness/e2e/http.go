// Package e2e is the world "e2e": nbhttp.Engine (+ websocket upgrader) as transformed real
// code on the simulated kernel, with raw simulated clients as peers.
package e2e

import (
	"bufio"
	"bytes"
	"fmt"
	"io"
	"net/http"
	"os"
	"strings"
	"testing"
	"time"

	ltls "github.com/lesismal/llib/std/crypto/tls"
	"github.com/lesismal/nbio"
	"github.com/lesismal/nbio/logging"
	"github.com/lesismal/nbio/mempool"
	"github.com/lesismal/nbio/nbhttp"

	"verif/harness/common"
	"verif/harness/core"
	"verif/harness/stream"
	"verif/sim/kernel"
	simrt "verif/sim/rt"
	ssync "verif/sim/shim/sync"
)

func init() {
	nbio.MaxOpenFiles = kernel.FDLimit
}

// ReqPlan is one request of a client connection.
type ReqPlan struct {
	Proto   string `json:"proto"`              // HTTP/1.0 | HTTP/1.1
	Conn    string `json:"conn,omitempty"`     // Connection header
	Body    int    `json:"body,omitempty"`     // request body length
	Chunked bool   `json:"chunked,omitempty"`  // request body chunked (1.1)
	Resp    int    `json:"resp"`               // response body length
	SleepUs int    `json:"sleep_us,omitempty"` // handler sleeps (simulated time)
	Flush   bool   `json:"flush,omitempty"`    // handler flushes in the middle of the body
	Yields  int    `json:"yields,omitempty"`
	SplitCL bool   `json:"split_cl,omitempty"` // handler announces Content-Length, then writes a few bytes and the rest separately
	// File: the body comes from a file (a real one, keyed content): "copyn" Content-Length +
	// io.CopyN(w, f, n) (what http.ServeContent does: ReadFrom with an io.LimitedReader),
	// "copy" Content-Length + io.Copy(w, f) to the end of the file (ReadFrom with the *os.File),
	// "nolen" io.Copy(w, f) without an announced length.
	File string `json:"file,omitempty"`
}

// fileBody is what a File response must carry: the last (copy, nolen) or the first (copyn)
// n bytes of the keyed file.
func fileBody(rp ReqPlan) (off int64, data []byte) {
	if rp.File != "copyn" {
		off = int64(core.TempFileSize - rp.Resp)
	}
	data = make([]byte, rp.Resp)
	for i := range data {
		data[i] = core.FileByte(off + int64(i))
	}
	return off, data
}

// respBody is the body the answer to request id must carry.
func respBody(id string, rp ReqPlan) []byte {
	if rp.File != "" {
		_, data := fileBody(rp)
		return data
	}
	return keyed(id+"/resp", rp.Resp)
}

// ClientPlan is one client connection.
type ClientPlan struct {
	Reqs     []ReqPlan `json:"reqs"`
	Pipeline int       `json:"pipeline"`           // requests written before the client starts waiting for answers
	Piece    int       `json:"piece"`              // client write size (segmentation of the request stream)
	BadTail  bool      `json:"bad_tail,omitempty"` // after its requests the client sends a malformed request immediately followed by a valid one
}

// HTTPCase is a case of C10.
type HTTPCase struct {
	Sched       common.Sched  `json:"sched"`
	K           kernel.Params `json:"kernel"`
	IOMod       string        `json:"iomod"` // nonblocking | blocking | mixed
	Mode        string        `json:"mode"`  // LT | ET | ONESHOT
	NPoller     int           `json:"npoller"`
	Pool        int           `json:"pool"` // MessageHandlerPoolSize (0: inline executor)
	MaxBlocking int           `json:"max_blocking,omitempty"`
	Conns       []ClientPlan  `json:"conns"`
	Track       bool          `json:"track,omitempty"` // C11: ownership-tracking allocators instead of the real pools
	TLS         bool          `json:"tls,omitempty"`   // the server listens with TLS (llib, transformed); clients are crypto/tls clients
	Side        string        `json:"side,omitempty"`  // "" (server clauses) | client (client clause, see client.go)
	Cli         *CliPlan      `json:"cli,omitempty"`
}

func closes(rp ReqPlan) bool {
	c := strings.ToLower(rp.Conn)
	if c == "close" {
		return true
	}
	return rp.Proto == "HTTP/1.0" && c != "keep-alive"
}

func genHTTPCase(r *simrt.Rand, tier string, idx int) *HTTPCase {
	c := genHTTPServerCase(r, tier)
	if idx%4 == 3 {
		genCliPlan(r, c)
	}
	return c
}

func genHTTPServerCase(r *simrt.Rand, tier string) *HTTPCase {
	c := &HTTPCase{Sched: common.GenSched(r, 300000)}
	c.Sched.TimeJumpMaxUs = 10000 // a stalled node, not an hour-long pause that lets idle timeouts fire mid-request
	c.K = kernel.DefaultParams()
	c.K.SndCap = r.Pick(64, 1024, 4096, 65536, 262144)
	c.K.InstantNet = r.Bool(0.5)
	c.K.ShortWrite = r.PickF(0, 0.05, 0.2)
	c.K.ShortRead = r.PickF(0, 0.05, 0.2)
	c.K.WaitSubset = r.PickF(0, 0.3)
	c.K.FDReuse = r.Bool(0.7)
	c.IOMod = r.PickS("nonblocking", "nonblocking", "blocking", "mixed")
	c.Mode = r.PickS("LT", "ET", "ONESHOT")
	c.NPoller = r.Pick(1, 2)
	c.Pool = r.Pick(0, 2, 4)
	c.MaxBlocking = r.Pick(1, 2)
	c.TLS = r.Bool(0.2)
	nc := r.Range(1, 4)
	for i := 0; i < nc; i++ {
		cp := ClientPlan{Pipeline: r.Pick(1, 1, 2, 4), Piece: r.Pick(1, 7, 64, 100000)}
		nr := r.Range(1, 4)
		for j := 0; j < nr; j++ {
			rp := ReqPlan{Proto: r.PickS("HTTP/1.1", "HTTP/1.1", "HTTP/1.0"), Resp: r.Pick(0, 1, 100, 1000, 4096, 65535, 65536, 70000)}
			rp.Conn = r.PickS("", "", "keep-alive")
			if j == nr-1 {
				rp.Conn = r.PickS("", "close", "keep-alive", "")
			} else if rp.Proto == "HTTP/1.0" {
				rp.Conn = "keep-alive"
			}
			if r.Bool(0.4) {
				rp.Body = r.Pick(1, 100, 4096, 20000)
				rp.Chunked = rp.Proto == "HTTP/1.1" && r.Bool(0.4)
			}
			if c.K.SndCap < 1024 && rp.Resp > 5000 {
				rp.Resp = 5000
			}
			if r.Bool(0.2) {
				rp.SleepUs = r.Pick(1, 100)
			}
			rp.Flush = r.Bool(0.15)
			if rp.Proto == "HTTP/1.0" && j < nr-1 {
				// an early flush makes an HTTP/1.0 response close-delimited: the server closes, and a
				// client that writes its next request into that close only tests the reset race
				rp.Flush = false
			}
			rp.Yields = r.Pick(0, 0, 2)
			if c.TLS && cp.Piece < 7 {
				cp.Piece = 7 // one TLS record per piece
			}
			rp.SplitCL = !rp.Flush && rp.Resp > 16 && r.Bool(0.25)
			if !rp.Flush && !rp.SplitCL && rp.Resp > 0 && r.Bool(0.12) {
				rp.File = r.PickS("copyn", "copy", "nolen")
			}
			cp.Reqs = append(cp.Reqs, rp)
		}
		// (not behind an exchange that closes the connection: writing into that close only
		// provokes a reset that destroys the answer still in flight)
		last := cp.Reqs[len(cp.Reqs)-1]
		cp.BadTail = r.Bool(0.15) && !closes(last) && last.Proto == "HTTP/1.1"
		c.Conns = append(c.Conns, cp)
	}
	return c
}

func shrinkHTTP(ci interface{}) []interface{} {
	c := ci.(*HTTPCase)
	if c.Side == "client" {
		return shrinkCli(c)
	}
	cp := func() *HTTPCase {
		x := *c
		x.Conns = nil
		for _, cn := range c.Conns {
			cn.Reqs = append([]ReqPlan(nil), cn.Reqs...)
			x.Conns = append(x.Conns, cn)
		}
		return &x
	}
	var out []interface{}
	for i := range c.Conns {
		if len(c.Conns) > 1 {
			x := cp()
			x.Conns = append(x.Conns[:i], x.Conns[i+1:]...)
			out = append(out, x)
		}
	}
	for i, cn := range c.Conns {
		for j := range cn.Reqs {
			if len(cn.Reqs) > 1 {
				x := cp()
				x.Conns[i].Reqs = append(x.Conns[i].Reqs[:j], x.Conns[i].Reqs[j+1:]...)
				out = append(out, x)
			}
		}
		for j, rp := range cn.Reqs {
			simple := ReqPlan{Proto: rp.Proto, Conn: rp.Conn, Resp: rp.Resp}
			if rp != simple {
				x := cp()
				x.Conns[i].Reqs[j] = simple
				out = append(out, x)
			}
			if rp.Resp > 1 {
				x := cp()
				x.Conns[i].Reqs[j].Resp = rp.Resp / 2
				out = append(out, x)
			}
		}
		if cn.Piece != 100000 {
			x := cp()
			x.Conns[i].Piece = 100000
			out = append(out, x)
		}
		if cn.Pipeline != 1 {
			x := cp()
			x.Conns[i].Pipeline = 1
			out = append(out, x)
		}
	}
	k := c.K
	try := func(f func(p *kernel.Params)) {
		x := cp()
		f(&x.K)
		if x.K != k {
			out = append(out, x)
		}
	}
	try(func(p *kernel.Params) { p.ShortWrite = 0 })
	try(func(p *kernel.Params) { p.ShortRead = 0 })
	try(func(p *kernel.Params) { p.WaitSubset = 0 })
	try(func(p *kernel.Params) { p.InstantNet = true })
	if c.NPoller > 1 {
		x := cp()
		x.NPoller = 1
		out = append(out, x)
	}
	if c.Pool != 0 {
		x := cp()
		x.Pool = 0
		out = append(out, x)
	}
	for _, s := range common.ShrinkScheds(c.Sched) {
		x := cp()
		x.Sched = s
		out = append(out, x)
	}
	return out
}

type quietLogger struct{ errs *[]string }

func (q quietLogger) SetLevel(int)                 {}
func (q quietLogger) Debug(string, ...interface{}) {}
func (q quietLogger) Info(string, ...interface{})  {}
func (q quietLogger) Warn(string, ...interface{})  {}
func (q quietLogger) Error(f string, a ...interface{}) {
	if len(*q.errs) < 10 {
		*q.errs = append(*q.errs, fmt.Sprintf(f, a...))
	}
}

func keyed(id string, n int) []byte {
	h := uint32(2166136261)
	for i := 0; i < len(id); i++ {
		h = (h ^ uint32(id[i])) * 16777619
	}
	b := make([]byte, n)
	for i := range b {
		x := uint32(i)*2654435761 + h
		x ^= x >> 13
		b[i] = "abcdefghijklmnopqrstuvwxyz0123456789"[x%36]
	}
	return b
}

// newEngine builds the nbhttp engine of a run.
func newEngine(iomod, mode string, npoller, pool, maxBlocking int, handler http.Handler) *nbhttp.Engine {
	conf := nbhttp.Config{Name: "sim", Network: "tcp", Addrs: []string{"127.0.0.1:8080"}, NPoller: npoller, Handler: handler,
		KeepaliveTime: time.Hour, SupportServerOnly: true, ReadBufferSize: 4096, BlockingReadBufferSize: 512,
		MaxBlockingOnline: maxBlocking}
	switch iomod {
	case "blocking":
		conf.IOMod = nbhttp.IOModBlocking
	case "mixed":
		conf.IOMod = nbhttp.IOModMixed
	default:
		conf.IOMod = nbhttp.IOModNonBlocking
	}
	switch mode {
	case "ET":
		conf.EpollMod = nbio.EPOLLET
	case "ONESHOT":
		conf.EpollMod = nbio.EPOLLET
		conf.EPOLLONESHOT = nbio.EPOLLONESHOT
	}
	if pool <= 0 {
		conf.ServerExecutor = func(f func()) { f() }
	} else {
		conf.MessageHandlerPoolSize = pool
	}
	if trackBody != nil {
		conf.BodyAllocator = trackBody
	}
	if tlsOn {
		cert, err := ltls.X509KeyPair([]byte(simCertPEM), []byte(simKeyPEM))
		if err != nil {
			panic("sim certificate: " + err.Error())
		}
		conf.Addrs = nil
		conf.AddrsTLS = []string{"127.0.0.1:8443"}
		conf.TLSConfig = &ltls.Config{Certificates: []ltls.Certificate{cert}}
	}
	if iomod == "std" {
		// the engine only lends its pools and timers: connections come from a std-style server
		conf.Addrs = nil
		conf.IOMod = nbhttp.IOModBlocking
	}
	nbio.MaxOpenFiles = kernel.FDLimit // (a package variable: a core run of the same worker process may have lowered it)
	return nbhttp.NewEngine(conf)
}

// trackBody, when set, is the body allocator of the engines newEngine builds (C11 runs).
var trackBody mempool.Allocator

// tlsOn makes newEngine build a TLS server (127.0.0.1:8443, the fixed certificate of tlscert.go).
var tlsOn bool

// tracking installs ownership-tracking allocators for one run and returns the function
// that removes them and reports what they saw.
func tracking(on bool) func(o *common.Outcome, prop string) {
	if !on {
		return func(*common.Outcome, string) {}
	}
	pool := stream.NewTracker("mempool.DefaultMemPool", false)
	body := stream.NewTracker("BodyAllocator", false)
	old := mempool.DefaultMemPool
	mempool.DefaultMemPool = pool
	trackBody = body
	return func(o *common.Outcome, prop string) {
		mempool.DefaultMemPool = old
		trackBody = nil
		v := append(pool.Finish(), body.Finish()...)
		o.ProbeN("buffers_freed", pool.Frees+body.Frees)
		if len(v) == 0 {
			return
		}
		if prop == "C11" {
			if o.V == nil || o.V.Oracle != "buffer-ownership" {
				o.V = nil
				o.Fail("buffer-ownership", stream.OwnershipClass(v[0]), "%s", v[0])
			}
		} else {
			o.Probe("other_property_oracle_fired:C11:buffer-ownership")
		}
	}
}

type clientState struct {
	plan    ClientPlan
	p       *peer
	recvd   []byte
	eof     bool
	reset   bool
	written int // requests fully written
}

func runHTTP(t *testing.T, ci interface{}, trace bool) *common.Outcome {
	return runHTTPAs(t, ci, trace, "C10")
}

func runHTTPAs(t *testing.T, ci interface{}, trace bool, prop string) *common.Outcome {
	c := ci.(*HTTPCase)
	if c.Side == "client" {
		untrack := tracking(c.Track)
		o := runHTTPClient(t, c, trace)
		untrack(o, prop)
		return o
	}
	untrack := tracking(c.Track)
	o := runHTTPServer(t, c, trace)
	untrack(o, prop)
	return o
}

func runHTTPServer(t *testing.T, c *HTTPCase, trace bool) *common.Outcome {
	o := &common.Outcome{}
	var logs []string
	var k *kernel.Kernel
	concurrent := 0
	res := simrt.Run(t, c.Sched.Config(trace), func() {
		defer simrt.Finish()
		ssync.PoolMode = c.Sched.PoolMode
		k = kernel.Install(c.K)
		logging.SetLogger(quietLogger{&logs})
		inHandler := map[string]int{}
		served := map[string]int{}
		fail := func(oracle, class, format string, a ...interface{}) {
			o.Fail(oracle, class, format, a...)
			if simrt.Tracing() {
				simrt.Logf("VIOLATION %s/%s: %s", oracle, class, fmt.Sprintf(format, a...))
			}
			simrt.Finish()
		}
		class := c.IOMod + "/" + c.Mode
		active := 0
		handler := http.HandlerFunc(func(w http.ResponseWriter, r *http.Request) {
			id := r.Header.Get("X-Id")
			connID := id
			if i := strings.Index(id, "-"); i > 0 {
				connID = id[:i]
			}
			inHandler[connID]++
			active++
			if active > concurrent {
				concurrent = active
			}
			if inHandler[connID] > 1 {
				fail("handlers-overlap", class, "two handlers of connection %s ran at the same time (request %s)", connID, id)
			}
			served[id]++
			body, _ := io.ReadAll(r.Body)
			var rp ReqPlan
			var ci, ri int
			fmt.Sscanf(id, "c%d-r%d", &ci, &ri)
			if ci < len(c.Conns) && ri < len(c.Conns[ci].Reqs) {
				rp = c.Conns[ci].Reqs[ri]
			}
			if !bytes.Equal(body, keyed(id+"/req", rp.Body)) {
				fail("request-body-differs", class, "handler of request %s got a body of %d bytes that differs from what the client sent (%d bytes): foreign or corrupted bytes", id, len(body), rp.Body)
			}
			for y := 0; y < rp.Yields; y++ {
				simrt.Yield()
			}
			if rp.SleepUs > 0 {
				simrt.Sleep(time.Duration(rp.SleepUs) * time.Microsecond)
			}
			w.Header().Set("X-Id", id)
			data := respBody(id, rp)
			if rp.File != "" {
				f, err := core.OpenTempFile()
				if err != nil {
					o.Infra = "temp file: " + err.Error()
					simrt.Finish()
				}
				off, _ := fileBody(rp)
				f.Seek(off, 0)
				if rp.File != "nolen" {
					w.Header().Set("Content-Length", fmt.Sprint(rp.Resp))
				}
				if rp.File == "copyn" {
					io.CopyN(w, f, int64(rp.Resp))
				} else {
					io.Copy(w, f)
				}
				f.Close()
				o.Probe("response_body_from_file_" + rp.File)
			} else if rp.SplitCL && len(data) > 16 {
				w.Header().Set("Content-Length", fmt.Sprint(len(data)))
				w.Write(data[:10])
				for y := 0; y < rp.Yields; y++ {
					simrt.Yield()
				}
				w.Write(data[10:])
			} else if rp.Flush && len(data) > 1 {
				w.Write(data[:len(data)/2])
				if f, ok := w.(http.Flusher); ok {
					f.Flush()
				}
				w.Write(data[len(data)/2:])
			} else {
				w.Write(data)
			}
			active--
			inHandler[connID]--
		})
		tlsOn = c.TLS
		eng := newEngine(c.IOMod, c.Mode, c.NPoller, c.Pool, c.MaxBlocking, handler)
		tlsOn = false
		reported := map[string]int{} // requests the engine reported (OnRequest hook), by id
		eng.OnRequest = func(w http.ResponseWriter, r *http.Request) { reported[r.Header.Get("X-Id")]++ }
		if err := eng.Start(); err != nil {
			o.Infra = "engine start: " + err.Error()
			return
		}
		addr := &kernel.Addr{Net: "tcp", IP: [4]byte{127, 0, 0, 1}, Port: 8080}
		clients := make([]*clientState, len(c.Conns))
		done := 0
		for i, plan := range c.Conns {
			i, plan := i, plan
			cs := &clientState{plan: plan}
			clients[i] = cs
			if !c.TLS {
				p, err := dialPeer(k, addr)
				if err != nil {
					o.Infra = "client connect: " + err.Error()
					return
				}
				cs.p = p
			}
			reader := func() {
				simrt.GoNamed(fmt.Sprintf("client%d-reader", i), func() {
					simrt.MarkDaemon()
					for {
						b, err := cs.p.read()
						if err != nil {
							cs.eof = true
							cs.reset = cs.p.wasReset()
							return
						}
						cs.recvd = append(cs.recvd, b...)
					}
				})
			}
			if !c.TLS {
				reader()
			}
			// writer
			simrt.GoNamed(fmt.Sprintf("client%d", i), func() {
				defer func() { done++ }()
				if c.TLS {
					p, err := dialTLSPeer(k, "127.0.0.1:8443")
					if err != nil {
						fail("tls-handshake-failed", class, "client %d: TLS handshake with the server failed: %v", i, err)
						return
					}
					cs.p = p
					reader()
				}
				for j, rp := range plan.Reqs {
					id := fmt.Sprintf("c%d-r%d", i, j)
					var b strings.Builder
					fmt.Fprintf(&b, "POST /x %s\r\nHost: sim\r\nX-Id: %s\r\n", rp.Proto, id)
					if rp.Conn != "" {
						fmt.Fprintf(&b, "Connection: %s\r\n", rp.Conn)
					}
					body := keyed(id+"/req", rp.Body)
					if rp.Chunked {
						b.WriteString("Transfer-Encoding: chunked\r\n\r\n")
						half := len(body) / 2
						if half > 0 {
							fmt.Fprintf(&b, "%x\r\n%s\r\n", half, body[:half])
						}
						if len(body)-half > 0 {
							fmt.Fprintf(&b, "%x\r\n%s\r\n", len(body)-half, body[half:])
						}
						b.WriteString("0\r\n\r\n")
					} else {
						fmt.Fprintf(&b, "Content-Length: %d\r\n\r\n%s", len(body), body)
					}
					if !cs.p.write([]byte(b.String()), plan.Piece) {
						return
					}
					cs.written = j + 1
					// pipelining window: wait until all but (Pipeline-1) earlier requests are answered
					if plan.Pipeline <= 1 || (j+1)%plan.Pipeline == 0 {
						want := j + 1
						simrt.WaitStuck("client-await", 2*time.Second, func() bool { return countResponses(cs.recvd) >= want || cs.eof })
					}
				}
				if last := plan.Reqs[len(plan.Reqs)-1]; plan.BadTail && !closes(last) && last.Proto == "HTTP/1.1" {
					// C08 end to end: once the parser has reported an error nothing further is
					// reported for the connection - not even a valid request that arrived in the
					// same read (over TLS: in the next record of the same read)
					want := len(plan.Reqs)
					simrt.WaitStuck("client-await-all", 2*time.Second, func() bool { return countResponses(cs.recvd) >= want || cs.eof })
					// (malformed from its first byte, so that the parser fails at a message boundary:
					// whatever follows would parse as a fresh message if it were looked at)
					bad := []byte("\x01\x02 / HTTP/1.1\r\nHost: sim\r\n\r\n")
					good := []byte(fmt.Sprintf("POST /x HTTP/1.1\r\nHost: sim\r\nX-Id: c%d-after\r\nContent-Length: 0\r\n\r\n", i))
					if c.TLS {
						cs.p.write(bad, 0)
						cs.p.write(good, 0)
					} else {
						cs.p.write(append(bad, good...), 0)
					}
				}
			})
		}
		simrt.WaitStuck("clients-done", 5*time.Second, func() bool { return done == len(c.Conns) })
		simrt.SetFair(true)
		k.Fair = true
		simrt.Quiesce(5 * time.Second)
		// ---- judge every connection ------------------------------------------------------------
		for i, cs := range clients {
			br := bufio.NewReader(bytes.NewReader(cs.recvd))
			closedExpected := false
			for j, rp := range cs.plan.Reqs {
				id := fmt.Sprintf("c%d-r%d", i, j)
				if j >= cs.written {
					break
				}
				if closedExpected {
					break // requests pipelined behind a closing exchange are legitimately dropped
				}
				resp, err := http.ReadResponse(br, &http.Request{Method: "POST"})
				if err != nil {
					fail("response-missing", class, "connection %d: request %s (%d of %d written) got no well-formed answer by quiescence: %v (received %d bytes so far, eof=%v reset=%v, handler ran %d times); goroutines: %v", i, id, j+1, cs.written, err, len(cs.recvd), cs.eof, cs.reset, served[id], simrt.Alive())
					return
				}
				body, err := io.ReadAll(resp.Body)
				if err != nil {
					fail("response-truncated", class, "connection %d: answer to %s is incomplete: %v (%d body bytes of %d)", i, id, err, len(body), rp.Resp)
					return
				}
				if got := resp.Header.Get("X-Id"); got != id {
					if strings.HasPrefix(got, fmt.Sprintf("c%d-", i)) {
						fail("responses-out-of-order", class, "connection %d: answer %d carries id %s, expected %s", i, j, got, id)
					} else {
						fail("response-on-wrong-connection", class, "connection %d received an answer with id %q (expected %s): bytes of another connection's response", i, got, id)
					}
					return
				}
				if !bytes.Equal(body, respBody(id, rp)) {
					fail("response-body-differs", class, "connection %d: body of the answer to %s differs (%d bytes, expected %d)", i, id, len(body), rp.Resp)
					return
				}
				if served[id] != 1 {
					fail("handler-count", class, "request %s was handled %d times", id, served[id])
					return
				}
				if resp.Proto != rp.Proto {
					fail("response-version", class, "request %s (%s) answered with %s", id, rp.Proto, resp.Proto)
				}
				if closes(rp) || (resp.ContentLength < 0 && len(resp.TransferEncoding) == 0) {
					closedExpected = true // the request asked for it, or the body is delimited by the close
				}
			}
			if after := fmt.Sprintf("c%d-after", i); reported[after] > 0 || served[after] > 0 {
				fail("request-reported-after-parse-error", class, "connection %d: a malformed request (control characters instead of a method) was followed by a valid one in the same write; the engine reported the valid one %d times (handler ran %d times) although parsing had failed before it", i, reported[after], served[after])
				return
			}
			if cs.plan.BadTail {
				// the answer to the malformed request (if any) and the close are not judged here
				continue
			}
			rest, _ := io.ReadAll(br)
			if len(rest) > 0 {
				fail("extra-bytes", class, "connection %d: %d bytes follow the last expected answer: %q", i, len(rest), head(rest, 60))
				return
			}
			if closedExpected && !cs.eof {
				fail("connection-not-closed", class, "connection %d: the last exchange required closing the connection but it is still open at quiescence", i)
				return
			}
			if !closedExpected && cs.eof && cs.written == len(cs.plan.Reqs) {
				fail("connection-closed-early", class, "connection %d: keep-alive exchange but the server closed the connection (reset=%v)", i, cs.reset)
				return
			}
		}
		stopped := false
		simrt.GoNamed("stopper", func() { eng.Stop(); stopped = true })
		if !simrt.WaitStuck("stop", 5*time.Second, func() bool { return stopped }) {
			o.Probe("other_property_oracle_fired:C18:nbhttp-stop-hang")
		}
	})
	o.Steps = res.Steps
	o.SimTime = res.SimTime
	o.LogHash = res.LogHash
	o.Finger = res.SchedHash
	o.Trace = res.Trace
	if k != nil {
		for kk, v := range k.Stats {
			if o.Faults == nil {
				o.Faults = map[string]int{}
			}
			o.Faults[kk] += v
		}
	}
	pipelined := false
	for _, cn := range c.Conns {
		if cn.Pipeline > 1 && len(cn.Reqs) > 1 {
			pipelined = true
		}
	}
	o.NonTrivial = len(c.Conns) >= 2 && pipelined
	if c.TLS {
		o.Probe("tls_run")
	}
	if res.HarnessErr != "" {
		o.Infra = res.HarnessErr
	}
	if len(res.Panics) > 0 {
		p0 := res.Panics[0]
		if strings.Contains(p0, "locked again by the goroutine that holds it") && strings.Contains(p0, "CloseAndClean") && strings.Contains(p0, "OnComplete") {
			o.Fail("self-deadlock", "inline-executor/close-during-handler", "%s", p0)
		} else {
			o.Fail("escaped-panic", "", "%s", p0)
		}
	}
	if res.BudgetHit {
		// (the run was cut off: what the unwinding goroutines report while the world is torn
		// down is no verdict)
		if o.V != nil {
			o.Probe("report_during_teardown_discarded")
			o.V = nil
		}
		o.Probe("inconclusive_step_budget_exhausted")
		o.NonTrivial = false
	}
	if res.Spin && o.V == nil {
		o.Fail("livelock", c.IOMod+"/"+c.Mode, "fair phase: 30000 steps without progress while goroutines kept running: %v", res.SpinWho)
	}
	if res.Deadlock && o.V == nil && o.Infra == "" {
		o.Infra = fmt.Sprintf("run ended without finishing: %v", res.Blocked)
	}
	for _, l := range logs {
		if strings.Contains(l, "failed:") && strings.Contains(l, "goroutine ") {
			o.Probe("recovered_panic_logged")
			if os.Getenv("VERIF_DEBUG_LOGS") != "" {
				fmt.Fprintf(os.Stderr, "LOGGED PANIC: %s\n", l)
			}
		}
	}
	return o
}

// countResponses counts complete responses in b (cheaply: via the reference parser).
func countResponses(b []byte) int {
	br := bufio.NewReader(bytes.NewReader(b))
	n := 0
	for {
		resp, err := http.ReadResponse(br, &http.Request{Method: "POST"})
		if err != nil {
			return n
		}
		if _, err := io.ReadAll(resp.Body); err != nil {
			return n
		}
		n++
	}
}

func head(b []byte, n int) string {
	if len(b) > n {
		b = b[:n]
	}
	return string(b)
}

// excludeHTTP implements the trigger exclusion of open known findings.
func excludeHTTP(ci interface{}, open map[string]bool) bool {
	c := ci.(*HTTPCase)
	if c.Side == "client" {
		return false
	}
	if open["S40"] && c.Pool == 0 && c.IOMod != "blocking" {
		for _, cn := range c.Conns {
			for _, rp := range cn.Reqs {
				if closes(rp) || (rp.Proto == "HTTP/1.0" && rp.Flush) {
					return true
				}
			}
		}
	}
	return false
}
