package e2e

import (
	"testing"

	"verif/harness/common"
	"verif/harness/core"
	"verif/harness/stream"
	simrt "verif/sim/rt"
)

var props = []*common.Prop{
	{ID: "C10", New: func() interface{} { return &HTTPCase{} },
		Gen:    func(r *simrt.Rand, tier string, idx int) interface{} { return genHTTPCase(r, tier, idx) },
		Run:    runHTTP,
		Shrink: shrinkHTTP, Exclude: excludeHTTP},
	common.Combine("C14",
		common.Part{Name: "server", Weight: 4, P: &common.Prop{ID: "C14", New: func() interface{} { return &WSCase{} },
			Gen:    func(r *simrt.Rand, tier string, idx int) interface{} { return genWSCase(r, tier) },
			Run:    runWS,
			Shrink: shrinkWS}},
		common.Part{Name: "dialer", Weight: 1, P: &common.Prop{ID: "C14", New: func() interface{} { return &WSDialCase{} },
			Gen:    func(r *simrt.Rand, tier string, idx int) interface{} { return genWSDialCase(r, tier) },
			Run:    runWSDial,
			Shrink: shrinkWSDial}}),
	{ID: "C11", New: func() interface{} { return &OwnE2E{} },
		Gen:    func(r *simrt.Rand, tier string, idx int) interface{} { return genOwnE2E(r, tier, idx) },
		Run:    runOwnE2E,
		Shrink: shrinkOwnE2E},
	common.Combine("C15",
		common.Part{Name: "frames", P: stream.LimProp(), Weight: 7},
		common.Part{Name: "readlimit", Weight: 1, P: &common.Prop{ID: "C15", New: func() interface{} { return &WSCase{} },
			Gen:    func(r *simrt.Rand, tier string, idx int) interface{} { return genWSLimitCase(r, tier) },
			Run:    runWSLimit,
			Shrink: shrinkWS}}),
	common.Combine("C16",
		common.Part{Name: "deadlines", P: core.Prop("C16"), Weight: 3},
		common.Part{Name: "keepalive", Weight: 1, P: &common.Prop{ID: "C16", New: func() interface{} { return &KACase{} },
			Gen:    func(r *simrt.Rand, tier string, idx int) interface{} { return genKACase(r, tier) },
			Run:    runKA,
			Shrink: shrinkKA}}),
	common.Combine("C05",
		common.Part{Name: "jobs", P: core.Prop("C05"), Weight: 7},
		common.Part{Name: "stop", Weight: 1, P: &common.Prop{ID: "C05", New: func() interface{} { return &HTTPStopCase{} },
			Gen:    func(r *simrt.Rand, tier string, idx int) interface{} { return genHTTPStopCase(r, tier) },
			Run:    runHTTPStopForJobs,
			Shrink: shrinkHTTPStop}}),
	common.Combine("C18",
		common.Part{Name: "core", P: core.Prop("C18"), Weight: 3},
		common.Part{Name: "http", Weight: 1, P: &common.Prop{ID: "C18", New: func() interface{} { return &HTTPStopCase{} },
			Gen:    func(r *simrt.Rand, tier string, idx int) interface{} { return genHTTPStopCase(r, tier) },
			Run:    runHTTPStop,
			Shrink: shrinkHTTPStop}}),
}

func TestWorker(t *testing.T) { common.WorkerMain(t, props) }
