package e2e

import (
	"testing"

	"verif/harness/common"
	simrt "verif/sim/rt"
)

var props = []*common.Prop{
	{ID: "C10", New: func() interface{} { return &HTTPCase{} },
		Gen:    func(r *simrt.Rand, tier string, idx int) interface{} { return genHTTPCase(r, tier, idx) },
		Run:    runHTTP,
		Shrink: shrinkHTTP, Exclude: excludeHTTP},
	{ID: "C14", New: func() interface{} { return &WSCase{} },
		Gen:    func(r *simrt.Rand, tier string, idx int) interface{} { return genWSCase(r, tier) },
		Run:    runWS,
		Shrink: shrinkWS},
	{ID: "C11", New: func() interface{} { return &OwnE2E{} },
		Gen:    func(r *simrt.Rand, tier string, idx int) interface{} { return genOwnE2E(r, tier, idx) },
		Run:    runOwnE2E,
		Shrink: shrinkOwnE2E},
}

func TestWorker(t *testing.T) { common.WorkerMain(t, props) }
