package e2e

// C16, keep-alive half: "Idle HTTP keep-alive connections and silent WebSocket connections are
// closed after the configured keep-alive time and not earlier."
//
// Clients follow a timed script on the simulated clock (requests / messages separated by
// gaps that stay well inside the keep-alive window), then fall silent. Oracles:
//   - never early: a connection must not be closed before (instant at which the client had
//     sent its last request or message) + keep-alive time. That instant precedes the server's
//     renewal, so the bound is sound whatever the scheduling.
//   - enforced: after the script the world runs (fair phase) for several keep-alive times; a
//     silent connection must have been closed by then - unless its keep-alive is switched off
//     (Upgrader.KeepaliveTime = 0), in which case it must still be open: the HTTP keep-alive
//     timer armed at accept must not survive the upgrade.

import (
	"bytes"
	"fmt"
	"net/http"
	"testing"
	"time"

	"github.com/lesismal/nbio/logging"
	"github.com/lesismal/nbio/nbhttp/websocket"

	"verif/harness/common"
	"verif/sim/kernel"
	simrt "verif/sim/rt"
	ssync "verif/sim/shim/sync"
)

// KAStep is one timed client action.
type KAStep struct {
	GapUs int    `json:"gap_us"` // silence before the action
	Act   string `json:"act"`    // req | msg | ping
}

// KAConn is one client connection.
type KAConn struct {
	Kind     string   `json:"kind"` // http | ws
	Transfer bool     `json:"transfer,omitempty"`
	Steps    []KAStep `json:"steps"`
}

// KACase is a case of the keep-alive half of C16.
type KACase struct {
	Sched   common.Sched  `json:"sched"`
	K       kernel.Params `json:"kernel"`
	IOMod   string        `json:"iomod"`
	Mode    string        `json:"mode"`
	NPoller int           `json:"npoller"`
	Pool    int           `json:"pool"`
	HTTPUs  int           `json:"http_keepalive_us"`
	WSUs    int           `json:"ws_keepalive_us"` // 0: switched off
	Conns   []KAConn      `json:"conns"`
	TLS     bool          `json:"tls,omitempty"`
}

func genKACase(r *simrt.Rand, tier string) *KACase {
	c := &KACase{Sched: common.GenSched(r, 300000)}
	c.Sched.TimeJumpMaxUs = 1000
	c.K = kernel.DefaultParams()
	c.K.InstantNet = r.Bool(0.5)
	c.K.ShortRead = r.PickF(0, 0.2)
	c.K.WaitSubset = r.PickF(0, 0.3)
	c.IOMod = r.PickS("nonblocking", "nonblocking", "blocking", "mixed")
	c.Mode = r.PickS("LT", "ET", "ONESHOT")
	c.NPoller = r.Pick(1, 2)
	c.Pool = r.Pick(2, 4)
	c.HTTPUs = r.Pick(20000, 50000, 200000)
	c.WSUs = r.Pick(0, 10000, 30000, 400000)
	c.TLS = r.Bool(0.2)
	n := r.Range(1, 3)
	for i := 0; i < n; i++ {
		cn := KAConn{Kind: r.PickS("http", "ws"), Transfer: r.Bool(0.4)}
		window := c.HTTPUs
		for j := 0; j < r.Range(0, 3); j++ {
			// an upgrade request counts as the first step of a ws connection; afterwards the
			// window is the websocket one
			if cn.Kind == "ws" && j > 0 {
				window = c.WSUs
				if window == 0 {
					window = 100000
				}
			}
			st := KAStep{GapUs: r.Pick(0, 1, window/10, window/3, window/2-1000), Act: "req"}
			if cn.Kind == "ws" && j > 0 {
				st.Act = r.PickS("msg", "msg", "ping")
			}
			if st.GapUs < 0 {
				st.GapUs = 0
			}
			cn.Steps = append(cn.Steps, st)
		}
		if cn.Kind == "ws" && len(cn.Steps) == 0 {
			cn.Steps = []KAStep{{Act: "req"}}
		}
		c.Conns = append(c.Conns, cn)
	}
	return c
}

func shrinkKA(ci interface{}) []interface{} {
	c := ci.(*KACase)
	cp := func() *KACase {
		x := *c
		x.Conns = nil
		for _, cn := range c.Conns {
			cn.Steps = append([]KAStep(nil), cn.Steps...)
			x.Conns = append(x.Conns, cn)
		}
		return &x
	}
	var out []interface{}
	for i := range c.Conns {
		if len(c.Conns) > 1 {
			x := cp()
			x.Conns = append(x.Conns[:i], x.Conns[i+1:]...)
			out = append(out, x)
		}
	}
	for i, cn := range c.Conns {
		min := 0
		if cn.Kind == "ws" {
			min = 1
		}
		if len(cn.Steps) > min {
			x := cp()
			x.Conns[i].Steps = x.Conns[i].Steps[:len(cn.Steps)-1]
			out = append(out, x)
		}
		for j, st := range cn.Steps {
			if st.GapUs != 0 {
				x := cp()
				x.Conns[i].Steps[j].GapUs = 0
				out = append(out, x)
			}
		}
	}
	if c.NPoller > 1 {
		x := cp()
		x.NPoller = 1
		out = append(out, x)
	}
	if c.TLS {
		x := cp()
		x.TLS = false
		out = append(out, x)
	}
	k := c.K
	try := func(f func(p *kernel.Params)) {
		x := cp()
		f(&x.K)
		if x.K != k {
			out = append(out, x)
		}
	}
	try(func(p *kernel.Params) { p.ShortRead = 0 })
	try(func(p *kernel.Params) { p.WaitSubset = 0 })
	try(func(p *kernel.Params) { p.InstantNet = true })
	for _, s := range common.ShrinkScheds(c.Sched) {
		x := cp()
		x.Sched = s
		out = append(out, x)
	}
	return out
}

func runKA(t *testing.T, ci interface{}, trace bool) *common.Outcome {
	c := ci.(*KACase)
	o := &common.Outcome{}
	var logs []string
	var k *kernel.Kernel
	res := simrt.Run(t, c.Sched.Config(trace), func() {
		defer simrt.Finish()
		ssync.PoolMode = c.Sched.PoolMode
		k = kernel.Install(c.K)
		logging.SetLogger(quietLogger{&logs})
		fail := func(oracle, cls, format string, a ...interface{}) {
			o.Fail(oracle, cls, format, a...)
			if simrt.Tracing() {
				simrt.Logf("VIOLATION %s/%s: %s", oracle, cls, fmt.Sprintf(format, a...))
			}
			simrt.Finish()
		}
		start := time.Now()
		httpK := time.Duration(c.HTTPUs) * time.Microsecond
		wsK := time.Duration(c.WSUs) * time.Microsecond
		u := websocket.NewUpgrader()
		u.KeepaliveTime = wsK
		u.OnMessage(func(wc *websocket.Conn, mt websocket.MessageType, data []byte) { wc.WriteMessage(mt, data) })
		handler := http.HandlerFunc(func(w http.ResponseWriter, r *http.Request) {
			var ci int
			fmt.Sscanf(r.Header.Get("X-Conn"), "%d", &ci)
			if ci >= 0 && ci < len(c.Conns) && c.Conns[ci].Kind == "ws" {
				if c.Conns[ci].Transfer && c.IOMod != "nonblocking" {
					u.UpgradeAndTransferConnToPoller(w, r, nil)
				} else {
					u.Upgrade(w, r, nil)
				}
				return
			}
			w.Write([]byte("ok"))
		})
		tlsOn = c.TLS
		eng := newEngine(c.IOMod, c.Mode, c.NPoller, c.Pool, 8, handler)
		tlsOn = false
		eng.KeepaliveTime = httpK
		u.Engine = eng
		if err := eng.Start(); err != nil {
			o.Infra = "engine start: " + err.Error()
			return
		}
		addr := &kernel.Addr{Net: "tcp", IP: [4]byte{127, 0, 0, 1}, Port: 8080}
		type cst struct {
			p        *peer
			recvd    []byte
			eof      bool
			eofAt    time.Time
			lastSent time.Time     // instant at which the last request / message had been sent
			window   time.Duration // keep-alive that applies after it (0: none)
			upgraded bool
			done     bool
		}
		conns := make([]*cst, len(c.Conns))
		finished := 0
		for i, plan := range c.Conns {
			i, plan := i, plan
			cs := &cst{window: httpK}
			conns[i] = cs
			if !c.TLS {
				pp, err := dialPeer(k, addr)
				if err != nil {
					o.Infra = "client connect: " + err.Error()
					return
				}
				cs.p = pp
			}
			cs.lastSent = time.Now()
			reader := func() {
				simrt.GoNamed(fmt.Sprintf("kaclient%d-reader", i), func() {
					simrt.MarkDaemon()
					for {
						b, err := cs.p.read()
						if err != nil {
							cs.eof, cs.eofAt = true, time.Now()
							return
						}
						cs.recvd = append(cs.recvd, b...)
					}
				})
			}
			if !c.TLS {
				reader()
			}
			simrt.GoNamed(fmt.Sprintf("kaclient%d", i), func() {
				defer func() { cs.done = true; finished++ }()
				if c.TLS {
					// the idle period starts with the connection: handshake traffic is not a
					// request, the reference instant is the connect (which precedes the accept)
					cs.lastSent = time.Now()
					pp, err := dialTLSPeer(k, "127.0.0.1:8443")
					if err != nil {
						fail("tls-handshake-failed", c.IOMod, "client %d: TLS handshake with the server failed: %v", i, err)
						return
					}
					cs.p = pp
					reader()
				}
				for _, st := range plan.Steps {
					if st.GapUs > 0 {
						simrt.Sleep(time.Duration(st.GapUs) * time.Microsecond)
					}
					if cs.eof {
						return
					}
					before := len(cs.recvd)
					switch {
					case st.Act == "req" && plan.Kind == "ws":
						cs.p.write([]byte(fmt.Sprintf("GET /ws HTTP/1.1\r\nHost: sim\r\nX-Conn: %d\r\nConnection: Upgrade\r\nUpgrade: websocket\r\nSec-WebSocket-Version: 13\r\nSec-WebSocket-Key: dGhlIHNhbXBsZSBub25jZQ==\r\n\r\n", i)), 0)
						cs.lastSent = time.Now()
						simrt.WaitStuck("await-101", time.Second, func() bool { return bytes.Contains(cs.recvd, []byte("\r\n\r\n")) || cs.eof })
						cs.upgraded = bytes.HasPrefix(cs.recvd, []byte("HTTP/1.1 101"))
						if cs.upgraded {
							cs.window = wsK
						}
					case st.Act == "req":
						cs.p.write([]byte(fmt.Sprintf("GET /x HTTP/1.1\r\nHost: sim\r\nX-Conn: %d\r\n\r\n", i)), 0)
						cs.lastSent = time.Now()
						simrt.WaitStuck("await-answer", time.Second, func() bool { return len(cs.recvd) > before && bytes.HasSuffix(cs.recvd, []byte("ok")) || cs.eof })
					case st.Act == "msg":
						cs.p.write([]byte{0x81, 0x82, 1, 2, 3, 4, 'h' ^ 1, 'i' ^ 2}, 0)
						cs.lastSent = time.Now()
						simrt.WaitStuck("await-echo", time.Second, func() bool { return len(cs.recvd) > before || cs.eof })
					case st.Act == "ping":
						cs.p.write([]byte{0x89, 0x80, 1, 2, 3, 4}, 0)
						cs.lastSent = time.Now()
						simrt.WaitStuck("await-pong", time.Second, func() bool { return len(cs.recvd) > before || cs.eof })
					}
				}
			})
		}
		maxK := httpK
		if wsK > maxK {
			maxK = wsK
		}
		simrt.WaitStuck("scripts-done", 10*maxK+time.Second, func() bool { return finished == len(c.Conns) })
		simrt.SetFair(true)
		k.Fair = true
		simrt.Quiesce(3*maxK + 10*time.Millisecond)
		for i, cs := range conns {
			kind := c.Conns[i].Kind
			if kind == "ws" && c.Conns[i].Transfer && c.IOMod != "nonblocking" {
				kind += "+transfer"
			}
			cls := c.IOMod + "/" + kind
			if cs.eof && (cs.window == 0 || cs.eofAt.Before(cs.lastSent.Add(cs.window))) {
				fail("keepalive-close-early", cls, "connection %d was closed at +%v; its last request/message had been sent at +%v and the keep-alive time that applies is %v (0 = switched off): closed %v early; http keep-alive %v, websocket keep-alive %v",
					i, cs.eofAt.Sub(start), cs.lastSent.Sub(start), cs.window, cs.lastSent.Add(cs.window).Sub(cs.eofAt), httpK, wsK)
				return
			}
			if !cs.eof && cs.window > 0 {
				fail("keepalive-not-enforced", cls, "connection %d has been silent since +%v, the keep-alive time is %v and the clock is at +%v, but it is still open", i, cs.lastSent.Sub(start), cs.window, time.Since(start))
				return
			}
		}
		stopped := false
		simrt.GoNamed("stopper", func() { eng.Stop(); stopped = true })
		if !simrt.WaitStuck("stop", 5*time.Second, func() bool { return stopped }) {
			o.Probe("other_property_oracle_fired:C18:nbhttp-stop-hang")
		}
	})
	o.Steps = res.Steps
	o.SimTime = res.SimTime
	o.LogHash = res.LogHash
	o.Finger = res.SchedHash
	o.Trace = res.Trace
	if k != nil {
		for kk, v := range k.Stats {
			if o.Faults == nil {
				o.Faults = map[string]int{}
			}
			o.Faults[kk] += v
		}
	}
	o.NonTrivial = false
	for _, cn := range c.Conns {
		if len(cn.Steps) >= 2 {
			o.NonTrivial = true
		}
	}
	if res.HarnessErr != "" {
		o.Infra = res.HarnessErr
	}
	if len(res.Panics) > 0 {
		o.Fail("escaped-panic", "keepalive", "%s", res.Panics[0])
	}
	if res.BudgetHit {
		// (the run was cut off: what the unwinding goroutines report while the world is torn
		// down is no verdict)
		if o.V != nil {
			o.Probe("report_during_teardown_discarded")
			o.V = nil
		}
		o.Probe("inconclusive_step_budget_exhausted")
		o.NonTrivial = false
	}
	if res.Spin && o.V == nil {
		o.Probe("inconclusive_spin")
	}
	if res.Deadlock && o.V == nil && o.Infra == "" {
		o.Infra = fmt.Sprintf("run ended without finishing: %v", res.Blocked)
	}
	return o
}
