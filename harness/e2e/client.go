package e2e

// C10, client clause: "the HTTP client invokes each request's callback exactly once, with the
// response belonging to that request or an error". nbhttp.Client / nbhttp.ClientConn (real,
// transformed code) talk to a scripted server on the simulated kernel. The server answers,
// stalls, closes, resets or sends garbage as the plan says; dial attempts fail as the plan says.

import (
	"bufio"
	"bytes"
	stls "crypto/tls"
	"errors"
	"fmt"
	"io"
	"net"
	"net/http"
	"os"
	"strings"
	"testing"
	"time"

	ltls "github.com/lesismal/llib/std/crypto/tls"
	"github.com/lesismal/nbio"
	"github.com/lesismal/nbio/logging"
	"github.com/lesismal/nbio/nbhttp"

	"verif/harness/common"
	"verif/sim/kernel"
	simrt "verif/sim/rt"
	snet "verif/sim/shim/net"
	ssync "verif/sim/shim/sync"
)

// CliReq is one request of the client scenario and what the scripted server does with it.
type CliReq struct {
	Resp    int    `json:"resp"`
	Chunked bool   `json:"chunked,omitempty"`
	DelayUs int    `json:"delay_us,omitempty"` // server waits this long (simulated) before answering
	Fault   string `json:"fault,omitempty"`    // "" | close | partial | garbage | stall
	Piece   int    `json:"piece"`              // server write size
	Wait    bool   `json:"wait,omitempty"`     // the caller waits for this request's callback before its next one
}

// CliPlan is the client scenario of an HTTPCase.
type CliPlan struct {
	API       string   `json:"api"` // client | clientconn
	MaxConns  int      `json:"max_conns,omitempty"`
	TimeoutUs int      `json:"timeout_us,omitempty"`
	IdleUs    int      `json:"idle_us,omitempty"`
	Callers   int      `json:"callers"`
	Reqs      []CliReq `json:"reqs"`
	DialFail  []int    `json:"dial_fail,omitempty"` // dial attempts (0-based) that fail
	Executor  string   `json:"executor,omitempty"`  // "" (default pool) | go
	TLS       bool     `json:"tls,omitempty"`       // https: the client side is llib's TLS (transformed), the scripted server crypto/tls
}

func genCliPlan(r *simrt.Rand, c *HTTPCase) {
	p := &CliPlan{API: r.PickS("client", "client", "clientconn"), MaxConns: r.Pick(1, 1, 2, 4), Callers: r.Pick(1, 2, 3),
		Executor: r.PickS("", "go")}
	if r.Bool(0.3) {
		p.TimeoutUs = r.Pick(500, 5000, 1000000)
	}
	if r.Bool(0.2) {
		p.IdleUs = r.Pick(100, 100000)
	}
	faulty := r.Bool(0.5)
	n := r.Range(1, 6)
	for i := 0; i < n; i++ {
		q := CliReq{Resp: r.Pick(0, 1, 100, 4096, 70000), Chunked: r.Bool(0.3), Piece: r.Pick(1, 7, 64, 100000), Wait: r.Bool(0.5)}
		if r.Bool(0.3) {
			q.DelayUs = r.Pick(1, 100, 1000, 10000)
		}
		if faulty && r.Bool(0.3) {
			q.Fault = r.PickS("close", "partial", "garbage", "stall")
		}
		if c.K.SndCap < 1024 && q.Resp > 5000 {
			q.Resp = 5000
		}
		p.Reqs = append(p.Reqs, q)
	}
	if faulty && r.Bool(0.4) {
		p.DialFail = append(p.DialFail, r.Intn(3))
	}
	p.TLS = r.Bool(0.2)
	c.Side = "client"
	c.Cli = p
	c.Conns = nil
	c.IOMod = "nonblocking"
}

func (p *CliPlan) faultFree() bool {
	if p.TimeoutUs != 0 || p.IdleUs != 0 || len(p.DialFail) > 0 {
		return false
	}
	for _, q := range p.Reqs {
		if q.Fault != "" {
			return false
		}
	}
	return true
}

func shrinkCli(c *HTTPCase) []interface{} {
	var out []interface{}
	cp := func() *HTTPCase {
		x := *c
		p := *c.Cli
		p.Reqs = append([]CliReq(nil), c.Cli.Reqs...)
		p.DialFail = append([]int(nil), c.Cli.DialFail...)
		x.Cli = &p
		return &x
	}
	for i := range c.Cli.Reqs {
		if len(c.Cli.Reqs) > 1 {
			x := cp()
			x.Cli.Reqs = append(x.Cli.Reqs[:i], x.Cli.Reqs[i+1:]...)
			out = append(out, x)
		}
	}
	for i, q := range c.Cli.Reqs {
		if q.Fault != "" {
			x := cp()
			x.Cli.Reqs[i].Fault = ""
			out = append(out, x)
		}
		if q.DelayUs != 0 {
			x := cp()
			x.Cli.Reqs[i].DelayUs = 0
			out = append(out, x)
		}
		if q.Resp > 1 {
			x := cp()
			x.Cli.Reqs[i].Resp = 1
			out = append(out, x)
		}
		if q.Chunked {
			x := cp()
			x.Cli.Reqs[i].Chunked = false
			out = append(out, x)
		}
		if q.Piece != 100000 {
			x := cp()
			x.Cli.Reqs[i].Piece = 100000
			out = append(out, x)
		}
	}
	if len(c.Cli.DialFail) > 0 {
		x := cp()
		x.Cli.DialFail = nil
		out = append(out, x)
	}
	if c.Cli.Callers > 1 {
		x := cp()
		x.Cli.Callers--
		out = append(out, x)
	}
	if c.Cli.TimeoutUs != 0 {
		x := cp()
		x.Cli.TimeoutUs = 0
		out = append(out, x)
	}
	if c.Cli.IdleUs != 0 {
		x := cp()
		x.Cli.IdleUs = 0
		out = append(out, x)
	}
	if c.Cli.MaxConns > 1 {
		x := cp()
		x.Cli.MaxConns = 1
		out = append(out, x)
	}
	try := func(f func(p *kernel.Params)) {
		x := cp()
		old := x.K
		f(&x.K)
		if x.K != old {
			out = append(out, x)
		}
	}
	try(func(p *kernel.Params) { p.ShortWrite = 0 })
	try(func(p *kernel.Params) { p.ShortRead = 0 })
	try(func(p *kernel.Params) { p.WaitSubset = 0 })
	try(func(p *kernel.Params) { p.InstantNet = true })
	if c.NPoller > 1 {
		x := cp()
		x.NPoller = 1
		out = append(out, x)
	}
	for _, s := range common.ShrinkScheds(c.Sched) {
		x := cp()
		x.Sched = s
		out = append(out, x)
	}
	return out
}

type cliReqState struct {
	plan    CliReq
	id      string
	issued  bool
	calls   int
	gotResp bool
	err     error
	served  int // times the scripted server saw it
}

func runHTTPClient(t *testing.T, c *HTTPCase, trace bool) *common.Outcome {
	o := &common.Outcome{}
	p := c.Cli
	var logs []string
	var k *kernel.Kernel
	class := p.API + "/" + c.Mode
	res := simrt.Run(t, c.Sched.Config(trace), func() {
		defer simrt.Finish()
		ssync.PoolMode = c.Sched.PoolMode
		k = kernel.Install(c.K)
		logging.SetLogger(quietLogger{&logs})
		fail := func(oracle, cls, format string, a ...interface{}) {
			o.Fail(oracle, cls, format, a...)
			if simrt.Tracing() {
				simrt.Logf("VIOLATION %s/%s: %s", oracle, cls, fmt.Sprintf(format, a...))
			}
			simrt.Finish()
		}
		reqs := make([]*cliReqState, len(p.Reqs))
		byID := map[string]*cliReqState{}
		for i, q := range p.Reqs {
			reqs[i] = &cliReqState{plan: q, id: fmt.Sprintf("q%d", i)}
			byID[reqs[i].id] = reqs[i]
		}
		// ---- scripted server ---------------------------------------------------------------------
		ln, err := snet.Listen("tcp", "127.0.0.1:8090")
		if err != nil {
			o.Infra = "listen: " + err.Error()
			return
		}
		var srvConns []net.Conn
		simrt.GoNamed("srv-accept", func() {
			simrt.MarkDaemon()
			for {
				conn, err := ln.Accept()
				if err != nil {
					return
				}
				srvConns = append(srvConns, conn)
				n := len(srvConns)
				simrt.GoNamed(fmt.Sprintf("srv-conn%d", n), func() {
					simrt.MarkDaemon()
					defer conn.Close()
					var rw net.Conn = conn
					if p.TLS {
						cert, err := stls.X509KeyPair([]byte(simCertPEM), []byte(simKeyPEM))
						if err != nil {
							return
						}
						// (one goroutine per connection reads and writes: nothing ever waits for one
						// of crypto/tls's real mutexes; writes are pumped all the same)
						// TLS 1.2 at most: llib's TLS 1.3 client does not get through a handshake with
						// the crypto/tls server of this Go release ("bad record MAC"), on real sockets
						// just the same - a matter of the dependency, noted in DESIGN.md 11.2
						tc := stls.Server(newPumpConn(conn), &stls.Config{Certificates: []stls.Certificate{cert}, MaxVersion: stls.VersionTLS12})
						if err := tc.Handshake(); err != nil {
							return
						}
						rw = tc
					}
					br := bufio.NewReader(rw)
					for {
						rq, err := http.ReadRequest(br)
						if err != nil {
							return
						}
						io.Copy(io.Discard, rq.Body)
						st := byID[rq.Header.Get("X-Id")]
						if st == nil {
							return
						}
						st.served++
						if st.plan.DelayUs > 0 {
							simrt.Sleep(time.Duration(st.plan.DelayUs) * time.Microsecond)
						}
						var b bytes.Buffer
						body := keyed(st.id+"/resp", st.plan.Resp)
						switch st.plan.Fault {
						case "close":
							return
						case "stall":
							simrt.WaitUntil("srv-stall", func() bool { return false })
							return
						case "garbage":
							b.WriteString("HTTP/1.1 two hundred OK\r\nContent-Length: x\r\n\r\n")
						default:
							fmt.Fprintf(&b, "HTTP/1.1 200 OK\r\nX-Id: %s\r\n", st.id)
							if st.plan.Chunked {
								b.WriteString("Transfer-Encoding: chunked\r\n\r\n")
								half := len(body) / 2
								if half > 0 {
									fmt.Fprintf(&b, "%x\r\n%s\r\n", half, body[:half])
								}
								if len(body)-half > 0 {
									fmt.Fprintf(&b, "%x\r\n%s\r\n", len(body)-half, body[half:])
								}
								b.WriteString("0\r\n\r\n")
							} else {
								fmt.Fprintf(&b, "Content-Length: %d\r\n\r\n%s", len(body), body)
							}
						}
						msg := b.Bytes()
						if st.plan.Fault == "partial" {
							msg = msg[:len(msg)/2]
						}
						for len(msg) > 0 {
							n := st.plan.Piece
							if n <= 0 || n > len(msg) {
								n = len(msg)
							}
							if _, err := rw.Write(msg[:n]); err != nil {
								return
							}
							msg = msg[n:]
						}
						if st.plan.Fault == "partial" || st.plan.Fault == "garbage" {
							return
						}
					}
				})
			}
		})
		// ---- engine and client -------------------------------------------------------------------
		conf := nbhttp.Config{Name: "simc", NPoller: c.NPoller, KeepaliveTime: time.Hour, ReadBufferSize: 4096}
		switch c.Mode {
		case "ET":
			conf.EpollMod = nbio.EPOLLET
		case "ONESHOT":
			conf.EpollMod = nbio.EPOLLET
			conf.EPOLLONESHOT = nbio.EPOLLONESHOT
		}
		if p.Executor == "go" {
			conf.ClientExecutor = func(f func()) { simrt.GoNamed("cli-exec", f) }
		}
		if c.Pool > 0 {
			conf.MessageHandlerPoolSize = c.Pool
		}
		if trackBody != nil {
			conf.BodyAllocator = trackBody
		}
		nbio.MaxOpenFiles = kernel.FDLimit // (a package variable: a core run of the same worker process may have lowered it)
		eng := nbhttp.NewEngine(conf)
		if err := eng.Start(); err != nil {
			o.Infra = "engine start: " + err.Error()
			return
		}
		dials := 0
		dial := func(network, addr string) (net.Conn, error) {
			n := dials
			dials++
			for _, f := range p.DialFail {
				if f == n {
					return nil, errors.New("sim: connection refused")
				}
			}
			return snet.Dial(network, addr)
		}
		timeout := time.Duration(p.TimeoutUs) * time.Microsecond
		idle := time.Duration(p.IdleUs) * time.Microsecond
		var cli *nbhttp.Client
		var cc *nbhttp.ClientConn
		var tlsConf *ltls.Config
		if p.TLS {
			tlsConf = &ltls.Config{InsecureSkipVerify: true}
		}
		if p.API == "client" {
			cli = &nbhttp.Client{Engine: eng, Timeout: timeout, MaxConnsPerHost: int32(p.MaxConns), IdleConnTimeout: idle, Dial: dial, TLSClientConfig: tlsConf}
		} else {
			cc = &nbhttp.ClientConn{Engine: eng, Timeout: timeout, IdleConnTimeout: idle, Dial: dial, TLSClientConfig: tlsConf}
		}
		callback := func(st *cliReqState) func(res *http.Response, conn net.Conn, err error) {
			return func(res *http.Response, conn net.Conn, err error) {
				st.calls++
				if st.calls > 1 {
					fail("callback-twice", class, "the callback of request %s was invoked %d times (this time res=%v err=%v; first time response=%v err=%v)", st.id, st.calls, res != nil, err, st.gotResp, st.err)
					return
				}
				st.err = err
				if err != nil && os.Getenv("VERIF_DEBUG_LOGS") != "" {
					fmt.Fprintf(os.Stderr, "CLIENT CALLBACK ERROR %s: %v\n", st.id, err)
				}
				if res == nil {
					if err == nil {
						fail("callback-without-outcome", class, "the callback of request %s got neither a response nor an error", st.id)
					}
					return
				}
				st.gotResp = true
				if p.TLS {
					o.Probe("client_tls_response_delivered")
				}
				got := res.Header.Get("X-Id")
				var body []byte
				if res.Body != nil {
					body, _ = io.ReadAll(res.Body)
				}
				if got != st.id {
					fail("foreign-response", class, "the callback of request %s was given the response to %q (%d body bytes)", st.id, got, len(body))
					return
				}
				if !bytes.Equal(body, keyed(st.id+"/resp", st.plan.Resp)) {
					fail("response-body-differs", class, "the callback of request %s got a body of %d bytes that differs from what the server sent (%d bytes)", st.id, len(body), st.plan.Resp)
				}
			}
		}
		done := 0
		for w := 0; w < p.Callers; w++ {
			w := w
			simrt.GoNamed(fmt.Sprintf("caller%d", w), func() {
				defer func() { done++ }()
				for i := w; i < len(reqs); i += p.Callers {
					st := reqs[i]
					scheme := "http"
					if p.TLS {
						scheme = "https"
					}
					rq, err := http.NewRequest("GET", scheme+"://127.0.0.1:8090/"+st.id, nil)
					if err != nil {
						o.Infra = err.Error()
						return
					}
					rq.Header.Set("X-Id", st.id)
					st.issued = true
					if cli != nil {
						cli.Do(rq, callback(st))
					} else {
						cc.Do(rq, callback(st))
					}
					if st.plan.Wait {
						simrt.WaitStuck("caller-await", 2*time.Second, func() bool { return st.calls > 0 })
					}
					simrt.Yield()
				}
			})
		}
		simrt.WaitStuck("callers-done", 5*time.Second, func() bool { return done == p.Callers })
		allCalled := func() bool {
			for _, st := range reqs {
				if st.issued && st.calls == 0 {
					return false
				}
			}
			return true
		}
		simrt.WaitStuck("callbacks", 3*time.Second, allCalled)
		if o.V == nil && p.faultFree() {
			// The property allows "an error" for any request, so a request that fails although
			// nothing went wrong is not a violation of it; it is counted (see DESIGN.md 11.2:
			// Timeout == 0 makes pipelined ClientConn requests and saturated Client pools fail).
			for _, st := range reqs {
				if st.issued && !st.gotResp {
					o.Probe("client_request_failed_in_fault_free_run")
					break
				}
			}
		}
		// everything still pending must be resolved by closing the client
		// (in a goroutine of its own: a Close that never returns must not take the verdict on
		// the callbacks with it)
		closed := false
		simrt.GoNamed("client-closer", func() {
			simrt.MarkDaemon()
			if cli != nil {
				cli.Close()
			} else {
				cc.Close()
			}
			closed = true
		})
		simrt.SetFair(true)
		k.Fair = true
		simrt.WaitStuck("client-close", 5*time.Second, func() bool { return closed })
		simrt.Quiesce(5 * time.Second)
		if !closed {
			o.Probe("client_close_did_not_return")
		}
		if o.V == nil {
			for _, st := range reqs {
				if st.issued && st.calls != 1 {
					fail("callback-missing", class, "request %s: callback invoked %d times by quiescence after the client was closed (server saw it %d times, fault=%q); goroutines: %v", st.id, st.calls, st.served, st.plan.Fault, simrt.Alive())
					return
				}
			}
		}
		ln.Close()
		for _, sc := range srvConns {
			sc.Close()
		}
		stopped := false
		simrt.GoNamed("stopper", func() { eng.Stop(); stopped = true })
		if !simrt.WaitStuck("stop", 5*time.Second, func() bool { return stopped }) {
			o.Probe("other_property_oracle_fired:C18:nbhttp-client-stop-hang")
		}
	})
	o.Steps = res.Steps
	o.SimTime = res.SimTime
	o.LogHash = res.LogHash
	o.Finger = res.SchedHash
	o.Trace = res.Trace
	if k != nil {
		for kk, v := range k.Stats {
			if o.Faults == nil {
				o.Faults = map[string]int{}
			}
			o.Faults[kk] += v
		}
	}
	o.NonTrivial = len(p.Reqs) >= 2
	o.Probe("client_side_run")
	if p.TLS {
		o.Probe("tls_run")
	}
	if res.HarnessErr != "" {
		o.Infra = res.HarnessErr
	}
	if len(res.Panics) > 0 {
		o.Fail("escaped-panic", "client", "%s", res.Panics[0])
	}
	if res.BudgetHit {
		// (the run was cut off: what the unwinding goroutines report while the world is torn
		// down is no verdict)
		if o.V != nil {
			o.Probe("report_during_teardown_discarded")
			o.V = nil
		}
		o.Probe("inconclusive_step_budget_exhausted")
		o.NonTrivial = false
	}
	if res.Spin && o.V == nil {
		o.Fail("livelock", "client/"+c.Mode, "fair phase: 30000 steps without progress while goroutines kept running: %v", res.SpinWho)
	}
	if res.Deadlock && o.V == nil && o.Infra == "" {
		o.Infra = fmt.Sprintf("run ended without finishing: %v", res.Blocked)
	}
	for _, l := range logs {
		if strings.Contains(l, "failed:") && strings.Contains(l, "goroutine ") {
			o.Probe("recovered_panic_logged")
			if os.Getenv("VERIF_DEBUG_LOGS") != "" {
				fmt.Fprintf(os.Stderr, "LOGGED PANIC: %s\n", l)
			}
		}
	}
	return o
}
