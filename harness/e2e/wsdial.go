package e2e

// C14, both ends nbio: connections made by websocket.Dialer (an nbhttp.ClientConn whose parser
// hands over to the WebSocket connection inside the response callback) against an nbhttp
// server with an Upgrader, on the simulated kernel. "For each WebSocket connection" includes
// the client's: its open callback completes before its first message callback even when the
// server's first messages arrive in the same segment as the 101, callbacks run one at a time,
// the close callback runs exactly once on both sides whichever side ends the connection, and
// messages written concurrently on either side arrive whole, once, in per-writer order.

import (
	"bytes"
	"fmt"
	"net/http"
	"strings"
	"testing"
	"time"

	ltls "github.com/lesismal/llib/std/crypto/tls"
	"github.com/lesismal/nbio"
	"github.com/lesismal/nbio/logging"
	"github.com/lesismal/nbio/nbhttp"
	"github.com/lesismal/nbio/nbhttp/websocket"

	"verif/harness/common"
	"verif/sim/kernel"
	simrt "verif/sim/rt"
	ssync "verif/sim/shim/sync"
)

// WSDialConn is one dialed connection.
type WSDialConn struct {
	Async         bool    `json:"async,omitempty"`     // Dial with a result handler instead of waiting for the result
	CliWriters    [][]int `json:"cli_writers"`         // client side: goroutines writing messages of these lengths
	SrvWriters    [][]int `json:"srv_writers"`         // server side: the same
	SrvOpenMsgs   int     `json:"srv_open,omitempty"`  // messages the server writes inside its open callback (they travel with the 101)
	CliOpenMsgs   int     `json:"cli_open,omitempty"`  // messages the client writes inside its open callback
	HandlerYields int     `json:"handler_yields,omitempty"`
	End           string  `json:"end"` // none | cli-close | srv-close | cli-closeframe | srv-closeframe | cli-early | srv-early
	EarlyAfter    int     `json:"early_after,omitempty"`
}

// WSDialCase is a case of the dialer part of C14.
type WSDialCase struct {
	Sched      common.Sched  `json:"sched"`
	K          kernel.Params `json:"kernel"`
	IOMod      string        `json:"iomod"` // server side: nonblocking | blocking
	Mode       string        `json:"mode"`
	NPoller    int           `json:"npoller"`
	Pool       int           `json:"pool"`
	SameEngine bool          `json:"same_engine,omitempty"` // the dialer uses the serving engine
	CliExec    string        `json:"cli_exec,omitempty"`    // "" engine default | go
	Compress   bool          `json:"compress,omitempty"`
	FrameMax   int           `json:"frame_max"`
	TLS        bool          `json:"tls,omitempty"`     // wss: llib TLS on both ends
	DialMs     int           `json:"dial_ms,omitempty"` // Dialer.DialTimeout (becomes the read deadline of the handshake)
	Conns      []WSDialConn  `json:"conns"`
}

func genWSDialCase(r *simrt.Rand, tier string) *WSDialCase {
	c := &WSDialCase{Sched: common.GenSched(r, 300000)}
	c.Sched.TimeJumpMaxUs = 10000
	c.K = kernel.DefaultParams()
	c.K.SndCap = r.Pick(256, 1024, 4096, 65536)
	c.K.InstantNet = r.Bool(0.5)
	c.K.ShortWrite = r.PickF(0, 0.05, 0.2)
	c.K.ShortRead = r.PickF(0, 0.05, 0.2)
	c.K.WaitSubset = r.PickF(0, 0.3)
	c.IOMod = r.PickS("nonblocking", "nonblocking", "blocking")
	c.Mode = r.PickS("LT", "ET", "ONESHOT")
	c.NPoller = r.Pick(1, 2)
	c.Pool = r.Pick(2, 4)
	c.SameEngine = c.IOMod == "nonblocking" && r.Bool(0.3)
	c.CliExec = r.PickS("", "", "go")
	c.Compress = r.Bool(0.3)
	c.FrameMax = r.Pick(0, 16, 100, 1000)
	c.DialMs = r.Pick(0, 0, 2000)
	c.TLS = r.Bool(0.2)
	lens := func() [][]int {
		var ws [][]int
		for w := 0; w < r.Pick(0, 1, 2, 3); w++ {
			var l []int
			for j := 0; j < r.Range(1, 3); j++ {
				l = append(l, r.Pick(1, 17, 126, 1001, 3000))
			}
			ws = append(ws, l)
		}
		return ws
	}
	for i := 0; i < r.Range(1, 3); i++ {
		p := WSDialConn{Async: r.Bool(0.4), CliWriters: lens(), SrvWriters: lens(), SrvOpenMsgs: r.Pick(0, 0, 1, 3), CliOpenMsgs: r.Pick(0, 0, 1, 2),
			HandlerYields: r.Pick(0, 1, 3), EarlyAfter: r.Pick(0, 1, 2)}
		p.End = r.PickS("none", "cli-close", "srv-close", "cli-closeframe", "srv-closeframe", "cli-early", "srv-early")
		if r.Bool(0.12) {
			// the application ends the connection inside its own open callback, which then goes on
			// for a moment: the close callback must still come, once
			p.End = r.PickS("cli-inopen", "srv-inopen")
		}
		c.Conns = append(c.Conns, p)
	}
	return c
}

func shrinkWSDial(ci interface{}) []interface{} {
	c := ci.(*WSDialCase)
	cpw := func(w [][]int) [][]int {
		var out [][]int
		for _, x := range w {
			out = append(out, append([]int(nil), x...))
		}
		return out
	}
	cp := func() *WSDialCase {
		x := *c
		x.Conns = nil
		for _, cn := range c.Conns {
			cn.CliWriters, cn.SrvWriters = cpw(cn.CliWriters), cpw(cn.SrvWriters)
			x.Conns = append(x.Conns, cn)
		}
		return &x
	}
	var out []interface{}
	for i := range c.Conns {
		if len(c.Conns) > 1 {
			x := cp()
			x.Conns = append(x.Conns[:i], x.Conns[i+1:]...)
			out = append(out, x)
		}
	}
	for i, cn := range c.Conns {
		for j := range cn.CliWriters {
			x := cp()
			x.Conns[i].CliWriters = append(x.Conns[i].CliWriters[:j], x.Conns[i].CliWriters[j+1:]...)
			out = append(out, x)
		}
		for j := range cn.SrvWriters {
			x := cp()
			x.Conns[i].SrvWriters = append(x.Conns[i].SrvWriters[:j], x.Conns[i].SrvWriters[j+1:]...)
			out = append(out, x)
		}
		if cn.SrvOpenMsgs+cn.CliOpenMsgs+cn.HandlerYields > 0 {
			x := cp()
			x.Conns[i].SrvOpenMsgs, x.Conns[i].CliOpenMsgs, x.Conns[i].HandlerYields = 0, 0, 0
			out = append(out, x)
		}
		if cn.End != "none" {
			x := cp()
			x.Conns[i].End = "none"
			out = append(out, x)
		}
		if cn.Async {
			x := cp()
			x.Conns[i].Async = false
			out = append(out, x)
		}
	}
	k := c.K
	try := func(f func(p *kernel.Params)) {
		x := cp()
		f(&x.K)
		if x.K != k {
			out = append(out, x)
		}
	}
	try(func(p *kernel.Params) { p.ShortWrite = 0 })
	try(func(p *kernel.Params) { p.ShortRead = 0 })
	try(func(p *kernel.Params) { p.WaitSubset = 0 })
	try(func(p *kernel.Params) { p.InstantNet = true })
	if c.NPoller > 1 {
		x := cp()
		x.NPoller = 1
		out = append(out, x)
	}
	if c.Compress {
		x := cp()
		x.Compress = false
		out = append(out, x)
	}
	if c.TLS {
		x := cp()
		x.TLS = false
		out = append(out, x)
	}
	if c.SameEngine {
		x := cp()
		x.SameEngine = false
		out = append(out, x)
	}
	if c.CliExec != "" || c.DialMs != 0 || c.FrameMax != 0 {
		x := cp()
		x.CliExec, x.DialMs, x.FrameMax = "", 0, 0
		out = append(out, x)
	}
	for _, s := range common.ShrinkScheds(c.Sched) {
		x := cp()
		x.Sched = s
		out = append(out, x)
	}
	return out
}

// wsEnd is one endpoint of a dialed connection as its callbacks see it.
type wsEnd struct {
	name        string // "client 0", "server 0"
	events      []string
	inCB        int
	opens       int
	closes      int
	got         []string // ids of the delivered messages, in delivery order
	wsc         *websocket.Conn
	wrote       map[string]bool // ids for which WriteMessage returned nil
	writersDone int
	closedByApp bool
}

type wsDialState struct {
	plan     WSDialConn
	cli, srv *wsEnd
	dialDone bool
	dialErr  error
	results  int // result notifications of an asynchronous Dial
}

func runWSDial(t *testing.T, ci interface{}, trace bool) *common.Outcome {
	c := ci.(*WSDialCase)
	o := &common.Outcome{}
	var logs []string
	var k *kernel.Kernel
	concurrent := false
	res := simrt.Run(t, c.Sched.Config(trace), func() {
		defer simrt.Finish()
		ssync.PoolMode = c.Sched.PoolMode
		k = kernel.Install(c.K)
		logging.SetLogger(quietLogger{&logs})
		class := "dial/" + c.IOMod + "/" + c.Mode
		fail := func(oracle, cls, format string, a ...interface{}) {
			o.Fail(oracle, cls, format, a...)
			if simrt.Tracing() {
				simrt.Logf("VIOLATION %s/%s: %s", oracle, cls, fmt.Sprintf(format, a...))
			}
			simrt.Finish()
		}
		conns := make([]*wsDialState, len(c.Conns))
		pending := 0 // writer and closer goroutines still running
		// hooks installs the callbacks of one endpoint on its own Upgrader (options).
		hooks := func(u *websocket.Upgrader, e *wsEnd, yields int, side string, onOpen func(wc *websocket.Conn)) {
			u.KeepaliveTime = time.Hour
			u.BlockingModSendQueueMaxSize = 0
			u.EnableCompression(c.Compress)
			u.OnOpen(func(wc *websocket.Conn) {
				e.wsc = wc
				e.opens++
				if e.opens > 1 {
					fail("open-twice", class+"/"+side, "%s: the open callback ran %d times", e.name, e.opens)
				}
				e.events = append(e.events, "open-start")
				e.inCB++
				wc.EnableWriteCompression(c.Compress)
				if onOpen != nil {
					onOpen(wc)
				}
				for y := 0; y < yields+1; y++ {
					simrt.Yield()
				}
				e.inCB--
				e.events = append(e.events, "open-end")
			})
			u.OnMessage(func(wc *websocket.Conn, mt websocket.MessageType, data []byte) {
				n := len(e.got)
				e.events = append(e.events, fmt.Sprintf("msg-start %d", n))
				if e.opens == 0 {
					fail("message-before-open", "dial/"+side, "%s: a message callback ran before the open callback had started; log: %v", e.name, e.events)
				}
				e.inCB++
				if e.inCB > 1 {
					if len(e.events) >= 2 && e.events[len(e.events)-2] == "open-start" {
						fail("message-before-open", "dial/"+side, "%s: message callback %d started while the open callback was still running; log: %v", e.name, n, e.events)
					}
					fail("callbacks-overlap", class+"/"+side, "%s: message callback %d started while another callback of the same connection was running; log: %v", e.name, n, e.events)
				}
				if e.closes > 0 {
					fail("message-after-close", class+"/"+side, "%s: message callback %d ran after the close callback; log: %v", e.name, n, e.events)
				}
				id := string(data)
				if p := strings.IndexByte(id, '|'); p > 0 {
					id = id[:p]
				}
				if !bytes.Equal(data, wsPayload(id, len(data))) {
					fail("frames-interleaved", class+"/"+side+"/content", "%s: delivered message %d (%d bytes, id %q) is not any single written message", e.name, n, len(data), head([]byte(id), 20))
				}
				e.got = append(e.got, id)
				for y := 0; y < yields; y++ {
					simrt.Yield()
				}
				e.inCB--
				e.events = append(e.events, fmt.Sprintf("msg-end %d", n))
			})
			u.OnClose(func(wc *websocket.Conn, err error) {
				e.closes++
				e.events = append(e.events, "close")
				if e.opens == 0 {
					fail("close-before-open", "dial/"+side, "%s: the close callback ran for a connection whose open callback has not run; log: %v", e.name, e.events)
				}
				if e.closes > 1 {
					fail("close-twice", class+"/"+side, "%s: the close callback ran %d times; log: %v", e.name, e.closes, e.events)
				}
				if e.inCB > 0 {
					if n := len(e.events); n >= 2 && e.events[n-2] == "open-start" {
						fail("close-before-open", "dial/"+side, "%s: the close callback ran while the open callback was still running; log: %v", e.name, e.events)
					}
					fail("callbacks-overlap", class+"/"+side+"/close", "%s: the close callback ran while a message callback of the same connection was running; log: %v", e.name, e.events)
				}
			})
		}
		// writers starts the concurrent application writers of one endpoint.
		writers := func(ci int, dir string, e *wsEnd, lens [][]int) {
			for wi, ls := range lens {
				wi, ls := wi, ls
				pending++
				simrt.GoNamed(fmt.Sprintf("ws-%s-writer%d.%d", dir, ci, wi), func() {
					defer func() { pending--; e.writersDone++ }()
					for j, n := range ls {
						id := fmt.Sprintf("c%d%sw%dm%d", ci, dir, wi, j)
						if len(id)+1 > n {
							n = len(id) + 1
						}
						if err := e.wsc.WriteMessage(websocket.BinaryMessage, wsPayload(id, n)); err == nil {
							e.wrote[id] = true
						}
					}
				})
			}
		}
		openMsgs := func(ci int, dir string, e *wsEnd, n int) func(wc *websocket.Conn) {
			return func(wc *websocket.Conn) {
				for j := 0; j < n; j++ {
					id := fmt.Sprintf("c%d%swom%d", ci, dir, j)
					if err := wc.WriteMessage(websocket.BinaryMessage, wsPayload(id, 40+j)); err == nil {
						e.wrote[id] = true
					}
				}
			}
		}
		srvUps := make([]*websocket.Upgrader, len(c.Conns))
		handler := http.HandlerFunc(func(w http.ResponseWriter, r *http.Request) {
			var ci int
			fmt.Sscanf(r.Header.Get("X-Conn"), "%d", &ci)
			if ci < 0 || ci >= len(conns) || conns[ci] == nil {
				fail("upgrade-failed", class, "request without a known X-Conn header: %q", r.Header.Get("X-Conn"))
				return
			}
			cs := conns[ci]
			if _, err := srvUps[ci].Upgrade(w, r, nil); err != nil {
				fail("upgrade-failed", class, "Upgrade returned %v", err)
				return
			}
			writers(ci, "S", cs.srv, cs.plan.SrvWriters)
		})
		tlsOn = c.TLS
		eng := newEngine(c.IOMod, c.Mode, c.NPoller, c.Pool, 4, handler)
		tlsOn = false
		eng.MaxWebsocketFramePayloadSize = c.FrameMax
		if c.FrameMax == 0 {
			eng.MaxWebsocketFramePayloadSize = 1 << 20
		}
		if c.CliExec == "go" && c.SameEngine {
			eng.ClientExecutor = func(f func()) { simrt.GoNamed("cli-exec", f) }
		}
		if err := eng.Start(); err != nil {
			o.Infra = "engine start: " + err.Error()
			return
		}
		ceng := eng
		if !c.SameEngine {
			conf := nbhttp.Config{Name: "simc", NPoller: c.NPoller, KeepaliveTime: time.Hour, ReadBufferSize: 4096, MessageHandlerPoolSize: c.Pool}
			switch c.Mode {
			case "ET":
				conf.EpollMod = nbio.EPOLLET
			case "ONESHOT":
				conf.EpollMod = nbio.EPOLLET
				conf.EPOLLONESHOT = nbio.EPOLLONESHOT
			}
			if c.CliExec == "go" {
				conf.ClientExecutor = func(f func()) { simrt.GoNamed("cli-exec", f) }
			}
			if trackBody != nil {
				conf.BodyAllocator = trackBody
			}
			nbio.MaxOpenFiles = kernel.FDLimit // (a package variable: a core run of the same worker process may have lowered it)
			ceng = nbhttp.NewEngine(conf)
			ceng.MaxWebsocketFramePayloadSize = eng.MaxWebsocketFramePayloadSize
			if err := ceng.Start(); err != nil {
				o.Infra = "client engine start: " + err.Error()
				return
			}
		}
		done := 0
		for i, plan := range c.Conns {
			i, plan := i, plan
			cs := &wsDialState{plan: plan,
				cli: &wsEnd{name: fmt.Sprintf("client %d", i), wrote: map[string]bool{}},
				srv: &wsEnd{name: fmt.Sprintf("server %d", i), wrote: map[string]bool{}}}
			conns[i] = cs
			su := websocket.NewUpgrader()
			su.Engine = eng
			closeIn := func(e *wsEnd, f func(wc *websocket.Conn)) func(wc *websocket.Conn) {
				return func(wc *websocket.Conn) {
					f(wc)
					e.closedByApp = true
					wc.Close()
				}
			}
			sOpen, cOpen := openMsgs(i, "S", cs.srv, plan.SrvOpenMsgs), openMsgs(i, "C", cs.cli, plan.CliOpenMsgs)
			switch plan.End {
			case "srv-inopen":
				sOpen = closeIn(cs.srv, sOpen)
			case "cli-inopen":
				cOpen = closeIn(cs.cli, cOpen)
			}
			hooks(su, cs.srv, plan.HandlerYields, "server", sOpen)
			srvUps[i] = su
			cu := websocket.NewUpgrader()
			cu.Engine = ceng
			hooks(cu, cs.cli, plan.HandlerYields, "client", cOpen)
			d := &websocket.Dialer{Engine: ceng, Upgrader: cu, DialTimeout: time.Duration(c.DialMs) * time.Millisecond}
			url := "ws://127.0.0.1:8080/ws"
			if c.TLS {
				url = "wss://127.0.0.1:8443/ws"
				d.TLSClientConfig = &ltls.Config{InsecureSkipVerify: true, MaxVersion: ltls.VersionTLS12} // (llib's TLS 1.3 client fails with "bad record MAC" on real sockets too, DESIGN 11.2)
			}
			if len(plan.CliWriters) >= 2 || len(plan.SrvWriters) >= 2 {
				concurrent = true
			}
			simrt.GoNamed(fmt.Sprintf("wsdial%d", i), func() {
				defer func() { done++ }()
				hdr := http.Header{"X-Conn": []string{fmt.Sprint(i)}}
				if plan.Async {
					d.Dial(url, hdr, func(wc *websocket.Conn, r *http.Response, err error) {
						cs.results++
						if cs.results > 1 {
							fail("dial-result-twice", class, "connection %d: the result handler of Dial ran %d times (now err=%v)", i, cs.results, err)
						}
						cs.dialErr = err
						if err == nil && wc != cs.cli.wsc {
							fail("dial-result-wrong-connection", class, "connection %d: the result handler of Dial was given a connection other than the one whose open callback ran", i)
						}
						cs.dialDone = true
					})
					if !simrt.WaitStuck("dial-result", 5*time.Second, func() bool { return cs.dialDone }) {
						fail("dial-result-missing", class, "connection %d: the result handler of an asynchronous Dial never ran (open callbacks: client %d, server %d)", i, cs.cli.opens, cs.srv.opens)
						return
					}
				} else {
					wc, _, err := d.Dial(url, hdr)
					cs.dialErr = err
					cs.dialDone = true
					if err == nil && wc != cs.cli.wsc {
						fail("dial-result-wrong-connection", class, "connection %d: Dial returned a connection other than the one whose open callback ran", i)
					}
				}
				if cs.dialErr != nil && c.DialMs > 0 && (cs.dialErr == nbhttp.ErrClientTimeout || cs.dialErr == nbio.ErrReadTimeout) {
					// (the simulated clock may jump; a handshake that runs into its own timeout is legal)
					o.Probe("dial_timed_out")
					cs.plan.End = "timeout"
					return
				}
				if cs.dialErr != nil && plan.End == "srv-inopen" {
					// the server ended the connection inside its open callback, i.e. while the upgrade
					// was still under way: the 101 may never have left. Only the server side is judged.
					o.Probe("dial_failed_because_server_closed_in_open")
					cs.plan.End = "timeout"
					if cs.srv.opens > 0 && !simrt.WaitStuck("srv-close", 3*time.Second, func() bool { return cs.srv.closes > 0 }) {
						fail("close-callback-count", class+"/server/srv-inopen", "server %d closed the connection inside its open callback but its close callback never ran; log: %v", i, cs.srv.events)
					}
					return
				}
				if cs.dialErr != nil {
					fail("dial-failed", class, "connection %d: Dial to a serving engine failed in a run without connection faults: %v", i, cs.dialErr)
					return
				}
				if cs.cli.opens != 1 || len(cs.cli.events) < 2 || cs.cli.events[1] != "open-end" {
					fail("open-not-first", class+"/client", "connection %d: Dial reported success but the client's open callback has not completed (ran %d times); log: %v", i, cs.cli.opens, cs.cli.events)
					return
				}
				writers(i, "C", cs.cli, plan.CliWriters)
				// how the connection ends
				total := func(ls [][]int, open int) int {
					n := open
					for _, l := range ls {
						n += len(l)
					}
					return n
				}
				toCli, toSrv := total(plan.SrvWriters, plan.SrvOpenMsgs), total(plan.CliWriters, plan.CliOpenMsgs)
				allThrough := func() bool {
					return cs.srv.wsc != nil && cs.cli.writersDone >= len(plan.CliWriters) && cs.srv.writersDone >= len(plan.SrvWriters) &&
						len(cs.cli.got) >= toCli && len(cs.srv.got) >= toSrv
				}
				closer := cs.cli
				if strings.HasPrefix(plan.End, "srv-") {
					closer = cs.srv
				}
				switch plan.End {
				case "none":
				case "cli-close", "srv-close", "cli-closeframe", "srv-closeframe":
					simrt.WaitStuck("all-through", 3*time.Second, allThrough)
					if closer.wsc == nil {
						return
					}
					closer.closedByApp = true
					if strings.HasSuffix(plan.End, "frame") {
						closer.wsc.WriteClose(1000, "bye")
					} else {
						closer.wsc.Close()
					}
				case "cli-early", "srv-early":
					simrt.WaitStuck("early-point", 10*time.Millisecond, func() bool {
						return cs.srv.wsc != nil && len(cs.cli.got)+len(cs.srv.got) >= plan.EarlyAfter
					})
					if closer.wsc == nil {
						return
					}
					closer.closedByApp = true
					closer.wsc.Close()
				}
			})
		}
		simrt.WaitStuck("dialers-done", 10*time.Second, func() bool { return done == len(c.Conns) })
		simrt.WaitStuck("writers-done", 5*time.Second, func() bool { return pending == 0 })
		simrt.SetFair(true)
		k.Fair = true
		simrt.Quiesce(5 * time.Second)
		if o.V != nil {
			return
		}
		// ---- judge ------------------------------------------------------------------------------
		for i, cs := range conns {
			o.ProbeN("dial_messages_delivered_to_client", len(cs.cli.got))
			o.ProbeN("dial_messages_delivered_to_server", len(cs.srv.got))
			o.ProbeN("dial_close_callbacks", cs.cli.closes+cs.srv.closes)
			if len(cs.cli.got) > 0 && strings.Contains(cs.cli.got[0], "wom") {
				o.Probe("dial_client_first_message_written_in_server_open_callback")
			}
			if cs.plan.End == "timeout" {
				continue
			}
			early := strings.HasSuffix(cs.plan.End, "-early") || strings.HasSuffix(cs.plan.End, "-inopen")
			for _, pair := range [][2]*wsEnd{{cs.cli, cs.srv}, {cs.srv, cs.cli}} {
				e, other := pair[0], pair[1]
				side := strings.Fields(e.name)[0]
				ev := e.events
				if len(ev) < 2 || ev[0] != "open-start" || ev[1] != "open-end" {
					fail("open-not-first", class+"/"+side, "%s: the open callback did not complete before the first other callback; log: %v", e.name, ev)
					return
				}
				for j := 2; j < len(ev); j++ {
					if ev[j] == "close" && j != len(ev)-1 {
						fail("callback-after-close", class+"/"+side, "%s: callbacks after the close callback; log: %v", e.name, ev)
						return
					}
				}
				// exactly once, in the order each writer wrote them, from the right connection
				next := map[string]int{}
				dir := "S"
				if side == "server" {
					dir = "C"
				}
				pfx := fmt.Sprintf("c%d%sw", i, dir)
				for _, id := range e.got {
					if !strings.HasPrefix(id, pfx) {
						fail("message-on-wrong-connection", class+"/"+side, "%s received message %s", e.name, id)
						return
					}
					var w string
					var m int
					rest := id[len(pfx):]
					p := strings.IndexByte(rest, 'm')
					if p < 0 {
						fail("frames-interleaved", class+"/"+side+"/content", "%s received a message with the unknown id %q", e.name, id)
						return
					}
					w = rest[:p]
					fmt.Sscanf(rest[p+1:], "%d", &m)
					if m != next[w] {
						what := "message-order-or-content"
						if m < next[w] {
							what = "written-message-duplicated"
						}
						fail(what, class+"/"+side, "%s: message %s was delivered where message %d of writer %s was due; delivered so far: %v", e.name, id, next[w], w, e.got)
						return
					}
					next[w]++
				}
				if !early {
					for id := range other.wrote {
						found := false
						for _, g := range e.got {
							if g == id {
								found = true
								break
							}
						}
						if !found {
							fail("written-message-lost", class+"/"+side, "%s: WriteMessage(%s) returned nil on the other side but the message was never delivered here (end: %s); log: %v", e.name, id, cs.plan.End, ev)
							return
						}
					}
				}
				wantClose := 1
				if cs.plan.End == "none" {
					wantClose = 0
				}
				if e.closes != wantClose {
					fail("close-callback-count", class+"/"+side+"/"+cs.plan.End, "%s: the connection ended by %q but the close callback ran %d times by quiescence; log: %v", e.name, cs.plan.End, e.closes, ev)
					return
				}
			}
		}
		stopped := false
		simrt.GoNamed("stopper", func() {
			if ceng != eng {
				ceng.Stop()
			}
			eng.Stop()
			stopped = true
		})
		if !simrt.WaitStuck("stop", 5*time.Second, func() bool { return stopped }) {
			o.Probe("other_property_oracle_fired:C18:nbhttp-stop-hang")
			return
		}
		for _, cs := range conns {
			for _, e := range []*wsEnd{cs.cli, cs.srv} {
				if e.closes > 1 {
					fail("close-twice", class, "%s: the close callback ran %d times (after Stop); log: %v", e.name, e.closes, e.events)
					return
				}
			}
		}
	})
	o.Steps = res.Steps
	o.SimTime = res.SimTime
	o.LogHash = res.LogHash
	o.Finger = res.SchedHash
	o.Trace = res.Trace
	if k != nil {
		for kk, v := range k.Stats {
			if o.Faults == nil {
				o.Faults = map[string]int{}
			}
			o.Faults[kk] += v
		}
	}
	o.NonTrivial = concurrent
	if c.TLS {
		o.Probe("tls_run")
	}
	if res.HarnessErr != "" {
		o.Infra = res.HarnessErr
	}
	if len(res.Panics) > 0 {
		o.Fail("escaped-panic", "", "%s", res.Panics[0])
	}
	if res.BudgetHit {
		// (the run was cut off: what the unwinding goroutines report while the world is torn
		// down is no verdict)
		if o.V != nil {
			o.Probe("report_during_teardown_discarded")
			o.V = nil
		}
		o.Probe("inconclusive_step_budget_exhausted")
		o.NonTrivial = false
	}
	if res.Spin && o.V == nil {
		o.Fail("livelock", "dial/"+c.IOMod+"/"+c.Mode, "fair phase: 30000 steps without progress while goroutines kept running: %v", res.SpinWho)
	}
	if res.Deadlock && o.V == nil && o.Infra == "" {
		o.Infra = fmt.Sprintf("run ended without finishing: %v", res.Blocked)
	}
	return o
}
