package e2e

// C18, HTTP engine half: nbhttp.Engine.Stop and Shutdown (live context) always return, close
// every managed connection (poller-driven, blocking, upgraded, transferred), stop listening
// and leave no goroutine, timer or descriptor behind - whatever the connections were doing.

import (
	"bytes"
	"context"
	"fmt"
	"net"
	"net/http"
	"strings"
	"testing"
	"time"

	"github.com/lesismal/nbio/logging"
	"github.com/lesismal/nbio/nbhttp/websocket"

	"verif/harness/common"
	"verif/sim/kernel"
	simrt "verif/sim/rt"
	ssync "verif/sim/shim/sync"
)

// StopConnPlan is one client connection of a stop scenario.
type StopConnPlan struct {
	Kind     string `json:"kind"`               // idle | keepalive | inflight | hangup (peer resets while its handler runs) | partial | ws | wsmsg
	Transfer bool   `json:"transfer,omitempty"` // ws: UpgradeAndTransferConnToPoller (blocking I/O mode)
	SleepUs  int    `json:"sleep_us,omitempty"` // inflight: the handler sleeps this long
}

// HTTPStopCase is a case of the HTTP half of C18.
type HTTPStopCase struct {
	Sched       common.Sched   `json:"sched"`
	K           kernel.Params  `json:"kernel"`
	IOMod       string         `json:"iomod"`
	Mode        string         `json:"mode"`
	NPoller     int            `json:"npoller"`
	Pool        int            `json:"pool"`
	MaxBlocking int            `json:"max_blocking"`
	Conns       []StopConnPlan `json:"conns"`
	Method      string         `json:"method"`         // stop | shutdown
	Early       int            `json:"early"`          // -1: after every client reached its state; k: as soon as k clients did
	Late        bool           `json:"late,omitempty"` // one more client connects while the stop is in progress
	TLS         bool           `json:"tls,omitempty"`  // TLS listener (llib, transformed), crypto/tls clients
}

func genHTTPStopCase(r *simrt.Rand, tier string) *HTTPStopCase {
	c := &HTTPStopCase{Sched: common.GenSched(r, 300000)}
	c.Sched.TimeJumpMaxUs = 10000
	c.K = kernel.DefaultParams()
	c.K.SndCap = r.Pick(1024, 4096, 65536)
	c.K.InstantNet = r.Bool(0.5)
	c.K.ShortRead = r.PickF(0, 0.2)
	c.K.WaitSubset = r.PickF(0, 0.3)
	c.K.FDReuse = r.Bool(0.7)
	c.IOMod = r.PickS("nonblocking", "blocking", "mixed")
	c.Mode = r.PickS("LT", "ET", "ONESHOT")
	c.NPoller = r.Pick(1, 2)
	c.Pool = r.Pick(2, 4)
	c.MaxBlocking = r.Pick(1, 2, 8)
	n := r.Range(0, 4)
	for i := 0; i < n; i++ {
		p := StopConnPlan{Kind: r.PickS("idle", "keepalive", "inflight", "partial", "ws", "ws", "wsmsg", "hangup")}
		p.Transfer = r.Bool(0.4)
		if p.Kind == "inflight" || p.Kind == "hangup" {
			p.SleepUs = r.Pick(10, 1000, 50000)
		}
		c.Conns = append(c.Conns, p)
	}
	c.Method = r.PickS("stop", "shutdown")
	c.Early = -1
	if n > 0 && r.Bool(0.5) {
		c.Early = r.Intn(n + 1)
	}
	c.Late = r.Bool(0.2)
	c.TLS = r.Bool(0.2)
	return c
}

func shrinkHTTPStop(ci interface{}) []interface{} {
	c := ci.(*HTTPStopCase)
	cp := func() *HTTPStopCase {
		x := *c
		x.Conns = append([]StopConnPlan(nil), c.Conns...)
		return &x
	}
	var out []interface{}
	for i := range c.Conns {
		x := cp()
		x.Conns = append(x.Conns[:i], x.Conns[i+1:]...)
		if x.Early > len(x.Conns) {
			x.Early = len(x.Conns)
		}
		out = append(out, x)
	}
	for i, p := range c.Conns {
		if p.Kind != "idle" {
			x := cp()
			x.Conns[i] = StopConnPlan{Kind: "idle"}
			out = append(out, x)
		}
	}
	if c.Early >= 0 {
		x := cp()
		x.Early = -1
		out = append(out, x)
	}
	if c.Late {
		x := cp()
		x.Late = false
		out = append(out, x)
	}
	if c.TLS {
		x := cp()
		x.TLS = false
		out = append(out, x)
	}
	if c.NPoller > 1 {
		x := cp()
		x.NPoller = 1
		out = append(out, x)
	}
	k := c.K
	try := func(f func(p *kernel.Params)) {
		x := cp()
		f(&x.K)
		if x.K != k {
			out = append(out, x)
		}
	}
	try(func(p *kernel.Params) { p.ShortRead = 0 })
	try(func(p *kernel.Params) { p.WaitSubset = 0 })
	try(func(p *kernel.Params) { p.InstantNet = true })
	for _, s := range common.ShrinkScheds(c.Sched) {
		x := cp()
		x.Sched = s
		out = append(out, x)
	}
	return out
}

func httpEngineGoroutine(desc string) bool {
	for _, s := range []string{"nbio.", "taskpool.", "timer.", "timer:", "nbhttp.", "websocket.", "lmux."} {
		if strings.Contains(desc, s) {
			return true
		}
	}
	return false
}

func runHTTPStop(t *testing.T, ci interface{}, trace bool) *common.Outcome {
	return runHTTPStopAs(t, ci, trace, "C18")
}

// runHTTPStopForJobs judges the same scenario for C05's consequence "HTTP handlers and
// WebSocket callbacks of one connection never overlap, and close handling runs after all work
// queued before it": here the close handling is the one a stopping engine triggers while
// handlers are in flight.
func runHTTPStopForJobs(t *testing.T, ci interface{}, trace bool) *common.Outcome {
	o := runHTTPStopAs(t, ci, trace, "C05")
	if o.V != nil && o.V.Oracle != "close-handling-overlaps-handler" {
		o.Probe("other_property_oracle_fired:C18:" + o.V.Oracle)
		o.V = nil
	}
	return o
}

func runHTTPStopAs(t *testing.T, ci interface{}, trace bool, prop string) *common.Outcome {
	c := ci.(*HTTPStopCase)
	o := &common.Outcome{}
	var logs []string
	var k *kernel.Kernel
	class := c.Method + "/" + c.IOMod
	overlapped := false
	res := simrt.Run(t, c.Sched.Config(trace), func() {
		defer simrt.Finish()
		ssync.PoolMode = c.Sched.PoolMode
		k = kernel.Install(c.K)
		logging.SetLogger(quietLogger{&logs})
		fail := func(oracle, cls, format string, a ...interface{}) {
			o.Fail(oracle, cls, format, a...)
			if simrt.Tracing() {
				simrt.Logf("VIOLATION %s/%s: %s", oracle, cls, fmt.Sprintf(format, a...))
			}
			simrt.Finish()
		}
		u := websocket.NewUpgrader()
		u.KeepaliveTime = time.Hour
		inHandler := 0
		running := map[string]int{} // handlers / message callbacks in progress, by peer address
		// Connections that are transferred to the poller during the upgrade are left out: the
		// blocking reader reports its end (engine close hook) right after the hand-over while
		// the new nbio.Conn already serves messages, and with ET+ONESHOT their callbacks bypass
		// the job queue - both are hand-over matters filed under C14 (S11a/S11b, S41).
		transferred := map[string]bool{}
		overlap := func(what string, addr string) {
			if running[addr] > 0 && !transferred[addr] {
				if prop == "C05" {
					fail("close-handling-overlaps-handler", class, "the %s of connection %s ran while a handler / message callback of the same connection was still running", what, addr)
				} else {
					o.Probe("other_property_oracle_fired:C05:close-handling-overlaps-handler")
				}
			}
		}
		u.OnMessage(func(wc *websocket.Conn, mt websocket.MessageType, data []byte) {
			addr := wc.RemoteAddr().String()
			running[addr]++
			simrt.Sleep(50 * time.Microsecond)
			wc.WriteMessage(mt, data)
			running[addr]--
		})
		u.OnClose(func(wc *websocket.Conn, err error) { overlap("websocket close callback", wc.RemoteAddr().String()) })
		handler := http.HandlerFunc(func(w http.ResponseWriter, r *http.Request) {
			inHandler++
			running[r.RemoteAddr]++
			counted := true
			defer func() {
				inHandler--
				if counted {
					running[r.RemoteAddr]--
				}
			}()
			var ci int
			fmt.Sscanf(r.Header.Get("X-Conn"), "%d", &ci)
			if ci < 0 || ci >= len(c.Conns) {
				return
			}
			p := c.Conns[ci]
			switch p.Kind {
			case "ws", "wsmsg":
				// The upgrade hands the connection to the websocket layer (after a transfer: to
				// another nbio.Conn with a job queue of its own). How that hand-over is ordered
				// against the upgrading handler is C14's business (S11a/S11b), not this oracle's.
				running[r.RemoteAddr]--
				counted = false
				if p.Transfer && c.IOMod != "nonblocking" {
					transferred[r.RemoteAddr] = true
					u.UpgradeAndTransferConnToPoller(w, r, nil)
				} else {
					u.Upgrade(w, r, nil)
				}
			case "inflight", "hangup":
				simrt.Sleep(time.Duration(p.SleepUs) * time.Microsecond)
				w.Write([]byte("late"))
			default:
				w.Write([]byte("ok"))
			}
		})
		tlsOn = c.TLS
		eng := newEngine(c.IOMod, c.Mode, c.NPoller, c.Pool, c.MaxBlocking, handler)
		tlsOn = false
		eng.OnClose(func(nc net.Conn, err error) {
			if ra := nc.RemoteAddr(); ra != nil {
				overlap("engine's close handling", ra.String())
			}
		})
		u.Engine = eng
		if err := eng.Start(); err != nil {
			o.Infra = "engine start: " + err.Error()
			return
		}
		addr := &kernel.Addr{Net: "tcp", IP: [4]byte{127, 0, 0, 1}, Port: 8080}
		type cst struct {
			p       *peer
			recvd   []byte
			eof     bool
			ready   bool
			refused bool
		}
		conns := make([]*cst, len(c.Conns))
		reached := 0
		var tlsPeers []*peer
		client := func(i int, p StopConnPlan) *cst {
			cs := &cst{}
			if !c.TLS {
				pp, err := dialPeer(k, addr)
				if err != nil {
					cs.refused, cs.eof, cs.ready = true, true, true
					reached++
					return cs
				}
				cs.p = pp
			}
			reader := func() {
				simrt.GoNamed(fmt.Sprintf("sclient%d-reader", i), func() {
					simrt.MarkDaemon()
					for {
						b, err := cs.p.read()
						if err != nil {
							cs.eof = true
							return
						}
						cs.recvd = append(cs.recvd, b...)
					}
				})
			}
			if !c.TLS {
				reader()
			}
			simrt.GoNamed(fmt.Sprintf("sclient%d", i), func() {
				defer func() { cs.ready = true; reached++ }()
				if c.TLS {
					// (a handshake that the stop interrupts counts as a refused connection)
					pp, err := dialTLSPeer(k, "127.0.0.1:8443")
					if err != nil {
						cs.refused, cs.eof = true, true
						return
					}
					cs.p = pp
					tlsPeers = append(tlsPeers, pp)
					reader()
				}
				send := func(s string) { cs.p.write([]byte(s), 0) }
				switch p.Kind {
				case "idle":
				case "partial":
					send(fmt.Sprintf("POST /x HTTP/1.1\r\nHost: sim\r\nX-Conn: %d\r\nContent-Length: 10\r\n\r\nabc", i))
				case "keepalive":
					send(fmt.Sprintf("GET /x HTTP/1.1\r\nHost: sim\r\nX-Conn: %d\r\n\r\n", i))
					simrt.WaitStuck("await-answer", time.Second, func() bool { return bytes.Contains(cs.recvd, []byte("\r\n\r\nok")) || cs.eof })
				case "inflight":
					send(fmt.Sprintf("GET /x HTTP/1.1\r\nHost: sim\r\nX-Conn: %d\r\n\r\n", i))
					simrt.WaitStuck("await-handler", 5*time.Millisecond, func() bool { return inHandler > 0 || cs.eof })
				case "hangup":
					send(fmt.Sprintf("GET /x HTTP/1.1\r\nHost: sim\r\nX-Conn: %d\r\n\r\n", i))
					simrt.WaitStuck("await-handler", 5*time.Millisecond, func() bool { return inHandler > 0 || cs.eof })
					if cs.p != nil {
						cs.p.reset()
					}
					cs.eof = true
				case "ws", "wsmsg":
					send(fmt.Sprintf("GET /ws HTTP/1.1\r\nHost: sim\r\nX-Conn: %d\r\nConnection: Upgrade\r\nUpgrade: websocket\r\nSec-WebSocket-Version: 13\r\nSec-WebSocket-Key: dGhlIHNhbXBsZSBub25jZQ==\r\n\r\n", i))
					simrt.WaitStuck("await-101", time.Second, func() bool { return bytes.Contains(cs.recvd, []byte("\r\n\r\n")) || cs.eof })
					if p.Kind == "wsmsg" && !cs.eof {
						// one masked text frame "hi", echoed by the server
						cs.p.write([]byte{0x81, 0x82, 1, 2, 3, 4, 'h' ^ 1, 'i' ^ 2}, 0)
					}
				}
			})
			return cs
		}
		for i, p := range c.Conns {
			conns[i] = client(i, p)
		}
		if c.Early < 0 {
			simrt.WaitStuck("clients-ready", 2*time.Second, func() bool { return reached == len(c.Conns) })
		} else {
			simrt.WaitStuck("clients-early", 2*time.Second, func() bool { return reached >= c.Early })
			overlapped = reached < len(c.Conns)
		}
		stopped := false
		simrt.GoNamed("stopper", func() {
			if c.Method == "shutdown" {
				ctx, cancel := context.WithTimeout(context.Background(), time.Hour)
				eng.Shutdown(ctx)
				cancel()
			} else {
				eng.Stop()
			}
			stopped = true
		})
		var late *cst
		if c.Late {
			simrt.Yield()
			late = client(len(c.Conns), StopConnPlan{Kind: "keepalive"})
			overlapped = true
		}
		simrt.WaitStuck("race", 10*time.Millisecond, func() bool { return stopped })
		simrt.SetFair(true)
		k.Fair = true
		if !simrt.WaitStuck("stop-returns", 5*time.Second, func() bool { return stopped }) {
			fail("stop-hang", class, "%s did not return although the world is quiescent in the fair phase; goroutines: %v", c.Method, simrt.Alive())
			return
		}
		simrt.Quiesce(5 * time.Second)
		all := conns
		if late != nil {
			all = append(append([]*cst(nil), conns...), late)
		}
		for i, cs := range all {
			if !cs.eof {
				kind := "late"
				if i < len(c.Conns) {
					kind = c.Conns[i].Kind
					if c.Conns[i].Transfer && strings.HasPrefix(kind, "ws") && c.IOMod != "nonblocking" {
						kind += "+transfer"
					}
				}
				fail("connection-not-closed", class+"/"+kind, "connection %d (%s) is still open for its peer after %s returned and the world became quiescent", i, kind, c.Method)
				return
			}
		}
		// the descriptors of the TLS clients belong to the harness
		for _, pp := range tlsPeers {
			pp.nconn.Close()
		}
		if len(tlsPeers) > 0 {
			// (a reader of the harness that is still parked in a read makes the shim defer the
			// real close until it has returned: let it)
			simrt.Idle()
		}
		if c.TLS {
			addr = &kernel.Addr{Net: "tcp", IP: [4]byte{127, 0, 0, 1}, Port: 8443}
		}
		if k.Listening(addr) {
			fail("still-listening", class, "the listener still accepts connections after %s returned", c.Method)
			return
		}
		for _, g := range simrt.Alive() {
			if httpEngineGoroutine(g) {
				fail("goroutine-leak", class, "after %s returned and the world became quiescent an engine goroutine is still alive: %s", c.Method, g)
				return
			}
		}
		if fds := k.OpenFDs(); len(fds) > 0 {
			fail("descriptor-leak", class, "descriptors still open after %s: %v", c.Method, fds)
			return
		}
		if n := simrt.PendingTimers(); n > 0 {
			fail("timer-leak", class, "%d timers are still armed after %s returned and every connection was closed: %v", n, c.Method, simrt.PendingTimerNames())
		}
	})
	o.Steps = res.Steps
	o.SimTime = res.SimTime
	o.LogHash = res.LogHash
	o.Finger = res.SchedHash
	o.Trace = res.Trace
	if k != nil {
		for kk, v := range k.Stats {
			if o.Faults == nil {
				o.Faults = map[string]int{}
			}
			o.Faults[kk] += v
		}
	}
	o.NonTrivial = overlapped || len(c.Conns) >= 2
	if res.HarnessErr != "" {
		o.Infra = res.HarnessErr
	}
	if len(res.Panics) > 0 {
		o.Fail("escaped-panic", class, "%s", res.Panics[0])
	}
	if res.BudgetHit {
		// (the run was cut off: what the unwinding goroutines report while the world is torn
		// down is no verdict)
		if o.V != nil {
			o.Probe("report_during_teardown_discarded")
			o.V = nil
		}
		o.Probe("inconclusive_step_budget_exhausted")
		o.NonTrivial = false
	}
	if res.Spin && o.V == nil {
		o.Fail("stop-livelock", class, "fair phase around %s: 30000 steps without progress while goroutines kept running: %v", c.Method, res.SpinWho)
	}
	if res.Deadlock && o.V == nil && o.Infra == "" {
		o.Infra = fmt.Sprintf("run ended without finishing: %v", res.Blocked)
	}
	return o
}
