package e2e

// C11 in this world: the single-threaded scenarios of the stream world (imported), plus the
// close races: the HTTP and WebSocket end-to-end scenarios run with the ownership-tracking
// allocators in place of mempool.DefaultMemPool and the engine's body allocator, so that
// every buffer the connection, HTTP and WebSocket layers take is followed through
// concurrent writers, send queues, resets, application closes and engine stop.

import (
	"fmt"
	"testing"

	"github.com/lesismal/nbio"

	"verif/harness/common"
	"verif/harness/core"
	"verif/harness/stream"
	simrt "verif/sim/rt"
)

// OwnE2E is a case of C11: exactly one member is set.
type OwnE2E struct {
	Stream *stream.OwnCase `json:"stream,omitempty"`
	WS     *WSCase         `json:"ws,omitempty"`
	HTTP   *HTTPCase       `json:"http,omitempty"`
	Out    *core.OutCase   `json:"out,omitempty"`
	Dial   *WSDialCase     `json:"dial,omitempty"`
	In     *core.InCase    `json:"in,omitempty"`
}

func genOwnE2E(r *simrt.Rand, tier string, idx int) *OwnE2E {
	if idx%16 == 15 {
		// the core engine's write queue: the outbound scenarios of C01 with the tracker as
		// mempool.DefaultMemPool and an OnWrittenSize hook that reads what it is given
		return &OwnE2E{Out: core.Prop("C01").Gen(r, tier, idx).(*core.OutCase)}
	}
	switch idx % 16 {
	case 3:
		// the core engine's read path with application supplied read buffers: the inbound scenarios
		// of C02 with OnReadBufferAlloc / OnReadBufferFree hooks on the tracked pool
		c := core.InboundProp().Gen(r, tier, idx).(*core.InCase)
		if c.Eng.Network == "udp" || c.Eng.Async {
			c.Eng.Network, c.Eng.Async, c.Eng.IOExec = "tcp", false, ""
		}
		return &OwnE2E{In: c}
	case 7:
		// both ends nbio: websocket.Dialer against the Upgrader
		return &OwnE2E{Dial: genWSDialCase(r, tier)}
	case 11:
		// nbhttp.Client / ClientConn against the scripted server
		c := genHTTPServerCase(r, tier)
		genCliPlan(r, c)
		c.Track = true
		return &OwnE2E{HTTP: c}
	}
	switch idx % 4 {
	case 2:
		c := genWSCase(r, tier)
		c.Track = true
		return &OwnE2E{WS: c}
	case 3:
		c := genHTTPServerCase(r, tier)
		c.Track = true
		return &OwnE2E{HTTP: c}
	}
	return &OwnE2E{Stream: stream.GenOwn(r, tier, idx)}
}

func runOwnE2E(t *testing.T, ci interface{}, trace bool) *common.Outcome {
	c := ci.(*OwnE2E)
	var o *common.Outcome
	switch {
	case c.Stream != nil:
		return stream.RunOwn(t, c.Stream, trace)
	case c.WS != nil:
		o = runWSAs(t, c.WS, trace, "C11")
	case c.HTTP != nil:
		o = runHTTPAs(t, c.HTTP, trace, "C11")
	case c.Dial != nil:
		untrack := tracking(true)
		o = runWSDial(t, c.Dial, trace)
		untrack(o, "C11")
	case c.In != nil:
		untrack := tracking(true)
		core.ReadBufHooks = true
		o = core.InboundProp().Run(t, c.In, trace)
		core.ReadBufHooks = false
		untrack(o, "C11")
	case c.Out != nil:
		untrack := tracking(true)
		stale := ""
		core.OnWritten = func(nc *nbio.Conn, b []byte, n int) {
			if stale == "" && n <= len(b) && stream.HasPoison(b[:n]) {
				stale = fmt.Sprintf("the OnWrittenSize hook was given %d bytes that carry the poison of a freed pool buffer: the queue entry had been released before the hook looked at it", n)
			}
		}
		o = core.Prop("C01").Run(t, c.Out, trace)
		core.OnWritten = nil
		untrack(o, "C11")
		if stale != "" && (o.V == nil || o.V.Oracle != "buffer-ownership") {
			o.V = nil
			o.Fail("buffer-ownership", "read-after-free", "[mempool.DefaultMemPool] %s", stale)
		}
	default:
		return &common.Outcome{Infra: "empty C11 case"}
	}
	// only ownership violations count for this property
	if o.V != nil && o.V.Oracle != "buffer-ownership" {
		o.Probe("other_property_oracle_fired:" + o.V.Oracle)
		o.V = nil
	}
	o.Probe("e2e_tracked_run")
	return o
}

func shrinkOwnE2E(ci interface{}) []interface{} {
	c := ci.(*OwnE2E)
	var out []interface{}
	switch {
	case c.Stream != nil:
		for _, x := range stream.ShrinkOwn(c.Stream) {
			out = append(out, &OwnE2E{Stream: x})
		}
	case c.WS != nil:
		for _, x := range shrinkWS(c.WS) {
			out = append(out, &OwnE2E{WS: x.(*WSCase)})
		}
	case c.HTTP != nil:
		for _, x := range shrinkHTTP(c.HTTP) {
			out = append(out, &OwnE2E{HTTP: x.(*HTTPCase)})
		}
	case c.Dial != nil:
		for _, x := range shrinkWSDial(c.Dial) {
			out = append(out, &OwnE2E{Dial: x.(*WSDialCase)})
		}
	case c.In != nil:
		for _, x := range core.InboundProp().Shrink(c.In) {
			out = append(out, &OwnE2E{In: x.(*core.InCase)})
		}
	case c.Out != nil:
		if sh := core.Prop("C01").Shrink; sh != nil {
			for _, x := range sh(c.Out) {
				out = append(out, &OwnE2E{Out: x.(*core.OutCase)})
			}
		}
	}
	return out
}
