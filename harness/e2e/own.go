package e2e

// C11 in this world: the single-threaded scenarios of the stream world (imported), plus the
// close races: the HTTP and WebSocket end-to-end scenarios run with the ownership-tracking
// allocators in place of mempool.DefaultMemPool and the engine's body allocator, so that
// every buffer the connection, HTTP and WebSocket layers take is followed through
// concurrent writers, send queues, resets, application closes and engine stop.

import (
	"testing"

	"verif/harness/common"
	"verif/harness/stream"
	simrt "verif/sim/rt"
)

// OwnE2E is a case of C11: exactly one member is set.
type OwnE2E struct {
	Stream *stream.OwnCase `json:"stream,omitempty"`
	WS     *WSCase         `json:"ws,omitempty"`
	HTTP   *HTTPCase       `json:"http,omitempty"`
}

func genOwnE2E(r *simrt.Rand, tier string, idx int) *OwnE2E {
	switch idx % 4 {
	case 2:
		c := genWSCase(r, tier)
		c.Track = true
		return &OwnE2E{WS: c}
	case 3:
		c := genHTTPServerCase(r, tier)
		c.Track = true
		return &OwnE2E{HTTP: c}
	}
	return &OwnE2E{Stream: stream.GenOwn(r, tier, idx)}
}

func runOwnE2E(t *testing.T, ci interface{}, trace bool) *common.Outcome {
	c := ci.(*OwnE2E)
	var o *common.Outcome
	switch {
	case c.Stream != nil:
		return stream.RunOwn(t, c.Stream, trace)
	case c.WS != nil:
		o = runWSAs(t, c.WS, trace, "C11")
	case c.HTTP != nil:
		o = runHTTPAs(t, c.HTTP, trace, "C11")
	default:
		return &common.Outcome{Infra: "empty C11 case"}
	}
	// only ownership violations count for this property
	if o.V != nil && o.V.Oracle != "buffer-ownership" {
		o.Probe("other_property_oracle_fired:" + o.V.Oracle)
		o.V = nil
	}
	o.Probe("e2e_tracked_run")
	return o
}

func shrinkOwnE2E(ci interface{}) []interface{} {
	c := ci.(*OwnE2E)
	var out []interface{}
	switch {
	case c.Stream != nil:
		for _, x := range stream.ShrinkOwn(c.Stream) {
			out = append(out, &OwnE2E{Stream: x})
		}
	case c.WS != nil:
		for _, x := range shrinkWS(c.WS) {
			out = append(out, &OwnE2E{WS: x.(*WSCase)})
		}
	case c.HTTP != nil:
		for _, x := range shrinkHTTP(c.HTTP) {
			out = append(out, &OwnE2E{HTTP: x.(*HTTPCase)})
		}
	}
	return out
}
