package e2e

// C14: WebSocket callbacks ordered and exactly-once; concurrent writes stay whole.
// All upgrade paths of the nbhttp engine: poller-driven (IOModNonBlocking), blocking with
// parser (IOModBlocking, ParserCloser hand-over, asynchronous send queue) and transferred
// to the poller (UpgradeAndTransferConnToPoller), and "std": a connection hijacked from a
// net/http-style server, read by the connection's own HandleRead loop.

import (
	"bufio"
	"bytes"
	"encoding/binary"
	"fmt"
	"net"
	"net/http"
	"strings"
	"testing"
	"time"

	"github.com/lesismal/nbio/logging"
	"github.com/lesismal/nbio/nbhttp/websocket"

	"verif/harness/common"
	"verif/harness/stream"
	"verif/sim/kernel"
	simrt "verif/sim/rt"
	snet "verif/sim/shim/net"
	ssync "verif/sim/shim/sync"
)

// WSConnPlan is one client connection.
type WSConnPlan struct {
	Msgs          []int   `json:"msgs"`              // lengths of the messages the client sends, in order
	Frag          int     `json:"frag,omitempty"`    // client fragments its messages into frames of this size (0: one frame)
	Eager         bool    `json:"eager,omitempty"`   // client sends its first messages immediately after the 101 (same write burst)
	Writers       [][]int `json:"writers,omitempty"` // server side: concurrent goroutines, each writing messages of these lengths
	HandlerYields int     `json:"handler_yields,omitempty"`
	End           string  `json:"end,omitempty"` // "" client sends close frame at the end | reset | appclose (server closes) | none
	Piece         int     `json:"piece"`
	PanicAt       int     `json:"panic_at,omitempty"` // k > 0: the message callback of the k-th message panics when it is done
}

// WSCase is a case of C14.
type WSCase struct {
	Sched    common.Sched  `json:"sched"`
	K        kernel.Params `json:"kernel"`
	IOMod    string        `json:"iomod"` // nonblocking | blocking | transfer
	Mode     string        `json:"mode"`
	NPoller  int           `json:"npoller"`
	Pool     int           `json:"pool"`
	FrameMax int           `json:"frame_max"`          // server side MaxWebsocketFramePayloadSize
	Compress bool          `json:"compress,omitempty"` // permessage-deflate negotiated, both directions compressed
	Track    bool          `json:"track,omitempty"`    // C11: ownership-tracking allocators instead of the real pools
	TLS      bool          `json:"tls,omitempty"`      // wss: TLS listener (llib, transformed), crypto/tls clients
	// C15 end to end: the serving engine's ReadLimit (0: default, 64 MiB); UpDefault leaves
	// Upgrader.Engine at its default, so that the connection must take its engine - and with
	// it the limit - from the connection it was upgraded on (poller-driven paths only)
	ReadLimit int          `json:"read_limit,omitempty"`
	UpDefault bool         `json:"up_default,omitempty"`
	Conns    []WSConnPlan  `json:"conns"`
	// Release: Upgrader.ReleasePayload - the payload handed to the message callback goes back to the
	// pool when the callback returns (so it must be intact for as long as the callback runs)
	Release bool `json:"release,omitempty"`
	// Pongs: the clients put an unsolicited pong frame in front of every message, and the server has
	// a pong handler, which is a callback of the connection like the others: one at a time
	Pongs bool `json:"pongs,omitempty"`
	// SendQueueMax: Upgrader.BlockingModSendQueueMaxSize (blocking I/O mode: frames waiting for the
	// asynchronous writer; 0 = no limit). A write refused because the queue is full is an error for
	// its caller - it must not leave half a message on the wire.
	SendQueueMax int `json:"send_queue_max,omitempty"`
}

func genWSCase(r *simrt.Rand, tier string) *WSCase {
	c := &WSCase{Sched: common.GenSched(r, 300000)}
	c.Sched.TimeJumpMaxUs = 10000
	c.K = kernel.DefaultParams()
	c.K.SndCap = r.Pick(256, 1024, 4096, 65536)
	c.K.InstantNet = r.Bool(0.5)
	c.K.ShortWrite = r.PickF(0, 0.05, 0.2)
	c.K.ShortRead = r.PickF(0, 0.05, 0.2)
	c.K.WaitSubset = r.PickF(0, 0.3)
	c.IOMod = r.PickS("nonblocking", "nonblocking", "blocking", "transfer", "std")
	c.Mode = r.PickS("LT", "ET", "ONESHOT")
	c.NPoller = r.Pick(1, 2)
	c.Pool = r.Pick(2, 4)
	c.FrameMax = r.Pick(0, 16, 100, 1000)
	c.Compress = r.Bool(0.3)
	c.TLS = c.IOMod != "std" && r.Bool(0.2)
	c.Release = r.Bool(0.2)
	c.Pongs = r.Bool(0.2)
	if r.Bool(0.3) {
		c.SendQueueMax = r.Pick(1, 2, 3, 5)
	}
	nc := r.Range(1, 3)
	for i := 0; i < nc; i++ {
		p := WSConnPlan{Frag: r.Pick(0, 0, 1, 10), Eager: r.Bool(0.6), HandlerYields: r.Pick(0, 1, 3), Piece: r.Pick(1, 7, 100000, 100000)}
		for j := 0; j < r.Range(0, 5); j++ {
			p.Msgs = append(p.Msgs, r.Pick(0, 1, 20, 125, 126, 500))
		}
		nw := r.Pick(0, 1, 2, 3, 4)
		for w := 0; w < nw; w++ {
			var ws []int
			for j := 0; j < r.Range(1, 3); j++ {
				ws = append(ws, r.Pick(1, 17, 150, 1001, 3000))
			}
			p.Writers = append(p.Writers, ws)
		}
		p.End = r.PickS("", "", "reset", "appclose", "none", "badframe")
		if len(p.Msgs) > 0 && r.Bool(0.1) {
			p.PanicAt = 1 + r.Intn(len(p.Msgs))
		}
		if c.TLS && p.Piece < 7 {
			p.Piece = 7 // one TLS record per piece
		}
		c.Conns = append(c.Conns, p)
	}
	return c
}

// genWSLimitCase is the end-to-end part of C15: the read limit of the serving engine on
// every upgrade path.
func genWSLimitCase(r *simrt.Rand, tier string) *WSCase {
	c := genWSCase(r, tier)
	c.IOMod = r.PickS("nonblocking", "nonblocking", "blocking", "std")
	if c.IOMod == "std" {
		c.TLS = false
	}
	// (larger than everything a compliant client of these plans ever has in flight unparsed:
	// five messages of at most 500 bytes)
	c.ReadLimit = 4096
	c.UpDefault = c.IOMod == "nonblocking" && r.Bool(0.5)
	for i := range c.Conns {
		if r.Bool(0.7) {
			c.Conns[i].End = "overlimit"
		}
		if c.Conns[i].End == "badframe" {
			c.Conns[i].End = ""
		}
	}
	return c
}

func shrinkWS(ci interface{}) []interface{} {
	c := ci.(*WSCase)
	cp := func() *WSCase {
		x := *c
		x.Conns = nil
		for _, cn := range c.Conns {
			cn.Msgs = append([]int(nil), cn.Msgs...)
			var ws [][]int
			for _, w := range cn.Writers {
				ws = append(ws, append([]int(nil), w...))
			}
			cn.Writers = ws
			x.Conns = append(x.Conns, cn)
		}
		return &x
	}
	var out []interface{}
	for i := range c.Conns {
		if len(c.Conns) > 1 {
			x := cp()
			x.Conns = append(x.Conns[:i], x.Conns[i+1:]...)
			out = append(out, x)
		}
	}
	for i, cn := range c.Conns {
		for j := range cn.Msgs {
			x := cp()
			x.Conns[i].Msgs = append(x.Conns[i].Msgs[:j], x.Conns[i].Msgs[j+1:]...)
			out = append(out, x)
		}
		for j := range cn.Writers {
			x := cp()
			x.Conns[i].Writers = append(x.Conns[i].Writers[:j], x.Conns[i].Writers[j+1:]...)
			out = append(out, x)
		}
		if cn.End != "none" {
			x := cp()
			x.Conns[i].End = "none"
			out = append(out, x)
		}
		if cn.PanicAt != 0 {
			x := cp()
			x.Conns[i].PanicAt = 0
			out = append(out, x)
		}
		if cn.Frag != 0 || cn.HandlerYields != 0 || cn.Piece != 100000 {
			x := cp()
			x.Conns[i].Frag, x.Conns[i].HandlerYields, x.Conns[i].Piece = 0, 0, 100000
			out = append(out, x)
		}
	}
	k := c.K
	try := func(f func(p *kernel.Params)) {
		x := cp()
		f(&x.K)
		if x.K != k {
			out = append(out, x)
		}
	}
	try(func(p *kernel.Params) { p.ShortWrite = 0 })
	try(func(p *kernel.Params) { p.ShortRead = 0 })
	try(func(p *kernel.Params) { p.WaitSubset = 0 })
	try(func(p *kernel.Params) { p.InstantNet = true })
	if c.NPoller > 1 {
		x := cp()
		x.NPoller = 1
		out = append(out, x)
	}
	if c.FrameMax != 0 {
		x := cp()
		x.FrameMax = 0
		out = append(out, x)
	}
	if c.Compress {
		x := cp()
		x.Compress = false
		out = append(out, x)
	}
	if c.TLS {
		x := cp()
		x.TLS = false
		out = append(out, x)
	}
	for _, s := range common.ShrinkScheds(c.Sched) {
		x := cp()
		x.Sched = s
		out = append(out, x)
	}
	return out
}

// hijackWriter is the ResponseWriter of a std-style server for a handler that hijacks.
type hijackWriter struct {
	conn net.Conn
	br   *bufio.Reader
	h    http.Header
}

func (w *hijackWriter) Header() http.Header         { return w.h }
func (w *hijackWriter) Write(b []byte) (int, error) { return w.conn.Write(b) }
func (w *hijackWriter) WriteHeader(code int) {
	fmt.Fprintf(w.conn, "HTTP/1.1 %d %s\r\nContent-Length: 0\r\n\r\n", code, http.StatusText(code))
}
func (w *hijackWriter) Hijack() (net.Conn, *bufio.ReadWriter, error) {
	return w.conn, bufio.NewReadWriter(w.br, bufio.NewWriter(w.conn)), nil
}

type wsConnState struct {
	plan              WSConnPlan
	p                 *peer
	recvd             []byte // after the 101
	hsDone            bool
	eof               bool
	events            []string // callback log of the server side: open-start, open-end, msg-start k, msg-end k, close
	inCB              int
	opens             int
	closes            int
	gotMsgs           [][]byte
	wsc               *websocket.Conn
	wrote             map[string]bool // messages for which WriteMessage returned nil (id -> true)
	writersDone       int
	serverClosedByApp bool
}

func wsPayload(id string, n int) []byte {
	b := keyed(id, n)
	// self-describing header so that the peer can attribute a message to a writer
	hdr := []byte(id + "|")
	if len(b) >= len(hdr) {
		copy(b, hdr)
	}
	return b
}

func runWS(t *testing.T, ci interface{}, trace bool) *common.Outcome {
	return runWSAs(t, ci, trace, "C14")
}

// runWSLimit runs a case of the end-to-end part of C15: only the read limit is judged.
func runWSLimit(t *testing.T, ci interface{}, trace bool) *common.Outcome {
	o := runWSCase(t, ci.(*WSCase), trace)
	if o.V != nil && o.V.Oracle != "read-limit-not-enforced" {
		o.Probe("other_property_oracle_fired:" + o.V.Oracle)
		o.V = nil
	}
	return o
}

func runWSAs(t *testing.T, ci interface{}, trace bool, prop string) *common.Outcome {
	c := ci.(*WSCase)
	untrack := tracking(c.Track)
	o := runWSCase(t, c, trace)
	untrack(o, prop)
	return o
}

func runWSCase(t *testing.T, c *WSCase, trace bool) *common.Outcome {
	o := &common.Outcome{}
	var logs []string
	var k *kernel.Kernel
	overlapWriters, closeRace := false, false
	res := simrt.Run(t, c.Sched.Config(trace), func() {
		defer simrt.Finish()
		ssync.PoolMode = c.Sched.PoolMode
		k = kernel.Install(c.K)
		logging.SetLogger(quietLogger{&logs})
		class := c.IOMod + "/" + c.Mode
		fail := func(oracle, cls, format string, a ...interface{}) {
			o.Fail(oracle, cls, format, a...)
			if simrt.Tracing() {
				simrt.Logf("VIOLATION %s/%s: %s", oracle, cls, fmt.Sprintf(format, a...))
			}
			simrt.Finish()
		}
		conns := make([]*wsConnState, len(c.Conns))
		byWSC := map[*websocket.Conn]*wsConnState{}
		u := websocket.NewUpgrader()
		u.KeepaliveTime = time.Hour
		u.BlockingModSendQueueMaxSize = uint16(c.SendQueueMax)
		u.EnableCompression(c.Compress)
		u.ReleasePayload = c.Release
		byAddr := map[string]*wsConnState{}
		if c.Pongs {
			u.SetPongHandler(func(wc *websocket.Conn, appData string) {
				cs := byWSC[wc]
				if cs == nil {
					return // (before the open callback: the ordering of data messages is what is judged)
				}
				cs.events = append(cs.events, "pong-start")
				cs.inCB++
				if cs.inCB > 1 {
					if n := len(cs.events); n >= 2 && cs.events[n-2] == "open-start" {
						// the same ordering failure as a message callback that overtakes the open callback
						fail("message-before-open", c.IOMod, "the pong handler started while the open callback was still running; log: %v", cs.events)
					}
					fail("callbacks-overlap", class+"/pong", "the pong handler started while another callback of the same connection was running; log: %v", cs.events)
				}
				for y := 0; y < cs.plan.HandlerYields; y++ {
					simrt.Yield()
				}
				cs.inCB--
				cs.events = append(cs.events, "pong-end")
			})
		}
		u.OnOpen(func(x *websocket.Conn) {
			// runs inside Upgrade; the connection is identified by the peer's address
			cs := byAddr[x.RemoteAddr().String()]
			if cs == nil {
				fail("open-unknown-connection", class, "open callback for an unknown peer %v", x.RemoteAddr())
				return
			}
			byWSC[x] = cs
			cs.wsc = x
			cs.opens++
			cs.events = append(cs.events, "open-start")
			cs.inCB++
			for y := 0; y < cs.plan.HandlerYields+1; y++ {
				simrt.Yield()
			}
			cs.inCB--
			cs.events = append(cs.events, "open-end")
		})
		u.OnMessage(func(wc *websocket.Conn, mt websocket.MessageType, data []byte) {
			cs := byWSC[wc]
			if cs == nil {
				fail("message-before-open", c.IOMod, "a message callback ran for a connection whose open callback has not even started")
				return
			}
			k := len(cs.gotMsgs)
			cs.events = append(cs.events, fmt.Sprintf("msg-start %d", k))
			cs.inCB++
			if cs.inCB > 1 {
				cls := class
				if len(cs.events) >= 2 && cs.events[len(cs.events)-2] == "open-start" {
					cls = c.IOMod + "/open"
					fail("message-before-open", c.IOMod, "message callback %d started while the open callback was still running; log: %v", k, cs.events)
				}
				fail("callbacks-overlap", cls, "connection: message callback %d started while another callback of the same connection was running; log: %v", k, cs.events)
			}
			if cs.closes > 0 {
				fail("message-after-close", class, "message callback %d ran after the close callback; log: %v", k, cs.events)
			}
			cs.gotMsgs = append(cs.gotMsgs, append([]byte(nil), data...))
			for y := 0; y < cs.plan.HandlerYields; y++ {
				simrt.Yield()
			}
			if !bytes.Equal(data, cs.gotMsgs[k]) {
				fail("payload-changed-during-callback", class, "connection: the payload of message %d changed while its callback was running (the buffer was released or reused too early); log: %v", k, cs.events)
			}
			cs.inCB--
			cs.events = append(cs.events, fmt.Sprintf("msg-end %d", k))
			if cs.plan.PanicAt == k+1 {
				// a handler that panics must not take the rest of the connection's callbacks with it
				panic("injected panic in a message callback")
			}
		})
		u.OnClose(func(wc *websocket.Conn, err error) {
			cs := byWSC[wc]
			if cs == nil {
				if x := byAddr[wc.RemoteAddr().String()]; x != nil {
					fail("close-before-open", c.IOMod, "the close callback ran for a connection whose open callback has not run yet (it ran later or never); log so far: %v", x.events)
				}
				return
			}
			cs.closes++
			cs.events = append(cs.events, "close")
			if cs.closes > 1 {
				fail("close-twice", class, "the close callback ran %d times; log: %v", cs.closes, cs.events)
			}
			if cs.inCB > 0 {
				if n := len(cs.events); n >= 2 && cs.events[n-2] == "open-start" {
					// the same ordering failure as a close that runs before the open callback
					// starts: the close is not ordered behind the open callback.
					fail("close-before-open", c.IOMod, "the close callback ran while the open callback was still running; log: %v", cs.events)
				}
				cls := class + "/close"
				if c.IOMod == "transfer" && c.Mode == "ONESHOT" {
					cls = "transfer/oneshot-sync-executor/close"
				}
				fail("callbacks-overlap", cls, "the close callback ran while a message callback of the same connection was running; log: %v", cs.events)
			}
		})
		pendingWriters := 0
		handler := http.HandlerFunc(func(w http.ResponseWriter, r *http.Request) {
			var ci int
			fmt.Sscanf(r.Header.Get("X-Conn"), "%d", &ci)
			cs := conns[ci]
			u2 := u
			var wc *websocket.Conn
			var err error
			if c.IOMod == "transfer" {
				wc, err = u2.UpgradeAndTransferConnToPoller(w, r, nil)
			} else {
				wc, err = u2.Upgrade(w, r, nil)
			}
			if err != nil {
				fail("upgrade-failed", class, "Upgrade returned %v", err)
				return
			}
			wc.EnableWriteCompression(c.Compress)
			// concurrent application writers
			for wi, lens := range cs.plan.Writers {
				wi, lens := wi, lens
				pendingWriters++
				simrt.GoNamed(fmt.Sprintf("ws-writer%d.%d", ci, wi), func() {
					defer func() { pendingWriters--; cs.writersDone++ }()
					for j, n := range lens {
						id := fmt.Sprintf("c%dw%dm%d", ci, wi, j)
						if len(id)+1 > n {
							n = len(id) + 1
						}
						err := wc.WriteMessage(websocket.BinaryMessage, wsPayload(id, n))
						if err == nil {
							cs.wrote[id] = true
						}
					}
				})
			}
			if cs.plan.End == "appclose" {
				pendingWriters++
				simrt.GoNamed(fmt.Sprintf("ws-closer%d", ci), func() {
					defer func() { pendingWriters-- }()
					simrt.WaitStuck("app-close-point", 10*time.Millisecond, func() bool { return len(cs.gotMsgs) >= (len(cs.plan.Msgs)+1)/2 })
					cs.serverClosedByApp = true
					wc.Close()
				})
			}
		})
		tlsOn = c.TLS
		eng := newEngine(map[string]string{"nonblocking": "nonblocking", "blocking": "blocking", "transfer": "blocking", "std": "std"}[c.IOMod], c.Mode, c.NPoller, c.Pool, 4, handler)
		tlsOn = false
		eng.MaxWebsocketFramePayloadSize = c.FrameMax
		if c.FrameMax == 0 {
			eng.MaxWebsocketFramePayloadSize = 1 << 20
		}
		if c.ReadLimit > 0 {
			eng.ReadLimit = c.ReadLimit
		}
		if !c.UpDefault {
			u.Engine = eng
		}
		if err := eng.Start(); err != nil {
			o.Infra = "engine start: " + err.Error()
			return
		}
		if c.IOMod == "std" {
			// what net/http.Server does for a handler that hijacks: accept, read the request,
			// hand the raw connection over through http.Hijacker
			ln, err := snet.Listen("tcp", "127.0.0.1:8080")
			if err != nil {
				o.Infra = "std listen: " + err.Error()
				return
			}
			defer ln.Close()
			simrt.GoNamed("std-accept", func() {
				simrt.MarkDaemon()
				for {
					conn, err := ln.Accept()
					if err != nil {
						return
					}
					simrt.GoNamed("std-serve", func() {
						br := bufio.NewReader(conn)
						rq, err := http.ReadRequest(br)
						if err != nil {
							conn.Close()
							return
						}
						rq.RemoteAddr = conn.RemoteAddr().String()
						handler.ServeHTTP(&hijackWriter{conn: conn, br: br, h: http.Header{}}, rq)
					})
				}
			})
		}
		addr := &kernel.Addr{Net: "tcp", IP: [4]byte{127, 0, 0, 1}, Port: 8080}
		done := 0
		for i, plan := range c.Conns {
			i, plan := i, plan
			cs := &wsConnState{plan: plan, wrote: map[string]bool{}}
			conns[i] = cs
			if !c.TLS {
				p, err := dialPeer(k, addr)
				if err != nil {
					o.Infra = "client connect: " + err.Error()
					return
				}
				cs.p = p
				byAddr[p.local] = cs
			}
			var raw []byte
			reader := func() {
				simrt.GoNamed(fmt.Sprintf("wsclient%d-reader", i), func() {
					simrt.MarkDaemon()
					for {
						b, err := cs.p.read()
						if err != nil {
							cs.eof = true
							return
						}
						if !cs.hsDone {
							raw = append(raw, b...)
							if idx := bytes.Index(raw, []byte("\r\n\r\n")); idx >= 0 {
								if !bytes.HasPrefix(raw, []byte("HTTP/1.1 101")) {
									fail("handshake-failed", class, "the upgrade request was answered with %q", head(raw, 60))
									return
								}
								cs.hsDone = true
								cs.recvd = append(cs.recvd, raw[idx+4:]...)
							}
							continue
						}
						cs.recvd = append(cs.recvd, b...)
					}
				})
			}
			if !c.TLS {
				reader()
			}
			send := func(msg []byte) bool { return cs.p.write(msg, plan.Piece) }
			simrt.GoNamed(fmt.Sprintf("wsclient%d", i), func() {
				defer func() { done++ }()
				if c.TLS {
					p, err := dialTLSPeer(k, "127.0.0.1:8443")
					if err != nil {
						fail("tls-handshake-failed", class, "client %d: TLS handshake with the server failed: %v", i, err)
						return
					}
					cs.p = p
					byAddr[p.local] = cs
					reader()
				}
				ext := ""
				if c.Compress {
					ext = "Sec-WebSocket-Extensions: permessage-deflate; server_no_context_takeover; client_no_context_takeover\r\n"
				}
				req := fmt.Sprintf("GET /ws HTTP/1.1\r\nHost: sim\r\nX-Conn: %d\r\nConnection: Upgrade\r\nUpgrade: websocket\r\nSec-WebSocket-Version: 13\r\n%sSec-WebSocket-Key: dGhlIHNhbXBsZSBub25jZQ==\r\n\r\n", i, ext)
				if !send([]byte(req)) {
					return
				}
				// a compliant client sends frames only after the complete 101 - possibly at once
				if !simrt.WaitStuck("await-101", 2*time.Second, func() bool { return cs.hsDone || cs.eof }) || !cs.hsDone {
					return
				}
				var burst []byte
				for j, n := range plan.Msgs {
					payload := wsPayload(fmt.Sprintf("c%dm%d", i, j), n)
					rsv := 0
					if c.Compress {
						payload, rsv = stream.Deflate(payload), 4
					}
					var frames []stream.Frame
					if plan.Frag > 0 && len(payload) > plan.Frag {
						for off := 0; off < len(payload); off += plan.Frag {
							e := off + plan.Frag
							if e > len(payload) {
								e = len(payload)
							}
							op := 0
							if off == 0 {
								op = 2
							}
							frames = append(frames, stream.Frame{Fin: e == len(payload), Op: op, Masked: true, Payload: payload[off:e]})
						}
					} else {
						frames = []stream.Frame{{Fin: true, Op: 2, Masked: true, Payload: payload}}
					}
					frames[0].Rsv = rsv
					if c.Pongs {
						burst = append(burst, stream.EncodeFrame(stream.Frame{Fin: true, Op: 10, Masked: true, Payload: []byte{byte(j)}}, [4]byte{1, 2, 3, byte(j)})...)
					}
					for _, f := range frames {
						burst = append(burst, stream.EncodeFrame(f, [4]byte{byte(j), 7, 9, byte(i)})...)
					}
					if !plan.Eager {
						if !send(burst) {
							return
						}
						burst = nil
						simrt.Yield()
					}
				}
				if len(burst) > 0 && !send(burst) {
					return
				}
				switch plan.End {
				case "":
					// wait until the server's writers are through, then close in an orderly way
					simrt.WaitStuck("writers", 2*time.Second, func() bool { return cs.writersDone >= len(plan.Writers) && len(cs.gotMsgs) >= len(plan.Msgs) })
					// a peer that closes before it has read everything may lose the rest: read it first
					simrt.WaitStuck("drain-before-close", 2*time.Second, func() bool {
						frames, _ := stream.DecodeFrames(cs.recvd)
						n := 0
						for _, f := range frames {
							if f.Op < 8 && f.Fin {
								n++
							}
						}
						return n >= len(cs.wrote)
					})
					cl := make([]byte, 2)
					binary.BigEndian.PutUint16(cl, 1000)
					send(stream.EncodeFrame(stream.Frame{Fin: true, Op: 8, Masked: true, Payload: cl}, [4]byte{1, 2, 3, 4}))
				case "badframe":
					// after everything else: a frame with a reserved opcode. The endpoint must
					// fail the connection (RFC 6455 section 5.2), on every upgrade path.
					simrt.WaitStuck("writers", 2*time.Second, func() bool { return cs.writersDone >= len(plan.Writers) && len(cs.gotMsgs) >= len(plan.Msgs) })
					send(stream.EncodeFrame(stream.Frame{Fin: true, Op: 11, Masked: true, Payload: []byte("x")}, [4]byte{9, 9, 9, 9}))
				case "overlimit":
					// after everything else: the beginning of one frame that is longer than the read
					// limit (and allowed by the message limit), in pieces. "Buffered unparsed input
					// never exceeds the read limit": the endpoint has to give up, it cannot wait for
					// the rest.
					simrt.WaitStuck("writers", 2*time.Second, func() bool { return cs.writersDone >= len(plan.Writers) && len(cs.gotMsgs) >= len(plan.Msgs) })
					hdr := []byte{0x82, 0x80 | 127, 0, 0, 0, 0, 0, 0, 0, 0, 1, 2, 3, 4}
					binary.BigEndian.PutUint64(hdr[2:10], uint64(4*c.ReadLimit))
					if !cs.p.write(hdr, 100000) {
						return
					}
					for sent := 0; sent < 3*c.ReadLimit && !cs.eof; sent += 1024 {
						if !cs.p.write(bytes.Repeat([]byte{'x'}, 1024), 100000) {
							break
						}
						simrt.Yield()
					}
				case "reset":
					simrt.WaitStuck("reset-point", 10*time.Millisecond, func() bool { return len(cs.gotMsgs) >= (len(plan.Msgs)+1)/2 })
					closeRace = closeRace || pendingWriters > 0 || cs.inCB > 0
					cs.p.reset()
				}
			})
		}
		simrt.WaitStuck("clients-done", 5*time.Second, func() bool { return done == len(c.Conns) })
		simrt.WaitStuck("writers-done", 5*time.Second, func() bool { return pendingWriters == 0 })
		simrt.SetFair(true)
		k.Fair = true
		simrt.Quiesce(5 * time.Second)
		// ---- judge ------------------------------------------------------------------------------
		for i, cs := range conns {
			if !cs.hsDone {
				if cs.opens > 0 {
					continue
				}
				fail("handshake-missing", class, "connection %d never received the 101 response", i)
				return
			}
			// callback grammar: open-start open-end (msg-start k msg-end k)* [close]
			ev := cs.events
			if len(ev) < 2 || ev[0] != "open-start" || ev[1] != "open-end" {
				fail("open-not-first", class, "connection %d: the open callback did not complete before the first other callback; log: %v", i, ev)
				return
			}
			for j := 2; j < len(ev); j++ {
				rest := 0
				for _, e := range ev[j+1:] {
					if e != "pong-start" && e != "pong-end" { // (the statement orders message callbacks and the close callback)
						rest++
					}
				}
				if ev[j] == "close" && rest > 0 {
					fail("callback-after-close", class, "connection %d: callbacks after the close callback; log: %v", i, ev)
					return
				}
			}
			// messages in wire order, exactly once (prefix when the connection ended early)
			ended := cs.plan.End == "reset" || cs.plan.End == "appclose"
			if len(cs.gotMsgs) > len(cs.plan.Msgs) {
				fail("message-duplicated", class, "connection %d: %d messages sent, %d delivered", i, len(cs.plan.Msgs), len(cs.gotMsgs))
				return
			}
			for j, m := range cs.gotMsgs {
				if !bytes.Equal(m, wsPayload(fmt.Sprintf("c%dm%d", i, j), cs.plan.Msgs[j])) {
					fail("message-order-or-content", class, "connection %d: delivered message %d is not the %d-th message the client sent (%d bytes)", i, j, j, len(m))
					return
				}
			}
			if !ended && len(cs.gotMsgs) != len(cs.plan.Msgs) {
				fail("message-lost", class, "connection %d: %d messages sent, %d delivered by quiescence; log: %v", i, len(cs.plan.Msgs), len(cs.gotMsgs), ev)
				return
			}
			if cs.plan.End == "overlimit" && !cs.eof {
				cls := class
				if c.TLS {
					cls += "/tls"
				}
				fail("read-limit-not-enforced", cls, "connection %d: the client sent the first %d bytes of a frame that declares %d bytes; the serving engine's ReadLimit is %d, but the connection is still open at quiescence: the input is being buffered beyond the limit; log: %v", i, 3*c.ReadLimit, 4*c.ReadLimit, c.ReadLimit, ev)
				return
			}
			if cs.plan.End == "badframe" && !cs.eof {
				fail("protocol-violation-not-failed", class, "connection %d: the client sent a frame with a reserved opcode after its messages, but the connection is still open at quiescence; log: %v", i, ev)
				return
			}
			if cs.plan.End != "none" && cs.closes != 1 {
				fail("close-callback-count", class+"/"+cs.plan.End, "connection %d ended (%s) but the close callback ran %d times by quiescence; log: %v", i, cs.plan.End, cs.closes, ev)
				return
			}
			// ---- what the peer saw: whole, non-interleaved messages ---------------------------
			frames, _ := stream.DecodeFrames(cs.recvd)
			var cur []byte
			inMsg, curCompressed := false, false
			seen := map[string]int{}
			for fi, f := range frames {
				if f.Op >= 8 {
					continue
				}
				if f.Masked {
					fail("server-frame-masked", class, "connection %d: frame %d from the server is masked", i, fi)
					return
				}
				if (f.Op == 0) != inMsg {
					fail("frames-interleaved", class, "connection %d: frame %d has opcode %d while a fragmented message is %v: the frames of concurrently written messages are interleaved", i, fi, f.Op, inMsg)
					return
				}
				if f.Op != 0 {
					curCompressed = f.Rsv&4 != 0
				}
				cur = append(cur, f.Payload...)
				inMsg = !f.Fin
				if f.Fin {
					if curCompressed {
						plain, err := stream.Inflate(cur)
						if err != nil {
							fail("frames-interleaved", class+"/inflate", "connection %d: a reassembled compressed message (%d bytes) does not inflate: %v", i, len(cur), err)
							return
						}
						cur = plain
					}
					id := string(cur)
					if p := strings.IndexByte(id, '|'); p > 0 {
						id = id[:p]
					}
					if !bytes.Equal(cur, wsPayload(id, len(cur))) {
						fail("frames-interleaved", class+"/content", "connection %d: a reassembled message (%d bytes, id %q) does not match any single written message: fragments of different messages were mixed", i, len(cur), id)
						return
					}
					seen[id]++
					cur = nil
				}
			}
			for id, n := range seen {
				if n > 1 {
					fail("written-message-duplicated", class, "connection %d: message %s arrived %d times", i, id, n)
					return
				}
				if !strings.HasPrefix(id, fmt.Sprintf("c%dw", i)) {
					fail("message-on-wrong-connection", class, "connection %d received message %s", i, id)
					return
				}
			}
			if !ended && cs.closes == 0 || cs.plan.End == "" {
				for id := range cs.wrote {
					if seen[id] == 0 && !ended {
						fail("written-message-lost", class, "connection %d: WriteMessage(%s) returned nil but the message never reached the peer (connection alive until the end)", i, id)
						return
					}
				}
			}
			if len(cs.plan.Writers) >= 2 {
				overlapWriters = true
			}
		}
		stopped := false
		simrt.GoNamed("stopper", func() { eng.Stop(); stopped = true })
		if !simrt.WaitStuck("stop", 5*time.Second, func() bool { return stopped }) {
			o.Probe("other_property_oracle_fired:C18:nbhttp-stop-hang")
		}
	})
	o.Steps = res.Steps
	o.SimTime = res.SimTime
	o.LogHash = res.LogHash
	o.Finger = res.SchedHash
	o.Trace = res.Trace
	if k != nil {
		for kk, v := range k.Stats {
			if o.Faults == nil {
				o.Faults = map[string]int{}
			}
			o.Faults[kk] += v
		}
	}
	o.NonTrivial = overlapWriters || closeRace
	if c.TLS {
		o.Probe("tls_run")
	}
	if res.HarnessErr != "" {
		o.Infra = res.HarnessErr
	}
	if len(res.Panics) > 0 {
		o.Fail("escaped-panic", "", "%s", res.Panics[0])
	}
	if res.BudgetHit {
		// (the run was cut off: what the unwinding goroutines report while the world is torn
		// down is no verdict)
		if o.V != nil {
			o.Probe("report_during_teardown_discarded")
			o.V = nil
		}
		o.Probe("inconclusive_step_budget_exhausted")
		o.NonTrivial = false
	}
	if res.Spin && o.V == nil {
		o.Fail("livelock", c.IOMod+"/"+c.Mode, "fair phase: 30000 steps without progress while goroutines kept running: %v", res.SpinWho)
	}
	if res.Deadlock && o.V == nil && o.Infra == "" {
		o.Infra = fmt.Sprintf("run ended without finishing: %v", res.Blocked)
	}
	return o
}
