package e2e

// peer is a simulated client endpoint: a raw kernel socket, or a TLS client (the standard
// library's crypto/tls, untransformed: it is the independent counterpart of the transformed
// llib TLS that nbhttp uses) on top of a cooperative connection of the simulated network.

import (
	stls "crypto/tls"
	"errors"
	"net"

	"verif/sim/kernel"
	simrt "verif/sim/rt"
	snet "verif/sim/shim/net"
)

type peer struct {
	k     *kernel.Kernel
	sock  *kernel.Sock // the kernel endpoint (always set once connected)
	nconn net.Conn     // TLS only: the cooperative connection under the TLS client
	tconn *stls.Conn   // TLS only
	local string
}

// dialPeer connects a plain peer to addr.
func dialPeer(k *kernel.Kernel, addr *kernel.Addr) (*peer, error) {
	p := &peer{k: k, sock: k.NewPeer(kernel.TCP)}
	if err := k.ConnectPeer(p.sock, addr); err != nil {
		return nil, err
	}
	p.local = p.sock.Local.String()
	return p, nil
}

// dialTLSPeer connects and performs the TLS handshake (in the calling goroutine).
func dialTLSPeer(k *kernel.Kernel, address string) (*peer, error) {
	c, err := snet.Dial("tcp", address)
	if err != nil {
		return nil, err
	}
	type socker interface{ SimSock() *kernel.Sock }
	p := &peer{k: k, nconn: c, sock: c.(socker).SimSock()}
	p.local = p.sock.Local.String()
	p.tconn = stls.Client(newPumpConn(c), &stls.Config{InsecureSkipVerify: true, ServerName: "sim"})
	if err := p.tconn.Handshake(); err != nil {
		c.Close()
		return nil, err
	}
	return p, nil
}

// write sends b in pieces of at most piece bytes; it blocks (cooperatively) while the socket
// is full and returns false when the connection is gone.
func (p *peer) write(b []byte, piece int) bool {
	if piece <= 0 {
		piece = len(b)
	}
	for len(b) > 0 {
		n := piece
		if n > len(b) {
			n = len(b)
		}
		if p.tconn != nil {
			if _, err := p.tconn.Write(b[:n]); err != nil {
				return false
			}
			b = b[n:]
			continue
		}
		w, err := p.sock.PeerWrite(b[:n])
		if err != nil {
			return false
		}
		if w == 0 {
			s := p.sock
			simrt.WaitUntil("client-write-room", func() bool { return s.Space() > 0 || s.WasReset() || s.Closed() })
			if s.WasReset() || s.Closed() {
				return false
			}
			continue
		}
		b = b[w:]
	}
	return true
}

var errPeerEOF = errors.New("peer: end of stream")

// read blocks until some bytes, the end of the stream or a reset arrive.
func (p *peer) read() ([]byte, error) {
	if p.tconn != nil {
		buf := make([]byte, 1<<16)
		n, err := p.tconn.Read(buf)
		if n > 0 {
			return buf[:n], nil
		}
		if err == nil {
			err = errPeerEOF
		}
		return nil, err
	}
	s := p.sock
	simrt.WaitUntil("client-readable", func() bool { return s.Readable() > 0 || s.EOF() || s.Closed() })
	if s.Readable() == 0 {
		return nil, errPeerEOF
	}
	return s.PeerRead(1 << 16)
}

func (p *peer) wasReset() bool { return p.sock.WasReset() }

// reset aborts the connection underneath whatever protocol runs on it.
func (p *peer) reset() { p.sock.Reset() }

// pumpConn is the connection handed to the crypto/tls client. crypto/tls is not transformed:
// its mutexes are real ones. A goroutine of the simulation must therefore never be parked
// while it holds one of them, or the next goroutine that wants it blocks for real and the
// whole (single-threaded) simulation with it. Reads are fine (only the reader ever takes the
// input lock), but a Write that waited for socket space under the output lock would block the
// reader when it has to send an alert. So Write only queues, without a scheduling point, and a
// goroutine of its own moves the bytes into the simulated socket.
type pumpConn struct {
	net.Conn
	out    []byte
	closed bool
	failed bool
}

func newPumpConn(c net.Conn) *pumpConn {
	pc := &pumpConn{Conn: c}
	simrt.GoNamed("tls-peer-pump", func() {
		simrt.MarkDaemon()
		for {
			simrt.WaitUntil("pump-idle", func() bool { return len(pc.out) > 0 || pc.closed })
			if len(pc.out) == 0 {
				return
			}
			b := pc.out
			pc.out = nil
			if _, err := c.Write(b); err != nil {
				pc.failed = true
				return
			}
		}
	})
	return pc
}

func (pc *pumpConn) Write(b []byte) (int, error) {
	if pc.failed || pc.closed {
		return 0, errors.New("pump: connection is gone")
	}
	pc.out = append(pc.out, b...)
	return len(b), nil
}

func (pc *pumpConn) Close() error {
	pc.closed = true
	return pc.Conn.Close()
}
