package common

import (
	"encoding/json"
	"fmt"
	"testing"

	simrt "verif/sim/rt"
)

// Part is one component of a combined property check: a Prop of some world together with
// the share of run indices it gets.
type Part struct {
	Name   string
	P      *Prop
	Weight int
}

// PartCase is the case of a combined check: the case of one part.
type PartCase struct {
	Part  string
	Case  interface{}
	parts []Part
}

type partCaseJSON struct {
	Part string          `json:"part"`
	Case json.RawMessage `json:"case"`
}

func (c *PartCase) MarshalJSON() ([]byte, error) {
	b, err := json.Marshal(c.Case)
	if err != nil {
		return nil, err
	}
	return json.Marshal(partCaseJSON{Part: c.Part, Case: b})
}

func (c *PartCase) UnmarshalJSON(b []byte) error {
	var j partCaseJSON
	if err := json.Unmarshal(b, &j); err != nil {
		return err
	}
	if j.Part == "" && j.Case == nil && len(c.parts) > 0 {
		// a case file written before the property became a combination: it belongs to the first part
		c.Part = c.parts[0].Name
		c.Case = c.parts[0].P.New()
		return json.Unmarshal(b, c.Case)
	}
	for _, p := range c.parts {
		if p.Name == j.Part {
			c.Part = j.Part
			c.Case = p.P.New()
			return json.Unmarshal(j.Case, c.Case)
		}
	}
	return fmt.Errorf("combined case: unknown part %q", j.Part)
}

// Combine makes one property check out of several scenario families (possibly written for
// different worlds): run index i belongs to the part that owns i modulo the total weight, so
// every part keeps its own deterministic sequence of cases.
func Combine(id string, parts ...Part) *Prop {
	total := 0
	for _, p := range parts {
		total += p.Weight
	}
	find := func(name string) *Part {
		for i := range parts {
			if parts[i].Name == name {
				return &parts[i]
			}
		}
		return nil
	}
	// pick returns the part that owns run index idx and the index of the run within that part
	pick := func(idx int) (*Part, int) {
		k := idx % total
		for i := range parts {
			if k < parts[i].Weight {
				return &parts[i], idx/total*parts[i].Weight + k
			}
			k -= parts[i].Weight
		}
		return &parts[0], idx
	}
	pr := &Prop{ID: id}
	pr.New = func() interface{} { return &PartCase{parts: parts} }
	pr.Gen = func(r *simrt.Rand, tier string, idx int) interface{} {
		p, sub := pick(idx)
		return &PartCase{Part: p.Name, Case: p.P.Gen(r, tier, sub), parts: parts}
	}
	pr.Run = func(t *testing.T, ci interface{}, trace bool) *Outcome {
		c := ci.(*PartCase)
		p := find(c.Part)
		if p == nil {
			return &Outcome{Infra: "combined case without a known part: " + c.Part}
		}
		o := p.P.Run(t, c.Case, trace)
		o.Probe("part_" + p.Name)
		return o
	}
	pr.Shrink = func(ci interface{}) []interface{} {
		c := ci.(*PartCase)
		p := find(c.Part)
		if p == nil || p.P.Shrink == nil {
			return nil
		}
		var out []interface{}
		for _, x := range p.P.Shrink(c.Case) {
			out = append(out, &PartCase{Part: c.Part, Case: x, parts: parts})
		}
		return out
	}
	pr.Sweep = func(tier string) []interface{} {
		var out []interface{}
		for _, p := range parts {
			if p.P.Sweep != nil {
				for _, x := range p.P.Sweep(tier) {
					out = append(out, &PartCase{Part: p.Name, Case: x, parts: parts})
				}
			}
		}
		return out
	}
	pr.Exclude = func(ci interface{}, open map[string]bool) bool {
		c := ci.(*PartCase)
		p := find(c.Part)
		return p != nil && p.P.Exclude != nil && p.P.Exclude(c.Case, open)
	}
	return pr
}
