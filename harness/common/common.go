// Package common is the worker side of every check: it generates cases from seeds, runs
// them, collects coverage, and replays / minimises failing cases. The driver (cmd/check)
// starts one OS process per worker and talks to it through environment variables and a
// JSON result file.
package common

import (
	"encoding/json"
	"fmt"
	"hash/fnv"
	"os"
	"runtime"
	"sort"
	"strconv"
	"strings"
	"testing"
	"time"

	simrt "verif/sim/rt"
)

// Violation is what an oracle reports.
type Violation struct {
	Oracle    string `json:"oracle"`    // stable id of the oracle that fired
	Signature string `json:"signature"` // oracle + classification, matched against known findings
	Msg       string `json:"msg"`
}

// Outcome of one run.
type Outcome struct {
	V          *Violation     `json:"violation,omitempty"`
	Infra      string         `json:"infra,omitempty"` // harness trouble: never a violation
	NonTrivial bool           `json:"nontrivial"`
	Finger     uint64         `json:"finger"` // fingerprint of what was explored (schedule/plan)
	LogHash    uint64         `json:"loghash"`
	Steps      int            `json:"steps"`
	SimTime    time.Duration  `json:"simtime"`
	Faults     map[string]int `json:"faults,omitempty"`
	Probes     map[string]int `json:"probes,omitempty"`
	States     []uint64       `json:"-"` // abstract states visited
	Trace      []string       `json:"trace,omitempty"`
}

func (o *Outcome) Fault(k string) {
	if o.Faults == nil {
		o.Faults = map[string]int{}
	}
	o.Faults[k]++
}
func (o *Outcome) Probe(k string) {
	if o.Probes == nil {
		o.Probes = map[string]int{}
	}
	o.Probes[k]++
}
func (o *Outcome) ProbeN(k string, n int) {
	if n == 0 {
		return
	}
	if o.Probes == nil {
		o.Probes = map[string]int{}
	}
	o.Probes[k] += n
}
func (o *Outcome) Fail(oracle, class, format string, a ...interface{}) {
	if o.V != nil {
		return
	}
	sig := oracle
	if class != "" {
		sig += "/" + class
	}
	o.V = &Violation{Oracle: oracle, Signature: sig, Msg: fmt.Sprintf(format, a...)}
}

// TrimTrace keeps the part of a trace that matters: a window around the first line that
// mentions the violation, else the tail.
func TrimTrace(tr []string, n int) []string {
	for i, l := range tr {
		if strings.Contains(l, "VIOLATION") {
			lo, hi := i-n+40, i+40
			if lo < 0 {
				lo = 0
			}
			if hi > len(tr) {
				hi = len(tr)
			}
			return tr[lo:hi]
		}
	}
	if len(tr) > n {
		return tr[len(tr)-n:]
	}
	return tr
}

// Prop is one property's check inside a world.
type Prop struct {
	ID  string
	New func() interface{}                                    // empty case (pointer) for decoding
	Gen func(r *simrt.Rand, tier string, idx int) interface{} // case from seed
	Run func(t *testing.T, c interface{}, trace bool) *Outcome
	// Shrink proposes strictly simpler cases (may be nil).
	Shrink func(c interface{}) []interface{}
	// Sweep, when non-nil, enumerates deterministic cases run before the random search
	// (fault-point sweeps, catalogues). The index is the position in the enumeration.
	Sweep func(tier string) []interface{}
	// Exclude, when non-nil, says that a case is covered by an open known finding with
	// the given id and is skipped by the random search.
	Exclude func(c interface{}, open map[string]bool) bool
}

// FoundViolation is written into the result / replay files.
type FoundViolation struct {
	Property  string          `json:"property"`
	Index     int             `json:"index"`
	Seed      uint64          `json:"seed"`
	Case      json.RawMessage `json:"case"`
	Violation Violation       `json:"violation"`
	LogHash   uint64          `json:"loghash"`
	Trace     []string        `json:"trace,omitempty"`
	Minimised bool            `json:"minimised"`
	TreeHash  string          `json:"tree_hash,omitempty"`
	ShrinkLog []string        `json:"shrink_log,omitempty"`
}

// WorkerResult is the JSON a batch worker writes.
type WorkerResult struct {
	Property   string            `json:"property"`
	Runs       int               `json:"runs"`
	Skipped    int               `json:"skipped"`
	NonTrivial int               `json:"nontrivial"`
	Fingers    []uint64          `json:"fingers"` // distinct fingerprints of non-trivial runs
	AllFingers int               `json:"all_fingers"`
	States     []uint64          `json:"states"`
	Steps      int64             `json:"steps"`
	SimTimeNs  int64             `json:"simtime_ns"`
	Faults     map[string]int    `json:"faults"`
	Probes     map[string]int    `json:"probes"`
	Violations []FoundViolation  `json:"violations"`
	Infra      []string          `json:"infra"`
	Samples    []json.RawMessage `json:"samples"`
	Hashes     []string          `json:"hashes,omitempty"`
	WallS      float64           `json:"wall_s"`
	SweepDone  bool              `json:"sweep_done"`
	SweepSize  int               `json:"sweep_size"`
}

func propSalt(id string) uint64 {
	h := fnv.New64a()
	h.Write([]byte(id))
	return h.Sum64()
}

// CaseSeed is the seed of run idx of a batch.
func CaseSeed(base uint64, prop string, idx int) uint64 {
	return simrt.Mix(simrt.Mix(base, propSalt(prop)), uint64(idx)+1)
}

func envInt(k string, def int) int {
	if v := os.Getenv(k); v != "" {
		if n, err := strconv.Atoi(v); err == nil {
			return n
		}
	}
	return def
}

func envU64(k string, def uint64) uint64 {
	if v := os.Getenv(k); v != "" {
		if n, err := strconv.ParseUint(v, 10, 64); err == nil {
			return n
		}
		if n, err := strconv.ParseInt(v, 10, 64); err == nil {
			return uint64(n)
		}
	}
	return def
}

func safeRun(p *Prop, t *testing.T, c interface{}, trace bool) (o *Outcome) {
	defer func() {
		if r := recover(); r != nil {
			o = &Outcome{Infra: fmt.Sprintf("harness panic: %v", r)}
		}
	}()
	return p.Run(t, c, trace)
}

// WorkerMain is called from each world's TestWorker.
func WorkerMain(t *testing.T, props []*Prop) {
	id := os.Getenv("VERIF_PROP")
	if id == "" {
		t.Skip("VERIF_PROP not set: this test binary is driven by /verif/bin/check")
	}
	var p *Prop
	for _, x := range props {
		if x.ID == id {
			p = x
		}
	}
	if p == nil {
		t.Fatalf("unknown property %q in this world", id)
	}
	mode := os.Getenv("VERIF_MODE")
	outPath := os.Getenv("VERIF_OUT")
	if d := os.Getenv("VERIF_DUMP_IDX"); d != "" {
		// debugging aid: run one index of the batch with a trace and print everything
		idx, _ := strconv.Atoi(d)
		tier := os.Getenv("VERIF_TIER")
		if tier == "" {
			tier = "quick"
		}
		for _, ps := range strings.Split(os.Getenv("VERIF_PRE_IDX"), ",") {
			// debugging aid for cross-run state leaks: run these indices first
			if ps == "" {
				continue
			}
			pi, _ := strconv.Atoi(ps)
			pseed := CaseSeed(envU64("VERIF_SEED", 1), p.ID, pi)
			po := safeRun(p, t, p.Gen(simrt.NewRand(pseed), tier, pi), false)
			fmt.Printf("PRE %d loghash %016x\n", pi, po.LogHash)
		}
		seed := CaseSeed(envU64("VERIF_SEED", 1), p.ID, idx)
		c := p.Gen(simrt.NewRand(seed), tier, idx)
		b, _ := json.Marshal(c)
		fmt.Printf("CASE %s\n", b)
		o := safeRun(p, t, c, true)
		n := envInt("VERIF_DUMP_LINES", 200)
		tr := o.Trace
		if len(tr) > n {
			tr = tr[len(tr)-n:]
		}
		for _, l := range tr {
			fmt.Println(l)
		}
		o.Trace = nil
		ob, _ := json.Marshal(o)
		fmt.Printf("OUTCOME %s\n", ob)
		return
	}
	switch mode {
	case "replay":
		replay(t, p, os.Getenv("VERIF_FILE"), outPath)
	case "shrink":
		shrink(t, p, os.Getenv("VERIF_FILE"), outPath)
	default:
		batch(t, p, outPath)
	}
}

func writeJSON(path string, v interface{}) {
	b, err := json.MarshalIndent(v, "", " ")
	if err != nil {
		panic(err)
	}
	if path == "" {
		os.Stdout.Write(b)
		return
	}
	if err := os.WriteFile(path+".tmp", b, 0o644); err != nil {
		panic(err)
	}
	os.Rename(path+".tmp", path)
}

func batch(t *testing.T, p *Prop, outPath string) {
	base := envU64("VERIF_SEED", 1)
	tier := os.Getenv("VERIF_TIER")
	if tier == "" {
		tier = "quick"
	}
	worker := envInt("VERIF_WORKER", 0)
	workers := envInt("VERIF_WORKERS", 1)
	maxRuns := envInt("VERIF_MAXRUNS", 1<<30)
	budget := time.Duration(envInt("VERIF_BUDGET_MS", 10000)) * time.Millisecond
	wantHashes := os.Getenv("VERIF_HASHES") != ""
	open := map[string]bool{}
	for _, k := range strings.Split(os.Getenv("VERIF_OPEN_FINDINGS"), ",") {
		if k != "" {
			open[k] = true
		}
	}
	start := time.Now()
	res := &WorkerResult{Property: p.ID, Faults: map[string]int{}, Probes: map[string]int{}}
	fingers := map[uint64]bool{}
	allFingers := map[uint64]bool{}
	states := map[uint64]bool{}
	memTrace := os.Getenv("VERIF_MEMTRACE") != ""
	record := func(idx int, seed uint64, c interface{}, o *Outcome) bool {
		res.Runs++
		if memTrace {
			// debugging aid: which cases leave a large heap behind
			var ms runtime.MemStats
			runtime.ReadMemStats(&ms)
			if ms.HeapAlloc > 300<<20 {
				b, _ := json.Marshal(c)
				if len(b) > 300 {
					b = b[:300]
				}
				fmt.Printf("MEMTRACE idx=%d heap=%dMiB sys=%dMiB case=%s\n", idx, ms.HeapAlloc>>20, ms.Sys>>20, b)
			}
		}
		res.Steps += int64(o.Steps)
		res.SimTimeNs += int64(o.SimTime)
		for k, v := range o.Faults {
			res.Faults[k] += v
		}
		for k, v := range o.Probes {
			res.Probes[k] += v
		}
		for _, s := range o.States {
			states[s] = true
		}
		allFingers[o.Finger] = true
		if o.NonTrivial {
			res.NonTrivial++
			fingers[o.Finger] = true
		}
		if wantHashes {
			v := "-"
			if o.V != nil {
				v = o.V.Signature
			}
			res.Hashes = append(res.Hashes, fmt.Sprintf("%d %016x %016x %d %s", idx, o.LogHash, o.Finger, o.Steps, v))
		}
		if o.Infra != "" {
			if os.Getenv("VERIF_DEBUG_INFRA") != "" {
				// debugging aid: the same case again in the same process, with a trace
				b, _ := json.Marshal(c)
				fmt.Printf("INFRA idx=%d: %s\nCASE %s\n", idx, o.Infra, b)
				o2 := safeRun(p, t, c, true)
				tr := o2.Trace
				if len(tr) > 150 {
					tr = tr[len(tr)-150:]
				}
				for _, l := range tr {
					fmt.Println(l)
				}
				fmt.Printf("SECOND RUN infra=%q\n", o2.Infra)
			}
			if len(res.Infra) < 5 {
				res.Infra = append(res.Infra, fmt.Sprintf("idx=%d seed=%d: %s", idx, seed, o.Infra))
			}
			return len(res.Infra) < 5
		}
		if len(res.Samples) < 3 && (o.NonTrivial || res.Runs > 20) {
			b, _ := json.Marshal(c)
			if len(b) < 4000 {
				res.Samples = append(res.Samples, b)
			}
		}
		if o.V != nil {
			// re-run with a trace for the report
			o2 := safeRun(p, t, c, true)
			b, _ := json.Marshal(c)
			fv := FoundViolation{Property: p.ID, Index: idx, Seed: seed, Case: b, Violation: *o.V, LogHash: o.LogHash}
			if o2 != nil && o2.V != nil {
				fv.Trace = TrimTrace(o2.Trace, 400)
			}
			// keep one violation per distinct signature, at most 8
			dup := false
			for _, e := range res.Violations {
				if e.Violation.Signature == fv.Violation.Signature {
					dup = true
				}
			}
			if !dup && len(res.Violations) < 8 {
				res.Violations = append(res.Violations, fv)
			}
		}
		return true
	}
	// deterministic sweep first, striped over the workers
	if p.Sweep != nil {
		cases := p.Sweep(tier)
		res.SweepSize = len(cases)
		res.SweepDone = true
		for i := worker; i < len(cases); i += workers {
			if time.Since(start) > budget*3 {
				res.SweepDone = false
				break
			}
			o := safeRun(p, t, cases[i], false)
			if !record(-1-i, 0, cases[i], o) {
				break
			}
		}
	}
	for k := 0; k < maxRuns; k++ {
		if time.Since(start) > budget {
			break
		}
		idx := worker + k*workers
		seed := CaseSeed(base, p.ID, idx)
		c := p.Gen(simrt.NewRand(seed), tier, idx)
		if p.Exclude != nil && len(open) > 0 && p.Exclude(c, open) {
			res.Skipped++
			continue
		}
		traceAll := os.Getenv("VERIF_TRACE_ALL") != ""
		o := safeRun(p, t, c, traceAll)
		if traceAll {
			// debugging aid: the trace of the run as it happened inside the batch
			if o.V != nil || o.Infra != "" {
				b, _ := json.Marshal(c)
				fmt.Printf("BATCH idx=%d V=%v infra=%q\nCASE %s\n", idx, o.V, o.Infra, b)
				tr := o.Trace
				if len(tr) > 400 {
					tr = tr[len(tr)-400:]
				}
				for _, l := range tr {
					fmt.Println(l)
				}
			}
			o.Trace = nil
		}
		if !record(idx, seed, c, o) {
			break
		}
	}
	for f := range fingers {
		res.Fingers = append(res.Fingers, f)
	}
	sort.Slice(res.Fingers, func(i, j int) bool { return res.Fingers[i] < res.Fingers[j] })
	res.AllFingers = len(allFingers)
	for s := range states {
		res.States = append(res.States, s)
	}
	sort.Slice(res.States, func(i, j int) bool { return res.States[i] < res.States[j] })
	res.WallS = time.Since(start).Seconds()
	writeJSON(outPath, res)
}

func loadFound(t *testing.T, p *Prop, file string) (*FoundViolation, interface{}) {
	b, err := os.ReadFile(file)
	if err != nil {
		t.Fatalf("read replay: %v", err)
	}
	var fv FoundViolation
	if err := json.Unmarshal(b, &fv); err != nil {
		t.Fatalf("decode replay: %v", err)
	}
	c := p.New()
	if err := json.Unmarshal(fv.Case, c); err != nil {
		t.Fatalf("decode case: %v", err)
	}
	return &fv, c
}

// ReplayResult is what a replay worker writes.
type ReplayResult struct {
	Reproduced bool       `json:"reproduced"`
	SameHash   bool       `json:"same_hash"`
	Violation  *Violation `json:"violation,omitempty"`
	Infra      string     `json:"infra,omitempty"`
	Trace      []string   `json:"trace,omitempty"`
	LogHash    uint64     `json:"loghash"`
}

func replay(t *testing.T, p *Prop, file, outPath string) {
	fv, c := loadFound(t, p, file)
	o := safeRun(p, t, c, os.Getenv("VERIF_NOTRACE") == "")
	rr := &ReplayResult{LogHash: o.LogHash, Infra: o.Infra, Violation: o.V}
	if o.V != nil && o.V.Signature == fv.Violation.Signature {
		rr.Reproduced = true
	}
	rr.SameHash = o.LogHash == fv.LogHash
	rr.Trace = TrimTrace(o.Trace, envInt("VERIF_REPLAY_LINES", 400))
	writeJSON(outPath, rr)
}

func shrink(t *testing.T, p *Prop, file, outPath string) {
	fv, c := loadFound(t, p, file)
	budget := time.Duration(envInt("VERIF_BUDGET_MS", 30000)) * time.Millisecond
	start := time.Now()
	var log []string
	size := func(x interface{}) int { b, _ := json.Marshal(x); return len(b) }
	// the original must reproduce first
	o := safeRun(p, t, c, false)
	if o.V == nil || o.V.Signature != fv.Violation.Signature {
		log = append(log, "original did not reproduce in the shrinker; left unminimised")
		fv.ShrinkLog = log
		writeJSON(outPath, fv)
		return
	}
	tries, accepted := 0, 0
	if p.Shrink != nil {
	outer:
		for time.Since(start) < budget {
			cands := p.Shrink(c)
			for _, cand := range cands {
				if time.Since(start) > budget {
					break outer
				}
				tries++
				oc := safeRun(p, t, cand, false)
				if oc.V != nil && oc.V.Signature == fv.Violation.Signature {
					c = cand
					o = oc
					accepted++
					continue outer
				}
			}
			break
		}
	}
	log = append(log, fmt.Sprintf("shrink: %d candidates tried, %d accepted, case size %d -> %d bytes", tries, accepted, len(fv.Case), size(c)))
	ot := safeRun(p, t, c, true)
	b, _ := json.Marshal(c)
	fv.Case = b
	fv.Violation = *o.V
	fv.LogHash = o.LogHash
	if ot != nil {
		fv.Trace = TrimTrace(ot.Trace, 400)
	}
	fv.Minimised = true
	fv.ShrinkLog = log
	writeJSON(outPath, fv)
}

// Sched is the schedule part of every case; it is embedded in the case JSON so that a
// replay is a pure function of the file and the code.
type Sched struct {
	Seed          uint64  `json:"seed"`
	Strategy      int     `json:"strategy"`
	Stick         float64 `json:"stick"`
	PCTDepth      int     `json:"pct_depth,omitempty"`
	PCTSpan       int     `json:"pct_span,omitempty"`
	TimeJump      float64 `json:"time_jump,omitempty"`
	TimeJumpMaxUs int     `json:"time_jump_max_us,omitempty"`
	SiteProb      float64 `json:"site_prob,omitempty"`
	MaxSteps      int     `json:"max_steps"`
	PoolMode      int     `json:"pool_mode"`
}

// GenSched draws a schedule configuration (swarm style).
func GenSched(r *simrt.Rand, maxSteps int) Sched {
	s := Sched{Seed: r.Uint64(), MaxSteps: maxSteps, PoolMode: r.Intn(5)}
	switch r.Intn(10) {
	case 0, 1, 2:
		s.Strategy = int(simrt.StratPCT)
		s.PCTDepth = r.Range(1, 3)
		s.PCTSpan = r.Pick(50, 200, 1000, 5000)
	default:
		s.Strategy = int(simrt.StratRandom)
		s.Stick = r.PickF(0, 0.5, 0.9, 0.99)
	}
	s.TimeJump = r.PickF(0, 0, 0.001, 0.01)
	s.SiteProb = r.PickF(0, 0.05, 0.3)
	return s
}

// Config converts to the scheduler's configuration.
func (s Sched) Config(trace bool) simrt.Config {
	return simrt.Config{Seed: s.Seed, Strategy: simrt.Strategy(s.Strategy), Stick: s.Stick, PCTDepth: s.PCTDepth,
		PCTSpan: s.PCTSpan, TimeJump: s.TimeJump, TimeJumpMax: time.Duration(s.TimeJumpMaxUs) * time.Microsecond, SiteProb: s.SiteProb, MaxSteps: s.MaxSteps, Trace: trace}
}

// ShrinkScheds proposes simpler schedules.
func ShrinkScheds(s Sched) []Sched {
	var out []Sched
	if s.SiteProb > 0 {
		x := s
		x.SiteProb = 0
		out = append(out, x)
	}
	if s.TimeJump > 0 {
		x := s
		x.TimeJump = 0
		out = append(out, x)
	}
	if s.Strategy == int(simrt.StratRandom) && s.Stick < 0.99 {
		x := s
		x.Stick = 0.99
		out = append(out, x)
	}
	if s.PoolMode != 0 {
		x := s
		x.PoolMode = 0
		out = append(out, x)
	}
	return out
}

// AltSeeds returns a few alternative schedule seeds derived from s (used when a plan is
// shrunk and the old schedule no longer lines up).
func AltSeeds(s Sched, n int) []Sched {
	var out []Sched
	for i := 0; i < n; i++ {
		x := s
		x.Seed = simrt.Mix(s.Seed, uint64(i)+1000)
		out = append(out, x)
	}
	return out
}
