package stream

// C20: allocator contracts. sync.Pool.Get may legally return any earlier Put or a new
// object; the simulated pool makes that choice by PRNG (five policies) and 1-3 simulated
// goroutines use the allocator concurrently. Reference model: id -> expected contents.

import (
	"fmt"
	"testing"
	"unsafe"

	"github.com/lesismal/nbio/mempool"

	"verif/harness/common"
	simrt "verif/sim/rt"
	ssync "verif/sim/shim/sync"
)

// AOp is one allocator operation.
type AOp struct {
	Op  string `json:"op"` // malloc | append | appendstr | realloc | free | foreign (a buffer made with make(), cap N, that is then used and freed through the allocator)
	Buf int    `json:"buf,omitempty"` // which live buffer of this worker (modulo)
	N   int    `json:"n"`
}

// AllocCase is a case of C20.
type AllocCase struct {
	Sched    common.Sched `json:"sched"`
	Alloc    string       `json:"alloc"` // mempool | aligned | std
	BufSize  int          `json:"bufsize,omitempty"`
	FreeSize int          `json:"freesize,omitempty"`
	Workers  [][]AOp      `json:"workers"`
}

func genASize(r *simrt.Rand, freeSize int) int {
	switch r.Intn(5) {
	case 0:
		return r.Pick(0, 1, 2, 3)
	case 1:
		k := r.Range(5, 15)
		return (1 << uint(k)) + r.Pick(-1, 0, 1)
	case 2:
		if freeSize > 0 {
			return freeSize + r.Pick(-1, 0, 1, 2)
		}
	}
	return r.Intn(5000)
}

func genAllocCase(r *simrt.Rand, tier string) *AllocCase {
	c := &AllocCase{Sched: common.GenSched(r, 40000), Alloc: r.PickS("mempool", "mempool", "aligned", "aligned", "std")}
	if c.Alloc == "mempool" {
		c.BufSize = r.Pick(0, 1, 64, 1024)
		c.FreeSize = r.Pick(0, 64, 1024, 4096, 65536)
	}
	nw := r.Pick(1, 1, 2, 3)
	nops := 12
	if tier == "thorough" {
		nops = 30
	}
	for w := 0; w < nw; w++ {
		var ops []AOp
		for i := 0; i < r.Range(3, nops); i++ {
			op := AOp{Op: r.PickS("malloc", "malloc", "append", "appendstr", "realloc", "free", "free"), Buf: r.Intn(8), N: genASize(r, c.FreeSize)}
			if r.Bool(0.08) {
				// a buffer the allocator has never seen: "free only poolable capacities"
				op.Op = "foreign"
				if r.Bool(0.5) {
					op.N = r.Pick(1, 2, 4, 8, 16, 24, 31, 32, 33, 48, 63, 64, 65, 96)
				}
			}
			if op.Op == "append" || op.Op == "appendstr" {
				op.N = r.Pick(0, 1, 31, 32, 33, 100, 1024, 5000)
			}
			ops = append(ops, op)
		}
		c.Workers = append(c.Workers, ops)
	}
	return c
}

func shrinkAlloc(ci interface{}) []interface{} {
	c := ci.(*AllocCase)
	cp := func() *AllocCase {
		x := *c
		x.Workers = nil
		for _, w := range c.Workers {
			x.Workers = append(x.Workers, append([]AOp(nil), w...))
		}
		return &x
	}
	var out []interface{}
	for i := range c.Workers {
		if len(c.Workers) > 1 {
			x := cp()
			x.Workers = append(x.Workers[:i], x.Workers[i+1:]...)
			out = append(out, x)
		}
	}
	for i, w := range c.Workers {
		for j := range w {
			if len(w) > 1 {
				x := cp()
				x.Workers[i] = append(x.Workers[i][:j], x.Workers[i][j+1:]...)
				out = append(out, x)
			}
		}
		for j, op := range w {
			if op.N > 1 {
				x := cp()
				x.Workers[i][j].N = op.N / 2
				out = append(out, x)
			}
		}
	}
	for _, s := range common.ShrinkScheds(c.Sched) {
		x := cp()
		x.Sched = s
		out = append(out, x)
	}
	return out
}

type liveBuf struct {
	id    int
	p     *[]byte
	model []byte
	owner int
	busy  bool // its owner is inside an allocator call on it: neither its contents nor its memory are defined for others
}

func keyed(id, off, n int) []byte {
	b := make([]byte, n)
	for i := range b {
		x := uint32(off+i)*2654435761 + uint32(id)*40503
		b[i] = byte(x>>11) | 1
	}
	return b
}

func runAlloc(t *testing.T, ci interface{}, trace bool) *common.Outcome {
	c := ci.(*AllocCase)
	o := &common.Outcome{}
	ssync.PoolMode = c.Sched.PoolMode
	reused, crossed := false, false
	res := simrt.Run(t, c.Sched.Config(trace), func() {
		defer simrt.Finish()
		var a mempool.Allocator
		switch c.Alloc {
		case "aligned":
			a = mempool.NewAligned()
		case "std":
			a = mempool.NewSTD()
		default:
			a = mempool.New(c.BufSize, c.FreeSize)
		}
		var all []*liveBuf
		seenBase := map[unsafe.Pointer]int{}
		nextID := 0
		fail := func(oracle, format string, args ...interface{}) {
			o.Fail(oracle, c.Alloc, format, args...)
			simrt.Finish()
		}
		base := func(p *[]byte) unsafe.Pointer {
			if cap(*p) == 0 {
				return nil
			}
			return unsafe.Pointer(&(*p)[:1][0])
		}
		verify := func(after string) {
			for _, b := range all {
				if b.busy {
					continue
				}
				if len(*b.p) != len(b.model) {
					fail("length-changed", "after %s: live buffer #%d has length %d, expected %d", after, b.id, len(*b.p), len(b.model))
					return
				}
				for i := range b.model {
					if (*b.p)[i] != b.model[i] {
						fail("contents-changed", "after %s: byte %d of live buffer #%d (owner: worker %d, %d bytes) changed from %#x to %#x: another buffer shares its memory or the operation lost data", after, i, b.id, b.owner, len(b.model), b.model[i], (*b.p)[i])
						return
					}
				}
			}
			for i, x := range all {
				bx := uintptr(base(x.p))
				if bx == 0 || x.busy {
					continue
				}
				for _, y := range all[i+1:] {
					by := uintptr(base(y.p))
					if by == 0 || y.busy {
						continue
					}
					if bx < by+uintptr(cap(*y.p)) && by < bx+uintptr(cap(*x.p)) {
						fail("live-buffers-overlap", "after %s: live buffers #%d and #%d share memory ([%#x,+%d) and [%#x,+%d))", after, x.id, y.id, bx, cap(*x.p), by, cap(*y.p))
						return
					}
				}
			}
		}
		done := 0
		for wi, ops := range c.Workers {
			wi, ops := wi, ops
			simrt.GoNamed(fmt.Sprintf("worker%d", wi), func() {
				defer func() { done++ }()
				var mine []*liveBuf
				for _, op := range ops {
					if o.V != nil {
						return
					}
					desc := fmt.Sprintf("%s(%d) by worker %d", op.Op, op.N, wi)
					switch op.Op {
					case "malloc":
						p := a.Malloc(op.N)
						if p == nil {
							fail("malloc-nil", "Malloc(%d) returned nil", op.N)
							return
						}
						if len(*p) != op.N {
							fail("malloc-length", "Malloc(%d) returned a buffer of length %d", op.N, len(*p))
							return
						}
						nextID++
						b := &liveBuf{id: nextID, p: p, owner: wi}
						b.model = keyed(b.id, 0, op.N)
						copy(*p, b.model)
						if bp := base(p); bp != nil {
							if prev, ok := seenBase[bp]; ok {
								reused = true
								if prev != wi {
									crossed = true
								}
							}
							seenBase[bp] = wi
						}
						mine = append(mine, b)
						all = append(all, b)
					case "foreign":
						buf := make([]byte, op.N)
						nextID++
						b := &liveBuf{id: nextID, p: &buf, owner: wi}
						b.model = keyed(b.id, 0, op.N)
						copy(buf, b.model)
						mine = append(mine, b)
						all = append(all, b)
						o.Probe("foreign_buffer")
					case "append", "appendstr":
						if len(mine) == 0 {
							continue
						}
						b := mine[op.Buf%len(mine)]
						more := keyed(b.id, len(b.model), op.N)
						var np *[]byte
						b.busy = true
						if op.Op == "append" {
							np = a.Append(b.p, more...)
						} else {
							np = a.AppendString(b.p, string(more))
						}
						b.busy = false
						if np == nil {
							fail("append-nil", "%s returned nil", desc)
							return
						}
						b.p = np
						b.model = append(b.model, more...)
					case "realloc":
						if len(mine) == 0 {
							continue
						}
						b := mine[op.Buf%len(mine)]
						old := len(b.model)
						b.busy = true
						np := a.Realloc(b.p, op.N)
						b.busy = false
						if np == nil {
							fail("realloc-nil", "%s returned nil", desc)
							return
						}
						if len(*np) != op.N {
							fail("realloc-length", "Realloc(%d bytes -> %d) returned a buffer of length %d", old, op.N, len(*np))
							return
						}
						b.p = np
						if op.N <= old {
							b.model = b.model[:op.N]
						} else {
							// the extension's content is unspecified: check the prefix, then define the rest
							for i := 0; i < old; i++ {
								if (*np)[i] != b.model[i] {
									fail("realloc-lost-contents", "Realloc(%d bytes -> %d): byte %d of the previous contents changed", old, op.N, i)
									return
								}
							}
							ext := keyed(b.id, old, op.N-old)
							copy((*np)[old:], ext)
							b.model = append(b.model, ext...)
						}
					case "free":
						if len(mine) == 0 {
							continue
						}
						k := op.Buf % len(mine)
						b := mine[k]
						mine = append(mine[:k], mine[k+1:]...)
						for i, x := range all {
							if x == b {
								all = append(all[:i], all[i+1:]...)
								break
							}
						}
						a.Free(b.p)
					}
					verify(desc)
				}
			})
		}
		simrt.WaitStuck("workers", 0, func() bool { return done == len(c.Workers) })
	})
	o.Steps = res.Steps
	o.LogHash = res.LogHash
	o.Finger = res.SchedHash ^ fnv([]byte(fmt.Sprintf("%v", c.Workers)))
	o.Trace = res.Trace
	o.NonTrivial = reused
	if crossed {
		o.Probe("buffer_reused_across_goroutines")
	}
	if res.HarnessErr != "" {
		o.Infra = res.HarnessErr
	}
	if len(res.Panics) > 0 {
		o.Fail("panic", c.Alloc, "%s", res.Panics[0])
	}
	return o
}
