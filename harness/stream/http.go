package stream

import (
	"bytes"
	"reflect"
	"unsafe"
	"errors"
	"fmt"
	"net"
	"net/http"
	"strings"
	"time"

	"github.com/lesismal/nbio/logging"
	"github.com/lesismal/nbio/mempool"
	"github.com/lesismal/nbio/nbhttp"

	simrt "verif/sim/rt"
	mrand "verif/sim/shim/mrand"
)

// ---------------------------------------------------------------------------------------
// in-memory connection: the simulated transport of this world

type memAddr string

func (a memAddr) Network() string { return "mem" }
func (a memAddr) String() string  { return string(a) }

var errInjected = errors.New("injected transport write failure")

// memConn collects what is written to it; writes can be made to fail at the k-th call
// (FailAt, 1-based; 0: never) and the connection remembers whether it was closed.
type memConn struct {
	Out      []byte
	Writes   [][]byte
	FailAt   int
	nwrite   int
	Closed   bool
	CloseAt  int // length of Out when Close was called
	OnWrite  func(b []byte)
	rdl, wdl time.Time
}

func (c *memConn) Read(b []byte) (int, error) { return 0, errors.New("memConn: Read not used") }
func (c *memConn) Write(b []byte) (int, error) {
	if c.Closed {
		return 0, net.ErrClosed
	}
	c.nwrite++
	if c.FailAt > 0 && c.nwrite >= c.FailAt {
		// like nbio.Conn (and a TCP socket after a reset): a failed write ends the connection
		c.Close()
		return 0, errInjected
	}
	cp := append([]byte(nil), b...)
	c.Out = append(c.Out, cp...)
	c.Writes = append(c.Writes, cp)
	if c.OnWrite != nil {
		c.OnWrite(cp)
	}
	return len(b), nil
}
func (c *memConn) Close() error {
	if !c.Closed {
		c.Closed = true
		c.CloseAt = len(c.Out)
	}
	return nil
}
func (c *memConn) LocalAddr() net.Addr                { return memAddr("local") }
func (c *memConn) RemoteAddr() net.Addr               { return memAddr("remote") }
func (c *memConn) SetDeadline(t time.Time) error      { c.rdl, c.wdl = t, t; return nil }
func (c *memConn) SetReadDeadline(t time.Time) error  { c.rdl = t; return nil }
func (c *memConn) SetWriteDeadline(t time.Time) error { c.wdl = t; return nil }

// ---------------------------------------------------------------------------------------
// logger seam: recovered panics are only logged by nbio; the seam makes them visible

type capLogger struct{ lines *[]string }

func (l capLogger) SetLevel(int)                  {}
func (l capLogger) Debug(string, ...interface{}) {}
func (l capLogger) Info(string, ...interface{})  {}
func (l capLogger) Warn(string, ...interface{})  {}
func (l capLogger) Error(f string, a ...interface{}) {
	if len(*l.lines) < 10 {
		*l.lines = append(*l.lines, fmt.Sprintf(f, a...))
	}
}

// env is what every stream run sets up: trackers installed as allocators, log capture.
type env struct {
	Pool *Tracker // mempool.DefaultMemPool role
	Body *Tracker // Engine.BodyAllocator role
	Logs []string
	old  mempool.Allocator
}

func newEnv(movingBody bool) *env { return newEnv2(false, movingBody) }

// newEnv2 also chooses the flavour of the package-level pool: an application may install
// mempool.NewAligned() as mempool.DefaultMemPool, whose Append moves the buffer.
func newEnv2(movingPool, movingBody bool) *env {
	e := &env{Pool: NewTracker("mempool.DefaultMemPool", movingPool), Body: NewTracker("BodyAllocator", movingBody)}
	mrand.ResetFallback(1)
	e.old = mempool.DefaultMemPool
	mempool.DefaultMemPool = e.Pool
	logging.SetLogger(capLogger{&e.Logs})
	return e
}

func (e *env) close() { mempool.DefaultMemPool = e.old }

// ownership returns the tracker violations (C11).
func (e *env) ownership() []string {
	return append(e.Pool.Finish(), e.Body.Finish()...)
}

// recoveredPanic returns a logged (recovered) panic, if any.
func (e *env) recoveredPanic() string {
	for _, l := range e.Logs {
		if strings.Contains(l, "failed:") && (strings.Contains(l, "panic") || strings.Contains(l, "runtime error") || strings.Contains(l, "goroutine ")) {
			if len(l) > 1500 {
				l = l[:1500]
			}
			return l
		}
	}
	return ""
}

func newHTTPEngine(e *env, readLimit, maxBody int, handler http.Handler) *nbhttp.Engine {
	conf := nbhttp.Config{
		Name:           "sim",
		ReadLimit:      readLimit,
		MaxHTTPBodySize: maxBody,
		Handler:        handler,
		ServerExecutor: func(f func()) { f() },
		ClientExecutor: func(f func()) { f() },
		BodyAllocator:  e.Body,
		SupportServerOnly: true,
	}
	return nbhttp.NewEngine(conf)
}

// ---------------------------------------------------------------------------------------
// recording processor (the observation seam of the parser)

type recorder struct {
	Events []string
	body   []byte
	inMsg  bool
	Msgs   int
	closed bool
	afterClose int
	taint  func(s string) // looks for poison in what the parser hands out
}

func (r *recorder) ev(format string, a ...interface{}) {
	if r.closed {
		r.afterClose++
	}
	if r.taint != nil {
		for _, x := range a {
			if s, ok := x.(string); ok {
				r.taint(s)
			}
		}
	}
	r.Events = append(r.Events, fmt.Sprintf(format, a...))
}
func (r *recorder) OnMethod(p *nbhttp.Parser, m string)            { r.ev("method %q", m) }
func (r *recorder) OnURL(p *nbhttp.Parser, u string) error         { r.ev("url %q", u); return nil }
func (r *recorder) OnProto(p *nbhttp.Parser, s string) error {
	r.ev("proto %q", s)
	if _, _, ok := http.ParseHTTPVersion(s); !ok {
		return fmt.Errorf("malformed HTTP version %q", s)
	}
	return nil
}
func (r *recorder) OnStatus(p *nbhttp.Parser, code int, s string)  { r.ev("status %d %q", code, s) }
func (r *recorder) OnHeader(p *nbhttp.Parser, k, v string)         { r.ev("header %q: %q", k, v) }
func (r *recorder) OnContentLength(p *nbhttp.Parser, n int)        { r.ev("content-length %d", n) }
func (r *recorder) OnBody(p *nbhttp.Parser, data []byte) error {
	if r.closed {
		r.afterClose++
	}
	if r.taint != nil {
		r.taint(string(data))
	}
	r.body = append(r.body, data...)
	return nil
}
func (r *recorder) OnTrailerHeader(p *nbhttp.Parser, k, v string) { r.ev("trailer %q: %q", k, v) }
func (r *recorder) OnComplete(p *nbhttp.Parser) {
	r.ev("body %d bytes %x", len(r.body), fnv(r.body))
	r.ev("complete")
	r.body = nil
	r.Msgs++
}
func (r *recorder) Close(p *nbhttp.Parser, err error) {}
func (r *recorder) Clean(p *nbhttp.Parser)           {}

func fnv(b []byte) uint64 {
	h := uint64(14695981039346656037)
	for _, c := range b {
		h = (h ^ uint64(c)) * 1099511628211
	}
	return h
}

// feedResult is the outcome of feeding one stream in one segmentation.
type feedResult struct {
	Events  []string
	Err     error
	ErrAt   int // index of the piece at which Parse returned the error
	PendingBody int
	AfterClose int
	PeakCache int
	CarryOver string // first time the parser's carry-over buffer exceeded ReadLimit + the read just fed
}

// carryOver checks the sharp form of "the bytes retained for an incomplete message never
// exceed the configured read limit plus one read" on the parser's own buffer.
func (res *feedResult) carryOver(p *nbhttp.Parser, readLimit, piece, idx int) {
	if readLimit <= 0 || res.CarryOver != "" {
		return
	}
	if n := len(parserCache(p)); n > readLimit+piece {
		res.CarryOver = fmt.Sprintf("after read %d (%d bytes) returned without error the parser's carry-over buffer holds %d bytes; ReadLimit is %d", idx, piece, n, readLimit)
	}
}

// feed drives a parser with the recording processor the way Engine.DataHandler does:
// first error => CloseAndClean => no more Parse.
func feed(e *env, eng *nbhttp.Engine, isClient bool, pieces [][]byte) *feedResult {
	rec := &recorder{}
	conn := &memConn{}
	p := nbhttp.NewParser(conn, eng, rec, isClient, nil)
	res := &feedResult{ErrAt: -1}
	// The parser only ever hands out bytes of its input. If the input contains neither the
	// poison of freed pool buffers (0xDB) nor the poison written over a read buffer after Parse
	// returned (0xEE), such a byte in a callback argument or in the carry-over buffer proves
	// that freed memory, or the caller's read buffer, was read later (C11).
	cleanInput := true
	for _, piece := range pieces {
		if bytes.IndexByte(piece, poison) >= 0 || bytes.IndexByte(piece, 0xEE) >= 0 {
			cleanInput = false
		}
	}
	tainted := false
	look := func(where string, s string) {
		if !cleanInput || tainted {
			return
		}
		if i := strings.IndexByte(s, poison); i >= 0 {
			tainted = true
			e.Pool.fail("read after free: %s contains the poison of a freed pool buffer at offset %d (%q); the input has no such byte", where, i, head([]byte(s), 40))
		} else if i := strings.IndexByte(s, 0xEE); i >= 0 {
			tainted = true
			e.Pool.fail("stale reference: %s contains bytes of the caller's read buffer as overwritten after Parse returned, at offset %d (%q)", where, i, head([]byte(s), 40))
		}
	}
	rec.taint = func(s string) { look("a parser callback argument", s) }
	for i, piece := range pieces {
		// hand the parser a private copy and poison it afterwards: the parser must not keep
		// references into the read buffer
		buf := append([]byte(nil), piece...)
		err := p.Parse(buf)
		for j := range buf {
			buf[j] = 0xEE
		}
		if live := e.Pool.Live + e.Body.Live; live > res.PeakCache {
			res.PeakCache = live
		}
		look("the parser's carry-over buffer", string(parserCache(p)))
		if err == nil {
			res.carryOver(p, eng.ReadLimit, len(piece), i)
		}
		if err != nil {
			res.Err = err
			res.ErrAt = i
			rec.closed = true
			p.CloseAndClean(err)
			// the engine never calls Parse again; a late call must report closed
			if err2 := p.Parse([]byte("GET / HTTP/1.1\r\n\r\n")); err2 == nil {
				rec.afterClose += 1000
			}
			break
		}
	}
	if res.Err == nil {
		res.PendingBody = len(rec.body)
		p.CloseAndClean(nil)
	}
	res.Events = rec.Events
	res.AfterClose = rec.afterClose
	return res
}

// parserCache reads the parser's carry-over buffer (unexported field bytesCached).
func parserCache(p *nbhttp.Parser) []byte {
	f := reflect.ValueOf(p).Elem().FieldByName("bytesCached")
	if !f.IsValid() || f.Kind() != reflect.Ptr || f.IsNil() {
		return nil
	}
	return *(*[]byte)(unsafe.Pointer(f.Pointer()))
}

func sameEvents(a, b []string) (bool, string) {
	n := len(a)
	if len(b) < n {
		n = len(b)
	}
	for i := 0; i < n; i++ {
		if a[i] != b[i] {
			return false, fmt.Sprintf("event %d differs: one piece: %s | segmented: %s", i, a[i], b[i])
		}
	}
	if len(a) != len(b) {
		longer, which := a, "one piece"
		if len(b) > len(a) {
			longer, which = b, "segmented"
		}
		return false, fmt.Sprintf("event counts differ (%d vs %d): the %s feed additionally reports %s", len(a), len(b), which, longer[n])
	}
	return true, ""
}

// cut splits stream at the given ascending positions.
func cut(stream []byte, at []int) [][]byte {
	var out [][]byte
	prev := 0
	for _, p := range at {
		if p <= prev || p >= len(stream) {
			continue
		}
		out = append(out, stream[prev:p])
		prev = p
	}
	out = append(out, stream[prev:])
	return out
}

// ---------------------------------------------------------------------------------------
// grammar based generators

// MsgSpec describes one generated HTTP message (request or response).
type MsgSpec struct {
	Method  string     `json:"method,omitempty"`
	Target  string     `json:"target,omitempty"`
	Proto   string     `json:"proto"`
	Status  int        `json:"status,omitempty"`
	Reason  string     `json:"reason,omitempty"`
	Headers [][2]string `json:"headers,omitempty"`
	Framing string     `json:"framing"` // none | cl | chunked
	Body    int        `json:"body,omitempty"`   // body length
	Chunks  []int      `json:"chunks,omitempty"` // chunk sizes (sum = Body)
	ChunkExt bool      `json:"chunk_ext,omitempty"`
	Trailers [][2]string `json:"trailers,omitempty"`
	Conn    string     `json:"conn,omitempty"` // Connection header value
	Seed    int        `json:"seed"`           // body content seed
	Spacing int        `json:"spacing,omitempty"` // 0 canonical; 1 no space after colon; 2 trailing spaces in values
	Conn2   string     `json:"conn2,omitempty"`    // a second Connection field (a proxy appending its own)
	HexForm int        `json:"hex_form,omitempty"` // chunk sizes: 0 lower-case hex; 1 upper-case; 2 upper-case with leading zeros
}

var tokenNames = []string{"X-A", "X-Trace-Id", "Accept", "User-Agent", "x-lower", "Cache-Control", "X_Under", "If-None-Match"}
var headerValues = []string{"1", "abc", "text/html; q=0.8", "a, b", "W/\"etag\"", "keep", "0", "x=y; z", ""}

func bodyBytes(seed, n int) []byte {
	b := make([]byte, n)
	for i := range b {
		x := uint32(i)*2654435761 + uint32(seed)*40503
		x ^= x >> 13
		b[i] = "abcdefghijklmnopqrstuvwxyz0123456789 \r\n:;"[x%41]
	}
	return b
}

func genMsg(r *simrt.Rand, response bool, wellFormedOnly bool) MsgSpec {
	m := MsgSpec{Proto: r.PickS("HTTP/1.1", "HTTP/1.1", "HTTP/1.0"), Seed: r.Intn(1000)}
	if response {
		m.Status = r.Pick(200, 201, 204, 301, 304, 400, 404, 500)
		m.Reason = http.StatusText(m.Status)
	} else {
		m.Method = r.PickS("GET", "POST", "PUT", "DELETE", "HEAD", "OPTIONS", "PATCH")
		m.Target = r.PickS("/", "/a/b?x=1&y=2", "/index.html", "*", "/p%20q", "/very/long/path/segment/"+strings.Repeat("z", r.Intn(40)))
		if m.Target == "*" && m.Method != "OPTIONS" {
			m.Target = "/"
		}
	}
	for i := 0; i < r.Intn(4); i++ {
		m.Headers = append(m.Headers, [2]string{tokenNames[r.Intn(len(tokenNames))], headerValues[r.Intn(len(headerValues))]})
	}
	if !response {
		m.Headers = append(m.Headers, [2]string{"Host", r.PickS("example.com", "localhost:8080")})
	}
	m.Conn = r.PickS("", "", "close", "keep-alive", "Keep-Alive", "Close")
	if r.Bool(0.25) {
		// connection options are a comma separated list, and the field may be repeated (RFC 7230 6.1)
		m.Conn = r.PickS("keep-alive, close", "close, keep-alive", "keep-alive,close", "keep-alive , Close", "close")
		if r.Bool(0.5) {
			m.Conn = r.PickS("keep-alive", "Keep-Alive", "close")
			m.Conn2 = r.PickS("close", "Close", "keep-alive")
		}
	}
	m.Spacing = r.Pick(0, 0, 0, 1, 2)
	bodyOK := !response || (m.Status != 204 && m.Status != 304)
	if !response && (m.Method == "GET" || m.Method == "HEAD" || m.Method == "OPTIONS" || m.Method == "DELETE") && r.Bool(0.7) {
		bodyOK = false
	}
	switch k := r.Intn(10); {
	case !bodyOK:
		m.Framing = "none"
		if response {
			m.Framing = "cl"
			m.Body = 0
		}
	case k < 4:
		m.Framing = "cl"
		m.Body = r.Pick(0, 1, 2, 10, 100, 1000, 3000)
	case k < 8 && m.Proto == "HTTP/1.1":
		m.Framing = "chunked"
		n := r.Range(0, 4)
		for i := 0; i < n; i++ {
			c := r.Pick(1, 2, 9, 10, 15, 16, 17, 255, 256, 1000)
			m.Chunks = append(m.Chunks, c)
			m.Body += c
		}
		m.ChunkExt = r.Bool(0.2)
		m.HexForm = r.Pick(0, 0, 1, 2)
		if r.Bool(0.3) {
			for i := 0; i < r.Range(1, 2); i++ {
				m.Trailers = append(m.Trailers, [2]string{r.PickS("X-Checksum", "X-Trailer-B", "Expires", "x-checksum", "x-length", "eTag"), headerValues[r.Intn(len(headerValues))]})
			}
			if len(m.Trailers) == 2 && strings.EqualFold(m.Trailers[0][0], m.Trailers[1][0]) {
				m.Trailers = m.Trailers[:1]
			}
		}
	default:
		if response {
			m.Framing = "cl"
			m.Body = r.Pick(0, 5, 50)
		} else {
			m.Framing = "none"
		}
	}
	return m
}

// encode renders the message.
func (m MsgSpec) encode(response bool) []byte {
	var b strings.Builder
	if response {
		fmt.Fprintf(&b, "%s %d %s\r\n", m.Proto, m.Status, m.Reason)
	} else {
		fmt.Fprintf(&b, "%s %s %s\r\n", m.Method, m.Target, m.Proto)
	}
	hdr := func(k, v string) {
		switch m.Spacing {
		case 1:
			fmt.Fprintf(&b, "%s:%s\r\n", k, v)
		case 2:
			fmt.Fprintf(&b, "%s:   %s  \r\n", k, v)
		default:
			fmt.Fprintf(&b, "%s: %s\r\n", k, v)
		}
	}
	for _, h := range m.Headers {
		hdr(h[0], h[1])
	}
	if m.Conn != "" {
		hdr("Connection", m.Conn)
	}
	if m.Conn2 != "" {
		hdr("Connection", m.Conn2)
	}
	body := bodyBytes(m.Seed, m.Body)
	switch m.Framing {
	case "cl":
		hdr("Content-Length", fmt.Sprint(m.Body))
		b.WriteString("\r\n")
		b.Write(body)
	case "chunked":
		hdr("Transfer-Encoding", "chunked")
		if len(m.Trailers) > 0 {
			var names []string
			for _, t := range m.Trailers {
				names = append(names, t[0])
			}
			hdr("Trailer", strings.Join(names, ", "))
		}
		b.WriteString("\r\n")
		off := 0
		for _, c := range m.Chunks {
			size := fmt.Sprintf("%x", c)
			switch m.HexForm {
			case 1:
				size = fmt.Sprintf("%X", c)
			case 2:
				size = fmt.Sprintf("%04X", c)
			}
			if m.ChunkExt {
				fmt.Fprintf(&b, "%s;ext=1\r\n", size)
			} else {
				fmt.Fprintf(&b, "%s\r\n", size)
			}
			b.Write(body[off : off+c])
			b.WriteString("\r\n")
			off += c
		}
		b.WriteString("0\r\n")
		for _, t := range m.Trailers {
			fmt.Fprintf(&b, "%s: %s\r\n", t[0], t[1])
		}
		b.WriteString("\r\n")
	default:
		b.WriteString("\r\n")
	}
	return []byte(b.String())
}
