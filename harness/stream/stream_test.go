package stream

import (
	"testing"

	"verif/harness/common"
	simrt "verif/sim/rt"
)

var props = []*common.Prop{
	{ID: "C06", New: func() interface{} { return &SegCase{} },
		Gen:    func(r *simrt.Rand, tier string, idx int) interface{} { return genSegCase(r, tier) },
		Run:    runSeg,
		Shrink: shrinkSeg},
	{ID: "C07", New: func() interface{} { return &DiffCase{} },
		Gen:    func(r *simrt.Rand, tier string, idx int) interface{} { return genDiffCase(r, tier) },
		Run:    runDiff,
		Shrink: shrinkDiff},
	{ID: "C08", New: func() interface{} { return &RobustCase{} },
		Gen:    func(r *simrt.Rand, tier string, idx int) interface{} { return genRobustCase(r, tier) },
		Run:    runRobust,
		Shrink: shrinkRobust,
		Sweep: func(tier string) []interface{} {
			var out []interface{}
			for i := range catalogue {
				for _, piece := range []int{1, 3, 100000} {
					out = append(out, &RobustCase{Catalogue: i + 1, Piece: piece})
				}
			}
			return out
		}},
	{ID: "C11", New: func() interface{} { return &OwnCase{} },
		Gen:    func(r *simrt.Rand, tier string, idx int) interface{} { return genOwnCase(r, tier, idx) },
		Run:    runOwn,
		Shrink: shrinkOwn},
	{ID: "C20", New: func() interface{} { return &AllocCase{} },
		Gen:    func(r *simrt.Rand, tier string, idx int) interface{} { return genAllocCase(r, tier) },
		Run:    runAlloc,
		Shrink: shrinkAlloc},
	{ID: "C12", New: func() interface{} { return &RTCase{} },
		Gen:    func(r *simrt.Rand, tier string, idx int) interface{} { return genRTCase(r, tier) },
		Run:    func(t *testing.T, c interface{}, trace bool) *common.Outcome { return runRT(t, c, trace, "C12") },
		Shrink: shrinkRT},
	{ID: "C13", New: func() interface{} { return &ValCase{} },
		Gen:    func(r *simrt.Rand, tier string, idx int) interface{} { return genValCase(r, tier, idx) },
		Run:    runVal,
		Shrink: shrinkVal},
	LimProp(),
	{ID: "C09", New: func() interface{} { return &RespCase{} },
		Gen:    func(r *simrt.Rand, tier string, idx int) interface{} { return genRespCase(r, tier, idx%4 == 3) },
		Run:    func(t *testing.T, c interface{}, trace bool) *common.Outcome { return runResp(t, c, trace, "C09") },
		Shrink: shrinkResp},
}

func TestWorker(t *testing.T) { common.WorkerMain(t, props) }
