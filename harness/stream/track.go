// Package stream is the world "stream": nbhttp.Parser / nbhttp.Response /
// websocket.Conn (transformed real code) driven through an in-memory connection whose
// segmentation, failures and close instants are simulated. No kernel is needed here.
package stream

import (
	"fmt"
	"runtime"
	"strings"
	"unsafe"
)

const poison = 0xDB

// bufInfo is what the ownership tracker knows about one buffer.
type bufInfo struct {
	id      int
	p       *[]byte
	base    uintptr // (an address for diagnostics, not a reference: a freed large array must not be kept alive)
	capa    int
	live    bool
	freedBy string
	allocBy string
}

// Tracker is an ownership-tracking allocator (property C11). It never recycles memory:
// Free poisons the buffer and quarantines it, so a later read shows poison in the output,
// a later write disturbs the poison, and a second Free or an Append on a freed buffer is
// seen directly. Moving=true mimics AlignedAllocator (Append moves when capacity is
// exceeded and frees the old buffer), Moving=false mimics MemPool (same *[]byte).
type Tracker struct {
	Name       string
	Moving     bool
	bufs       map[*[]byte]*bufInfo
	quarantine []*bufInfo
	nextID     int
	Violations []string
	Live       int // bytes currently live (by capacity requested)
	PeakLive   int
	Mallocs    int
	Frees      int
	Handoffs   int
	ops        int
}

// NewTracker creates a tracker.
func NewTracker(name string, moving bool) *Tracker {
	return &Tracker{Name: name, Moving: moving, bufs: map[*[]byte]*bufInfo{}}
}

func caller() string {
	var pcs [12]uintptr
	n := runtime.Callers(3, pcs[:])
	fr := runtime.CallersFrames(pcs[:n])
	var parts []string
	for {
		f, more := fr.Next()
		fn := f.Function
		if i := strings.LastIndex(fn, "/"); i >= 0 {
			fn = fn[i+1:]
		}
		if !strings.HasPrefix(fn, "stream.") && !strings.HasPrefix(fn, "mempool.") {
			parts = append(parts, fmt.Sprintf("%s:%d", fn, f.Line))
		}
		if !more || len(parts) >= 3 {
			break
		}
	}
	return strings.Join(parts, " < ")
}

func (t *Tracker) fail(format string, a ...interface{}) {
	if len(t.Violations) < 5 {
		t.Violations = append(t.Violations, fmt.Sprintf("[%s] ", t.Name)+fmt.Sprintf(format, a...))
	}
}

func (t *Tracker) newBuf(size, capa int) *[]byte {
	if capa < size {
		capa = size
	}
	b := make([]byte, size, capa)
	p := &b
	t.nextID++
	bi := &bufInfo{id: t.nextID, p: p, capa: capa, live: true, allocBy: caller()}
	if capa > 0 {
		bi.base = uintptr(unsafe.Pointer(&b[:1][0]))
	}
	t.bufs[p] = bi
	t.Mallocs++
	t.Live += capa
	if t.Live > t.PeakLive {
		t.PeakLive = t.Live
	}
	return p
}

// Malloc implements mempool.Allocator.
func (t *Tracker) Malloc(size int) *[]byte {
	if size < 0 {
		size = 0
	}
	capa := size
	if !t.Moving && capa < 64 {
		capa = 64 // pooled buffers have spare capacity
	}
	if t.Moving {
		// round up like the aligned allocator does
		c := 32
		for c < size && c < 1<<15 {
			c <<= 1
		}
		if size <= 1<<15 {
			capa = c
		}
	}
	return t.newBuf(size, capa)
}

func (t *Tracker) check(p *[]byte, op string) *bufInfo {
	if p == nil {
		t.fail("%s on a nil buffer; at %s", op, caller())
		return nil
	}
	bi := t.bufs[p]
	if bi == nil {
		t.fail("%s on a buffer that was not allocated by this allocator; at %s", op, caller())
		return nil
	}
	if !bi.live {
		t.fail("%s on buffer #%d after it was freed (freed at %s; allocated at %s); at %s", op, bi.id, bi.freedBy, bi.allocBy, caller())
		return nil
	}
	return bi
}

// Realloc implements mempool.Allocator.
func (t *Tracker) Realloc(p *[]byte, size int) *[]byte {
	bi := t.check(p, "Realloc")
	if bi == nil {
		return t.newBuf(size, size)
	}
	if size <= cap(*p) {
		*p = (*p)[:size]
		return p
	}
	np := t.newBuf(size, size)
	copy(*np, *p)
	t.free(p, bi)
	return np
}

// Append implements mempool.Allocator.
func (t *Tracker) Append(p *[]byte, more ...byte) *[]byte {
	bi := t.check(p, "Append")
	if bi == nil {
		np := t.newBuf(0, len(more))
		*np = append(*np, more...)
		return np
	}
	t.scan()
	if cap(*p)-len(*p) >= len(more) {
		*p = append(*p, more...)
		return p
	}
	if t.Moving {
		need := len(*p) + len(more)
		capa := 32
		for capa < need && capa < 1<<15 {
			capa <<= 1
		}
		if need > 1<<15 {
			capa = need
		}
		np := t.newBuf(need, capa)
		copy(*np, *p)
		copy((*np)[len(*p):], more)
		t.free(p, bi)
		return np
	}
	// same pointer, new backing array (what append does): the old array is garbage
	old := bi.capa
	*p = append(*p, more...)
	bi.capa = cap(*p)
	bi.base = uintptr(unsafe.Pointer(&(*p)[:1][0]))
	t.Live += bi.capa - old
	if t.Live > t.PeakLive {
		t.PeakLive = t.Live
	}
	return p
}

// AppendString implements mempool.Allocator.
func (t *Tracker) AppendString(p *[]byte, more string) *[]byte {
	return t.Append(p, []byte(more)...)
}

func (t *Tracker) free(p *[]byte, bi *bufInfo) {
	bi.live = false
	bi.freedBy = caller()
	t.Frees++
	t.Live -= bi.capa
	full := (*p)[:cap(*p)]
	for i := range full {
		full[i] = poison
	}
	if len(full) > 16<<10 {
		// keep the quarantine small: a large freed buffer is replaced by a short poisoned
		// one behind the same pointer (stale slice values still see the poisoned array)
		small := make([]byte, 64)
		for i := range small {
			small[i] = poison
		}
		*p = small
	}
	t.quarantine = append(t.quarantine, bi)
}

// Free implements mempool.Allocator.
func (t *Tracker) Free(p *[]byte) {
	if p == nil {
		return
	}
	bi := t.bufs[p]
	if bi == nil {
		if cap(*p) == 0 {
			return // a zero-capacity buffer the code made itself: MemPool ignores it too
		}
		t.fail("Free of a buffer that was not allocated by this allocator (len %d); at %s", len(*p), caller())
		return
	}
	if !bi.live {
		t.fail("double Free of buffer #%d (first freed at %s; allocated at %s); second Free at %s", bi.id, bi.freedBy, bi.allocBy, caller())
		return
	}
	t.scan()
	t.free(p, bi)
}

// scan verifies that no quarantined buffer has been written to after it was freed.
// Memory is never recycled, so the final scan in Finish sees every such write; the
// intermediate scans (every 256th call) only make the report land closer to the culprit.
func (t *Tracker) scan() {
	t.ops++
	if t.ops&255 != 0 {
		return
	}
	// periodic scans look at the most recently freed buffers only; Finish scans all
	start := len(t.quarantine) - 64
	if start < 0 {
		start = 0
	}
	t.scanFrom(start)
}

func (t *Tracker) scanAll() { t.scanFrom(0) }

func (t *Tracker) scanFrom(start int) {
	for _, bi := range t.quarantine[start:] {
		full := (*bi.p)[:cap(*bi.p)]
		for i, b := range full {
			if b != poison {
				t.fail("buffer #%d was written after it was freed (byte %d is %#x; freed at %s; allocated at %s)", bi.id, i, b, bi.freedBy, bi.allocBy)
				full[i] = poison
				break
			}
		}
	}
}

// Finish runs the final checks and returns the violations.
func (t *Tracker) Finish() []string {
	t.scanAll()
	return t.Violations
}

// LiveBuffers returns the number of buffers that were never freed.
func (t *Tracker) LiveBuffers() int {
	n := 0
	for _, bi := range t.bufs {
		if bi.live {
			n++
		}
	}
	return n
}

// HasPoison reports whether b contains a run of poison bytes (a read after free shows up
// as poison in observed output).
func HasPoison(b []byte) bool {
	run := 0
	for _, x := range b {
		if x == poison {
			run++
			if run >= 8 {
				return true
			}
		} else {
			run = 0
		}
	}
	return false
}
