package stream

// C11: pooled-buffer ownership. The ownership tracker is installed in every stream run;
// this check makes it the primary oracle over a mix of the other scenarios, biased to error
// paths (transport failures, rejected input, limits) and threshold-crossing writes.

import (
	"testing"

	"verif/harness/common"
	simrt "verif/sim/rt"
)

// OwnCase is a case of C11: exactly one of the embedded cases is set.
type OwnCase struct {
	Resp *RespCase   `json:"resp,omitempty"`
	RT   *RTCase     `json:"rt,omitempty"`
	Val  *ValCase    `json:"val,omitempty"`
	Rob  *RobustCase `json:"rob,omitempty"`
	Lim  *LimCase    `json:"lim,omitempty"`
	Seg  *SegCase    `json:"seg,omitempty"`
}

// propOverride lets the shared runners report ownership violations as C11's.
var propOverride string

func genOwnCase(r *simrt.Rand, tier string, idx int) *OwnCase {
	switch idx % 10 {
	case 8, 9:
		// pipelined messages in many segmentations: the parser's carry-over buffer is created,
		// replaced and released at every cut (read-after-free shows as poison in its output)
		c := genSegCase(r, tier)
		c.Muts = nil
		c.Multi = 32
		for len(c.Msgs) < 2 {
			c.Msgs = append(c.Msgs, genMsg(r, c.Response, false))
		}
		return &OwnCase{Seg: c}
	case 0, 1, 2:
		c := genRespCase(r, tier, r.Bool(0.5))
		// bias to threshold-crossing chunked / identity writes
		if r.Bool(0.5) {
			c.Ops = append(c.Ops, HOp{Op: "write", N: r.Pick(65535, 65536, 65537, 131072)}, HOp{Op: "write", N: r.Pick(1, 100, 65536)})
		}
		return &OwnCase{Resp: c}
	case 3, 4:
		c := genRTCase(r, tier)
		if r.Bool(0.4) {
			c.FailAt = r.Range(1, 5)
		}
		return &OwnCase{RT: c}
	case 5:
		return &OwnCase{Val: genValCase(r, tier, idx)}
	case 6:
		return &OwnCase{Rob: genRobustCase(r, tier)}
	default:
		c := genLimCase(r, tier)
		if c.Size > 1<<20 {
			c.Size = 1 << 20
		}
		return &OwnCase{Lim: c}
	}
}

func runOwn(t *testing.T, ci interface{}, trace bool) *common.Outcome {
	c := ci.(*OwnCase)
	propOverride = "C11"
	defer func() { propOverride = "" }()
	var o *common.Outcome
	switch {
	case c.Resp != nil:
		o = runResp(t, c.Resp, trace, "C11")
	case c.RT != nil:
		o = runRT(t, c.RT, trace, "C11")
	case c.Val != nil:
		o = runVal(t, c.Val, trace)
	case c.Rob != nil:
		o = runRobust(t, c.Rob, trace)
	case c.Lim != nil:
		o = runLim(t, c.Lim, trace)
	case c.Seg != nil:
		o = runSeg(t, c.Seg, trace)
	default:
		return &common.Outcome{Infra: "empty C11 case"}
	}
	// only ownership violations count for this property
	if o.V != nil && o.V.Oracle != "buffer-ownership" {
		o.Probe("other_property_oracle_fired:" + o.V.Oracle)
		o.V = nil
	}
	o.NonTrivial = lastFrees >= 3
	return o
}

func shrinkOwn(ci interface{}) []interface{} {
	c := ci.(*OwnCase)
	var out []interface{}
	switch {
	case c.Resp != nil:
		for _, x := range shrinkResp(c.Resp) {
			out = append(out, &OwnCase{Resp: x.(*RespCase)})
		}
	case c.RT != nil:
		for _, x := range shrinkRT(c.RT) {
			out = append(out, &OwnCase{RT: x.(*RTCase)})
		}
	case c.Val != nil:
		for _, x := range shrinkVal(c.Val) {
			out = append(out, &OwnCase{Val: x.(*ValCase)})
		}
	case c.Rob != nil:
		for _, x := range shrinkRobust(c.Rob) {
			out = append(out, &OwnCase{Rob: x.(*RobustCase)})
		}
	case c.Lim != nil:
		for _, x := range shrinkLim(c.Lim) {
			out = append(out, &OwnCase{Lim: x.(*LimCase)})
		}
	case c.Seg != nil:
		for _, x := range shrinkSeg(c.Seg) {
			out = append(out, &OwnCase{Seg: x.(*SegCase)})
		}
	}
	return out
}


// GenOwn, RunOwn and ShrinkOwn export the single-threaded part of C11 to the e2e world, which
// adds the close races (the same tracker under the real engine on the simulated kernel).
func GenOwn(r *simrt.Rand, tier string, idx int) *OwnCase { return genOwnCase(r, tier, idx) }
func RunOwn(t *testing.T, c *OwnCase, trace bool) *common.Outcome { return runOwn(t, c, trace) }
func ShrinkOwn(c *OwnCase) []*OwnCase {
	var out []*OwnCase
	for _, x := range shrinkOwn(c) {
		out = append(out, x.(*OwnCase))
	}
	return out
}

// OwnershipClass classifies a tracker violation for signatures.
func OwnershipClass(v string) string { return ownershipClass(v) }
