package stream

// C06: HTTP/1.x parsing is independent of segmentation. C08: robustness and bounds on
// arbitrary input. Both drive nbhttp.Parser through the recording processor.

import (
	"fmt"
	"testing"

	"verif/harness/common"
	simrt "verif/sim/rt"
)

// Mut is one corruption of the byte stream (the faulty / byzantine transport).
type Mut struct {
	Kind string `json:"kind"` // flip | del | ins | dup | trunc
	Pos  int    `json:"pos"`  // position as per-mille of the stream length
	Arg  int    `json:"arg,omitempty"`
}

func applyMuts(s []byte, muts []Mut) []byte {
	s = append([]byte(nil), s...)
	for _, m := range muts {
		if len(s) == 0 {
			break
		}
		pos := m.Pos * len(s) / 1000
		if pos >= len(s) {
			pos = len(s) - 1
		}
		switch m.Kind {
		case "flip":
			s[pos] ^= byte(1 << uint(m.Arg%8))
		case "set":
			s[pos] = byte(m.Arg)
		case "del":
			s = append(s[:pos], s[pos+1:]...)
		case "ins":
			s = append(s[:pos], append([]byte{byte(m.Arg)}, s[pos:]...)...)
		case "dup":
			n := m.Arg%16 + 1
			if pos+n > len(s) {
				n = len(s) - pos
			}
			seg := append([]byte(nil), s[pos:pos+n]...)
			s = append(s[:pos+n], append(seg, s[pos+n:]...)...)
		case "trunc":
			s = s[:pos]
		}
	}
	return s
}

// SegCase is a case of C06.
type SegCase struct {
	Seed     uint64    `json:"seed"`
	Response bool      `json:"response,omitempty"`
	Msgs     []MsgSpec `json:"msgs"`
	Muts     []Mut     `json:"muts,omitempty"`
	Multi    int       `json:"multi"` // number of random multi-cut segmentations
	MaxBody  int       `json:"max_body,omitempty"` // Engine.MaxHTTPBodySize
	Server   bool      `json:"server,omitempty"`   // requests: through the real ServerProcessor and a handler
	MovingPool bool    `json:"moving_pool,omitempty"` // mempool.DefaultMemPool behaves like AlignedAllocator (Append moves)
}

func genMuts(r *simrt.Rand, n int) []Mut {
	var out []Mut
	for i := 0; i < n; i++ {
		m := Mut{Kind: r.PickS("flip", "del", "ins", "dup", "trunc", "set", "set"), Pos: r.Intn(1000), Arg: r.Intn(256)}
		if m.Kind == "set" {
			m.Arg = r.Pick('\r', '\n', ' ', ':', ';', '0', 'g', '-', 0, 0x80, 'A')
		}
		out = append(out, m)
	}
	return out
}

func genSegCase(r *simrt.Rand, tier string) *SegCase {
	c := &SegCase{Seed: r.Uint64(), Response: r.Bool(0.35), Multi: 16}
	if tier == "thorough" {
		c.Multi = 48
	}
	n := r.Pick(1, 1, 2, 2, 3)
	for i := 0; i < n; i++ {
		c.Msgs = append(c.Msgs, genMsg(r, c.Response, false))
	}
	if r.Bool(0.4) {
		c.Muts = genMuts(r, r.Pick(1, 1, 2))
	}
	if r.Bool(0.4) {
		c.MaxBody = r.Pick(1, 16, 64, 300, 1000)
	}
	c.MovingPool = r.Bool(0.3)
	c.Server = !c.Response && len(c.Muts) == 0 && r.Bool(0.5)
	if c.Server {
		// requests pipelined behind a closing exchange are legitimately dropped, and how many of
		// them a server has already seen depends on the segmentation: only the last may close
		for i := range c.Msgs[:len(c.Msgs)-1] {
			c.Msgs[i].Proto, c.Msgs[i].Conn, c.Msgs[i].Conn2 = "HTTP/1.1", "", ""
		}
	}
	return c
}

// serverPath tells whether the case runs through ServerProcessor and a handler.
func (c *SegCase) serverPath() bool {
	if !c.Server || c.Response || len(c.Muts) > 0 {
		return false
	}
	for _, m := range c.Msgs[:len(c.Msgs)-1] {
		if m.Proto != "HTTP/1.1" || m.Conn != "" || m.Conn2 != "" {
			return false
		}
	}
	return true
}

func (c *SegCase) stream() []byte {
	var s []byte
	for _, m := range c.Msgs {
		s = append(s, m.encode(c.Response)...)
	}
	return applyMuts(s, c.Muts)
}

func shrinkSeg(ci interface{}) []interface{} {
	c := ci.(*SegCase)
	cp := func() *SegCase {
		x := *c
		x.Msgs = append([]MsgSpec(nil), c.Msgs...)
		x.Muts = append([]Mut(nil), c.Muts...)
		return &x
	}
	var out []interface{}
	for i := range c.Msgs {
		if len(c.Msgs) > 1 {
			x := cp()
			x.Msgs = append(x.Msgs[:i], x.Msgs[i+1:]...)
			out = append(out, x)
		}
	}
	for i := range c.Muts {
		x := cp()
		x.Muts = append(x.Muts[:i], x.Muts[i+1:]...)
		out = append(out, x)
	}
	for i, m := range c.Msgs {
		if len(m.Headers) > 0 {
			x := cp()
			x.Msgs[i].Headers = append([][2]string(nil), m.Headers[:len(m.Headers)-1]...)
			out = append(out, x)
		}
		if len(m.Trailers) > 0 {
			x := cp()
			x.Msgs[i].Trailers = nil
			out = append(out, x)
		}
		if len(m.Chunks) > 1 {
			x := cp()
			last := m.Chunks[len(m.Chunks)-1]
			x.Msgs[i].Chunks = append([]int(nil), m.Chunks[:len(m.Chunks)-1]...)
			x.Msgs[i].Body -= last
			out = append(out, x)
		}
		if m.Framing == "cl" && m.Body > 1 {
			x := cp()
			x.Msgs[i].Body = m.Body / 2
			out = append(out, x)
		}
		if m.Spacing != 0 || m.Conn != "" || m.Conn2 != "" || m.ChunkExt {
			x := cp()
			x.Msgs[i].Spacing, x.Msgs[i].Conn, x.Msgs[i].Conn2, x.Msgs[i].ChunkExt = 0, "", "", false
			out = append(out, x)
		}
	}
	if c.Multi > 0 {
		x := cp()
		x.Multi = 0
		out = append(out, x)
	}
	if c.MaxBody != 0 {
		x := cp()
		x.MaxBody = 0
		out = append(out, x)
	}
	if c.Server {
		x := cp()
		x.Server = false
		out = append(out, x)
	}
	if c.MovingPool {
		x := cp()
		x.MovingPool = false
		out = append(out, x)
	}
	return out
}

func describe(err error) string {
	if err == nil {
		return "accepted"
	}
	return "rejected (" + err.Error() + ")"
}

func runSeg(t *testing.T, ci interface{}, trace bool) *common.Outcome {
	c := ci.(*SegCase)
	o := &common.Outcome{}
	e := newEnv2(c.MovingPool, false)
	defer e.close()
	eng := newHTTPEngine(e, 0, c.MaxBody, nil)
	run := func(pieces [][]byte) *feedResult { return feed(e, eng, c.Response, pieces) }
	if c.serverPath() {
		run = func(pieces [][]byte) *feedResult { return feedServer(e, 0, c.MaxBody, pieces) }
	}
	s := c.stream()
	o.Finger = fnv(s)
	o.NonTrivial = len(c.Msgs) > 1
	for _, m := range c.Msgs {
		if m.Body > 0 {
			o.NonTrivial = true
		}
	}
	if len(s) == 0 {
		return o
	}
	ref := run([][]byte{s})
	check := func(name string, pieces [][]byte) bool {
		got := run(pieces)
		o.Steps++
		if (ref.Err != nil) != (got.Err != nil) {
			o.Fail("segmentation-changes-verdict", kindOf(c), "fed in one piece the stream is %s, fed as %s it is %s", describe(ref.Err), name, describe(got.Err))
			return false
		}
		if ok, why := sameEvents(ref.Events, got.Events); !ok {
			o.Fail("segmentation-changes-events", kindOf(c), "fed as %s: %s", name, why)
			return false
		}
		if ref.Err == nil && ref.PendingBody != got.PendingBody {
			// both feeds end inside a message: body bytes already handed over may differ only
			// if the stream is incomplete; they are compared when the message completes
		}
		return true
	}
	// every single cut position
	for i := 1; i < len(s); i++ {
		if !check(fmt.Sprintf("2 pieces cut at byte %d of %d", i, len(s)), [][]byte{s[:i], s[i:]}) {
			return finishStream(o, e, "C06")
		}
	}
	// byte at a time
	one := make([][]byte, len(s))
	for i := range s {
		one[i] = s[i : i+1]
	}
	if !check("single bytes", one) {
		return finishStream(o, e, "C06")
	}
	// random multi-cut segmentations
	r := simrt.NewRand(c.Seed)
	for k := 0; k < c.Multi; k++ {
		n := r.Range(2, 8)
		var at []int
		pos := 0
		for j := 0; j < n; j++ {
			pos += 1 + r.Intn(len(s)/n+2)
			at = append(at, pos)
		}
		if !check(fmt.Sprintf("pieces cut at %v", at), cut(s, at)) {
			break
		}
	}
	o.Probe(fmt.Sprintf("verdict_%v", ref.Err == nil))
	return finishStream(o, e, "C06")
}

func kindOf(c *SegCase) string {
	k := "request"
	if c.Response {
		k = "response"
	}
	if len(c.Muts) > 0 {
		k += "+mutated"
	}
	if c.serverPath() {
		k += "+handler"
	}
	return k
}

// finishStream applies the oracles every stream run shares: recovered panics (C08) and
// buffer ownership (C11); they fail the run only for their own property.
func finishStream(o *common.Outcome, e *env, prop string) *common.Outcome {
	if propOverride != "" {
		prop = propOverride
	}
	lastFrees = e.Pool.Frees + e.Body.Frees
	o.ProbeN("buffers_freed", lastFrees)
	if p := e.recoveredPanic(); p != "" {
		if prop == "C08" {
			o.Fail("recovered-panic", "", "a panic was recovered and only logged: %s", p)
		} else {
			o.Probe("other_property_oracle_fired:C08:recovered-panic")
		}
	}
	if v := e.ownership(); len(v) > 0 {
		if prop == "C11" {
			o.Fail("buffer-ownership", ownershipClass(v[0]), "%s", v[0])
		} else {
			o.Probe("other_property_oracle_fired:C11:buffer-ownership")
		}
	}
	return o
}

// lastFrees is the number of buffers returned to the allocators in the last run.
var lastFrees int

func ownershipClass(v string) string {
	switch {
	case contains(v, "double Free"):
		return "double-free"
	case contains(v, "read after free"):
		return "read-after-free"
	case contains(v, "stale reference"):
		return "stale-read-buffer"
	case contains(v, "after it was freed"):
		return "use-after-free"
	case contains(v, "written after"):
		return "write-after-free"
	case contains(v, "not allocated"):
		return "foreign"
	}
	return "other"
}

func contains(s, sub string) bool {
	for i := 0; i+len(sub) <= len(s); i++ {
		if s[i:i+len(sub)] == sub {
			return true
		}
	}
	return false
}
