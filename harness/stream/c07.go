package stream

// C07: on well-formed messages the delivered request / response equals what net/http
// extracts from the same bytes, including the offset at which each message ends.

import (
	"bufio"
	"bytes"
	"fmt"
	"io"
	"net/http"
	"sort"
	"strings"
	"testing"

	"github.com/lesismal/nbio/nbhttp"

	"verif/harness/common"
	simrt "verif/sim/rt"
)

// DiffCase is a case of C07.
type DiffCase struct {
	Seed     uint64    `json:"seed"`
	Response bool      `json:"response,omitempty"`
	Msgs     []MsgSpec `json:"msgs"`
	Piece    int       `json:"piece"` // feed size (1 = byte at a time, gives exact boundaries)
}

func genDiffCase(r *simrt.Rand, tier string) *DiffCase {
	c := &DiffCase{Seed: r.Uint64(), Response: r.Bool(0.35), Piece: r.Pick(1, 1, 3, 64, 100000)}
	n := r.Pick(1, 2, 2, 3, 4)
	for i := 0; i < n; i++ {
		m := genMsg(r, c.Response, true)
		// restrict to forms on which the two implementations are documented to agree
		if m.Target == "*" {
			m.Target = "/"
		}
		m.ChunkExt = false
		if c.Response && i < n-1 && m.Framing == "none" {
			m.Framing = "cl"
		}
		c.Msgs = append(c.Msgs, m)
	}
	return c
}

func shrinkDiff(ci interface{}) []interface{} {
	c := ci.(*DiffCase)
	var out []interface{}
	sc := &SegCase{Seed: c.Seed, Response: c.Response, Msgs: c.Msgs}
	sc.Multi = 0
	for _, x := range shrinkSeg(sc) {
		s := x.(*SegCase)
		out = append(out, &DiffCase{Seed: c.Seed, Response: c.Response, Msgs: s.Msgs, Piece: c.Piece})
	}
	if c.Piece != 1 {
		out = append(out, &DiffCase{Seed: c.Seed, Response: c.Response, Msgs: c.Msgs, Piece: 1})
	}
	return out
}

// msgView is the implementation independent view of a message.
type msgView struct {
	Line    string
	Host    string
	Header  map[string][]string
	Body    []byte
	Trailer map[string][]string
	Close   bool
	End     int // offset of the first byte after the message
}

// bookkeeping headers that net/http promotes to struct fields or removes
var skipHeader = map[string]bool{"Host": true, "Transfer-Encoding": true, "Trailer": true, "Connection": true}

func normHeader(h http.Header) map[string][]string {
	out := map[string][]string{}
	for k, vv := range h {
		if skipHeader[k] {
			continue
		}
		for _, v := range vv {
			out[k] = append(out[k], strings.Trim(v, " \t"))
		}
	}
	return out
}

func headerString(h map[string][]string) string {
	var keys []string
	for k := range h {
		keys = append(keys, k)
	}
	sort.Strings(keys)
	s := ""
	for _, k := range keys {
		s += fmt.Sprintf("%s=%q ", k, h[k])
	}
	return s
}

func (a *msgView) diff(b *msgView) string {
	switch {
	case a.Line != b.Line:
		return fmt.Sprintf("start line: nbio %q, net/http %q", a.Line, b.Line)
	case a.Host != b.Host:
		return fmt.Sprintf("host: nbio %q, net/http %q", a.Host, b.Host)
	case headerString(a.Header) != headerString(b.Header):
		return fmt.Sprintf("headers: nbio {%s}, net/http {%s}", headerString(a.Header), headerString(b.Header))
	case !bytes.Equal(a.Body, b.Body):
		return fmt.Sprintf("body: nbio %d bytes (%x), net/http %d bytes (%x)", len(a.Body), fnv(a.Body), len(b.Body), fnv(b.Body))
	case headerString(a.Trailer) != headerString(b.Trailer):
		return fmt.Sprintf("trailers: nbio {%s}, net/http {%s}", headerString(a.Trailer), headerString(b.Trailer))
	case a.Close != b.Close:
		return fmt.Sprintf("connection-close decision: nbio %v, net/http %v", a.Close, b.Close)
	case a.End != b.End && a.End >= 0:
		return fmt.Sprintf("message boundary: nbio delivers the message after byte %d, net/http's message ends at byte %d", a.End, b.End)
	}
	return ""
}

func runDiff(t *testing.T, ci interface{}, trace bool) *common.Outcome {
	c := ci.(*DiffCase)
	o := &common.Outcome{}
	e := newEnv(false)
	defer e.close()
	var s []byte
	for _, m := range c.Msgs {
		s = append(s, m.encode(c.Response)...)
	}
	o.Finger = fnv(s)
	chunked := false
	for _, m := range c.Msgs {
		if m.Framing == "chunked" {
			chunked = true
		}
	}
	o.NonTrivial = len(c.Msgs) > 1 || chunked
	// ---- reference: net/http ---------------------------------------------------------------
	var want []*msgView
	rd := bytes.NewReader(s)
	br := bufio.NewReader(rd)
	for range c.Msgs {
		v := &msgView{}
		if c.Response {
			resp, err := http.ReadResponse(br, &http.Request{Method: "GET"})
			if err != nil {
				o.Probe("reference_rejects_generated_message")
				return o // the generator left the common ground: nothing to compare
			}
			body, err := io.ReadAll(resp.Body)
			if err != nil {
				o.Probe("reference_rejects_generated_message")
				return o
			}
			v.Line = fmt.Sprintf("%s %d", resp.Proto, resp.StatusCode)
			v.Header, v.Body, v.Trailer = normHeader(resp.Header), body, normHeader(resp.Trailer)
			v.Close = false // not delivered by nbio's response path; not compared
		} else {
			req, err := http.ReadRequest(br)
			if err != nil {
				o.Probe("reference_rejects_generated_message")
				return o
			}
			body, err := io.ReadAll(req.Body)
			if err != nil {
				o.Probe("reference_rejects_generated_message")
				return o
			}
			v.Line = fmt.Sprintf("%s %s %s", req.Method, req.RequestURI, req.Proto)
			v.Host = req.Host
			v.Header, v.Body, v.Trailer, v.Close = normHeader(req.Header), body, normHeader(req.Trailer), req.Close
		}
		v.End = len(s) - rd.Len() - br.Buffered()
		want = append(want, v)
	}
	// ---- nbio ---------------------------------------------------------------------------------
	var got []*msgView
	fed := 0
	var perr error
	if c.Response {
		eng := newHTTPEngine(e, 0, 0, nil)
		rec := &respRecorder{}
		rec.done = func(v *msgView) { v.End = -1; got = append(got, v) }
		p := nbhttp.NewParser(&memConn{}, eng, rec, true, nil)
		for fed < len(s) && perr == nil {
			n := c.Piece
			if fed+n > len(s) {
				n = len(s) - fed
			}
			before := len(got)
			perr = p.Parse(append([]byte(nil), s[fed:fed+n]...))
			fed += n
			if c.Piece == 1 {
				for _, v := range got[before:] {
					v.End = fed
				}
			}
		}
		p.CloseAndClean(nil)
	} else {
		handler := http.HandlerFunc(func(w http.ResponseWriter, r *http.Request) {
			body, _ := io.ReadAll(r.Body)
			v := &msgView{Line: fmt.Sprintf("%s %s %s", r.Method, r.RequestURI, r.Proto), Host: r.Host,
				Header: normHeader(r.Header), Body: body, Trailer: normHeader(r.Trailer), Close: r.Close, End: -1}
			got = append(got, v)
		})
		eng := newHTTPEngine(e, 0, 0, handler)
		conn := &memConn{}
		p := nbhttp.NewParser(conn, eng, nbhttp.NewServerProcessor(), false, nil)
		for fed < len(s) && perr == nil && !conn.Closed {
			n := c.Piece
			if fed+n > len(s) {
				n = len(s) - fed
			}
			before := len(got)
			perr = p.Parse(append([]byte(nil), s[fed:fed+n]...))
			fed += n
			if c.Piece == 1 {
				for _, v := range got[before:] {
					v.End = fed
				}
			}
		}
		p.CloseAndClean(nil)
		if conn.Closed && perr == nil {
			// the server closed after a "Connection: close" exchange: later pipelined
			// messages are legitimately not processed
			want = want[:len(got)]
		}
	}
	kind := "request"
	if c.Response {
		kind = "response"
	}
	if perr != nil {
		o.Fail("wellformed-message-rejected", kind, "net/http accepts all %d messages, nbio's parser rejected the stream after %d bytes: %v", len(want), fed, perr)
		return finishStream(o, e, "C07")
	}
	if len(got) != len(want) {
		o.Fail("message-count", kind, "net/http extracts %d messages from the stream, nbio delivered %d", len(want), len(got))
		return finishStream(o, e, "C07")
	}
	for i := range want {
		if d := got[i].diff(want[i]); d != "" {
			cls := kind + "/" + strings.SplitN(d, ":", 2)[0]
			o.Fail("differs-from-reference", cls, "message %d of %d: %s", i+1, len(want), d)
			break
		}
	}
	return finishStream(o, e, "C07")
}

// respRecorder builds response views from parser callbacks.
type respRecorder struct {
	cur  *msgView
	done func(*msgView)
}

func (r *respRecorder) m() *msgView {
	if r.cur == nil {
		r.cur = &msgView{Header: map[string][]string{}, Trailer: map[string][]string{}}
	}
	return r.cur
}
func (r *respRecorder) OnMethod(p *nbhttp.Parser, m string)    {}
func (r *respRecorder) OnURL(p *nbhttp.Parser, u string) error { return nil }
func (r *respRecorder) OnProto(p *nbhttp.Parser, s string) error {
	r.m().Line = s
	return nil
}
func (r *respRecorder) OnStatus(p *nbhttp.Parser, code int, s string) {
	r.m().Line += fmt.Sprintf(" %d", code)
}
func (r *respRecorder) OnHeader(p *nbhttp.Parser, k, v string) {
	if !skipHeader[k] {
		r.m().Header[k] = append(r.m().Header[k], strings.Trim(v, " \t"))
	}
}
func (r *respRecorder) OnContentLength(p *nbhttp.Parser, n int) {}
func (r *respRecorder) OnBody(p *nbhttp.Parser, data []byte) error {
	r.m().Body = append(r.m().Body, data...)
	return nil
}
func (r *respRecorder) OnTrailerHeader(p *nbhttp.Parser, k, v string) {
	r.m().Trailer[k] = append(r.m().Trailer[k], strings.Trim(v, " \t"))
}
func (r *respRecorder) OnComplete(p *nbhttp.Parser) {
	v := r.m()
	if v.Body == nil {
		v.Body = []byte{}
	}
	r.cur = nil
	r.done(v)
}
func (r *respRecorder) Close(p *nbhttp.Parser, err error) {}
func (r *respRecorder) Clean(p *nbhttp.Parser)           {}

var _ = simrt.Mix
