package stream

// WebSocket part of the stream world: an independent frame codec, an executable
// reference validator for RFC 6455 frame sequences (written from the RFC, not from nbio),
// and the endpoint set-up shared by C12, C13 and C15.

import (
	"bytes"
	"compress/flate"
	"encoding/binary"
	"fmt"
	"io"
	"unicode/utf8"

	"github.com/lesismal/nbio/nbhttp"
	"github.com/lesismal/nbio/nbhttp/websocket"
)

// Frame is one WebSocket frame as generated / decoded by the harness.
type Frame struct {
	Fin     bool   `json:"fin"`
	Rsv     int    `json:"rsv,omitempty"` // bit 4: RSV1, 2: RSV2, 1: RSV3
	Op      int    `json:"op"`
	Masked  bool   `json:"masked,omitempty"`
	LenEnc  int    `json:"len_enc,omitempty"` // 0 minimal; 16 / 64: force that encoding
	TopBit  bool   `json:"top_bit,omitempty"` // 64-bit length with the most significant bit set
	Payload []byte `json:"payload,omitempty"`
	Declared int64 `json:"declared,omitempty"` // > 0: declare this length but send only Payload (trickle / truncated)
}

func (f Frame) encode(key [4]byte) []byte {
	var b []byte
	b0 := byte(f.Op&0xF) | byte(f.Rsv&7)<<4
	if f.Fin {
		b0 |= 0x80
	}
	b = append(b, b0)
	n := int64(len(f.Payload))
	if f.Declared > 0 {
		n = f.Declared
	}
	mask := byte(0)
	if f.Masked {
		mask = 0x80
	}
	switch {
	case f.TopBit:
		b = append(b, mask|127)
		var l [8]byte
		binary.BigEndian.PutUint64(l[:], uint64(n)|1<<63)
		b = append(b, l[:]...)
	case f.LenEnc == 64 || (f.LenEnc == 0 && n > 65535):
		b = append(b, mask|127)
		var l [8]byte
		binary.BigEndian.PutUint64(l[:], uint64(n))
		b = append(b, l[:]...)
	case f.LenEnc == 16 || (f.LenEnc == 0 && n > 125):
		b = append(b, mask|126)
		var l [2]byte
		binary.BigEndian.PutUint16(l[:], uint16(n))
		b = append(b, l[:]...)
	default:
		b = append(b, mask|byte(n))
	}
	if f.Masked {
		b = append(b, key[:]...)
		p := append([]byte(nil), f.Payload...)
		for i := range p {
			p[i] ^= key[i&3]
		}
		return append(b, p...)
	}
	return append(b, f.Payload...)
}

// decodeFrames is the independent decoder used to judge what nbio put on the wire.
func decodeFrames(b []byte) ([]Frame, string) {
	var out []Frame
	for len(b) > 0 {
		if len(b) < 2 {
			return out, "truncated frame header"
		}
		f := Frame{Fin: b[0]&0x80 != 0, Rsv: int(b[0]>>4) & 7, Op: int(b[0] & 0xF), Masked: b[1]&0x80 != 0}
		n := int64(b[1] & 0x7F)
		hl := 2
		switch n {
		case 126:
			if len(b) < 4 {
				return out, "truncated 16-bit length"
			}
			n = int64(binary.BigEndian.Uint16(b[2:4]))
			hl = 4
			f.LenEnc = 16
			if n <= 125 {
				return out, fmt.Sprintf("non-minimal length encoding: %d in 16 bits", n)
			}
		case 127:
			if len(b) < 10 {
				return out, "truncated 64-bit length"
			}
			u := binary.BigEndian.Uint64(b[2:10])
			if u>>63 != 0 {
				return out, "64-bit length with the top bit set"
			}
			n = int64(u)
			hl = 10
			f.LenEnc = 64
			if n <= 65535 {
				return out, fmt.Sprintf("non-minimal length encoding: %d in 64 bits", n)
			}
		}
		var key [4]byte
		if f.Masked {
			if len(b) < hl+4 {
				return out, "truncated mask key"
			}
			copy(key[:], b[hl:hl+4])
			hl += 4
		}
		if int64(len(b)) < int64(hl)+n {
			return out, fmt.Sprintf("truncated payload: declared %d, %d on the wire", n, len(b)-hl)
		}
		p := append([]byte(nil), b[hl:hl+int(n)]...)
		if f.Masked {
			for i := range p {
				p[i] ^= key[i&3]
			}
		}
		f.Payload = p
		out = append(out, f)
		b = b[hl+int(n):]
	}
	return out, ""
}

// Msg is a delivered / expected message.
type Msg struct {
	Type    int
	Payload []byte
}

func inflate(b []byte) ([]byte, error) {
	r := flate.NewReader(io.MultiReader(bytes.NewReader(b), bytes.NewReader([]byte{0x00, 0x00, 0xff, 0xff, 0x01, 0x00, 0x00, 0xff, 0xff})))
	defer r.Close()
	return io.ReadAll(r)
}

func deflate(b []byte, level int) []byte {
	var buf bytes.Buffer
	w, _ := flate.NewWriter(&buf, level)
	w.Write(b)
	w.Flush()
	out := buf.Bytes()
	if len(out) >= 4 {
		out = out[:len(out)-4] // strip 00 00 ff ff as RFC 7692 says
	}
	return out
}

// Deflate and Inflate are the peer-side permessage-deflate codec (RFC 7692) for other worlds.
func Deflate(b []byte) []byte          { return deflate(b, 6) }
func Inflate(b []byte) ([]byte, error) { return inflate(b) }

// deflateFinal compresses b as one stream that ends with a BFINAL block, the alternative that
// RFC 7692 section 7.2.3.4 allows a sender (followed by the 0x00 octet it prescribes).
func deflateFinal(b []byte, level int) []byte {
	var buf bytes.Buffer
	w, _ := flate.NewWriter(&buf, level)
	w.Write(b)
	w.Close()
	return append(buf.Bytes(), 0x00)
}

// verdict of the reference validator.
type verdict struct {
	Deliver   []Msg // messages that must be delivered, in order
	Violation int   // index of the first offending frame, -1 if the sequence is legal
	Why       string
	Either    bool  // the RFC leaves latitude at this frame: nothing is asserted from here on
	Pings     [][]byte // payloads of pings that must be answered (before violation / close)
	Closed    bool  // a legal close frame ended the sequence
	CloseAt   int
}

// validate is the executable reference for RFC 6455 sections 5.2, 5.4, 5.5, 7.4, 8.1.
func validate(frames []Frame, compression bool, limit int) verdict {
	v := verdict{Violation: -1, CloseAt: -1}
	inFrag := false
	fragType := 0
	fragCompressed := false
	var acc []byte
	fail := func(i int, why string) verdict { v.Violation = i; v.Why = why; return v }
	for i, f := range frames {
		if f.Declared > 0 {
			return v // incomplete frame: nothing more can be said
		}
		if f.Rsv&3 != 0 {
			return fail(i, "RSV2/RSV3 set")
		}
		if f.Op >= 3 && f.Op <= 7 || f.Op >= 11 {
			return fail(i, fmt.Sprintf("reserved opcode %d", f.Op))
		}
		if f.TopBit {
			return fail(i, "64-bit length with the most significant bit set")
		}
		if f.LenEnc != 0 {
			n := len(f.Payload)
			if (f.LenEnc == 16 && n <= 125) || (f.LenEnc == 64 && n <= 65535) {
				v.Either = true // non-minimal length: receivers differ
				return v
			}
		}
		control := f.Op >= 8
		if f.Rsv&4 != 0 {
			if !compression {
				return fail(i, "RSV1 set without a negotiated extension")
			}
			if control || f.Op == 0 {
				v.Either = true // RSV1 on control / continuation frames with permessage-deflate: RFC 7692 says MUST NOT, receivers differ
				return v
			}
		}
		if control {
			if !f.Fin {
				return fail(i, "fragmented control frame")
			}
			if len(f.Payload) > 125 {
				return fail(i, "control frame payload above 125 bytes")
			}
			switch f.Op {
			case 9:
				v.Pings = append(v.Pings, f.Payload)
			case 8:
				if len(f.Payload) == 1 {
					return fail(i, "close frame with a 1-byte payload")
				}
				if len(f.Payload) >= 2 {
					code := int(binary.BigEndian.Uint16(f.Payload))
					switch {
					case code >= 1000 && code <= 1003, code >= 1007 && code <= 1011, code >= 3000 && code <= 4999:
					case code >= 1012 && code <= 1015, code >= 5000:
						v.Either = true
						return v
					default:
						return fail(i, fmt.Sprintf("illegal close code %d", code))
					}
					if !utf8.Valid(f.Payload[2:]) {
						return fail(i, "invalid UTF-8 in close reason")
					}
				}
				v.Closed = true
				v.CloseAt = i
				return v
			}
			continue
		}
		// data frames
		if f.Op == 0 {
			if !inFrag {
				return fail(i, "continuation frame without a started message")
			}
		} else {
			if inFrag {
				return fail(i, "new data frame inside a fragmented message")
			}
			fragType = f.Op
			fragCompressed = f.Rsv&4 != 0
			acc = nil
		}
		acc = append(acc, f.Payload...)
		if limit > 0 && len(acc) > limit {
			v.Either = true // size limits are C15's business
			return v
		}
		if !f.Fin {
			inFrag = true
			continue
		}
		inFrag = false
		payload := acc
		if fragCompressed {
			p, err := inflate(acc)
			if err != nil {
				v.Either = true
				return v
			}
			payload = p
			if limit > 0 && len(payload) > limit {
				v.Either = true
				return v
			}
		}
		if fragType == 1 && !utf8.Valid(payload) {
			return fail(i, "invalid UTF-8 in a text message")
		}
		v.Deliver = append(v.Deliver, Msg{fragType, append([]byte(nil), payload...)})
		acc = nil
	}
	return v
}

// wsEnd is one nbio endpoint under test plus everything the harness observes about it.
type wsEnd struct {
	C       *websocket.Conn
	Conn    *memConn
	Got     []Msg
	Closes  int
	CloseErr error
	Pongs   [][]byte
	Opens   int
	parseErr error
	Frames  []frameEv // data-frame callbacks (wsCfg.DataFrame)
}

// frameEv is one OnDataFrame callback.
type frameEv struct {
	Type    int
	Fin     bool
	Payload []byte
}

type wsCfg struct {
	Client      bool
	Compression bool
	Level       int
	Limit       int // MessageLengthLimit
	ReadLimit   int
	FrameMax    int // Engine.MaxWebsocketFramePayloadSize
	Async       bool
	DataFrame   bool // an OnDataFrame handler is registered as well
}

func newWSEnd(e *env, cfg wsCfg) *wsEnd {
	w := &wsEnd{Conn: &memConn{}}
	conf := nbhttp.Config{Name: "sim", ReadLimit: cfg.ReadLimit, MaxWebsocketFramePayloadSize: cfg.FrameMax,
		ServerExecutor: func(f func()) { f() }, ClientExecutor: func(f func()) { f() }, BodyAllocator: e.Body, SupportServerOnly: true}
	eng := nbhttp.NewEngine(conf)
	u := websocket.NewUpgrader()
	u.Engine = eng
	u.KeepaliveTime = 0
	u.MessageLengthLimit = cfg.Limit
	if cfg.Compression {
		u.EnableCompression(true)
		if cfg.Level != 0 {
			u.SetCompressionLevel(cfg.Level)
		}
	}
	u.OnMessage(func(c *websocket.Conn, mt websocket.MessageType, data []byte) {
		w.Got = append(w.Got, Msg{int(mt), append([]byte(nil), data...)})
	})
	if cfg.DataFrame {
		u.OnDataFrame(func(c *websocket.Conn, mt websocket.MessageType, fin bool, data []byte) {
			w.Frames = append(w.Frames, frameEv{int(mt), fin, append([]byte(nil), data...)})
		})
	}
	u.SetPongHandler(func(c *websocket.Conn, s string) { w.Pongs = append(w.Pongs, []byte(s)) })
	u.OnClose(func(c *websocket.Conn, err error) { w.Closes++; w.CloseErr = err })
	if cfg.Client {
		w.C = websocket.NewClientConn(u, w.Conn, "", cfg.Compression, cfg.Async)
	} else {
		w.C = websocket.NewServerConn(u, w.Conn, "", cfg.Compression, cfg.Async)
	}
	w.C.Execute = func(f func()) bool { f(); return true }
	return w
}

// feedWS feeds wire bytes in the given pieces the way the engine does: first error closes.
func (w *wsEnd) feed(pieces [][]byte) {
	for _, p := range pieces {
		if w.parseErr != nil || w.Conn.Closed {
			return
		}
		buf := append([]byte(nil), p...)
		err := w.C.Parse(buf)
		for i := range buf {
			buf[i] = 0xEE
		}
		if err != nil {
			w.parseErr = err
			w.C.CloseAndClean(err)
			return
		}
	}
}

func sameMsgs(a, b []Msg) (bool, string) {
	n := len(a)
	if len(b) < n {
		n = len(b)
	}
	for i := 0; i < n; i++ {
		if a[i].Type != b[i].Type {
			return false, fmt.Sprintf("message %d: type %d vs %d", i, a[i].Type, b[i].Type)
		}
		if !bytes.Equal(a[i].Payload, b[i].Payload) {
			k := 0
			for k < len(a[i].Payload) && k < len(b[i].Payload) && a[i].Payload[k] == b[i].Payload[k] {
				k++
			}
			return false, fmt.Sprintf("message %d: payload %d bytes vs %d bytes, first difference at offset %d", i, len(a[i].Payload), len(b[i].Payload), k)
		}
	}
	if len(a) != len(b) {
		return false, fmt.Sprintf("%d messages vs %d", len(a), len(b))
	}
	return true, ""
}

// EncodeFrame and DecodeFrames export the independent frame codec to the e2e world.
func EncodeFrame(f Frame, key [4]byte) []byte { return f.encode(key) }

// DecodeFrames decodes as many complete frames as b holds; the string is empty or says why decoding stopped.
func DecodeFrames(b []byte) ([]Frame, string) { return decodeFrames(b) }
