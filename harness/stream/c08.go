package stream

// C08: the peer is byzantine and the transport corrupts. Arbitrary bytes in arbitrary
// segmentation, with ReadLimit and MaxHTTPBodySize drawn small enough to be hit.

import (
	"fmt"
	"io"
	"net/http"
	"strings"
	"testing"

	"github.com/lesismal/nbio/nbhttp"

	"verif/harness/common"
	simrt "verif/sim/rt"
)

// RobustCase is a case of C08.
type RobustCase struct {
	Seed      uint64    `json:"seed"`
	Response  bool      `json:"response,omitempty"`
	Msgs      []MsgSpec `json:"msgs,omitempty"`
	Muts      []Mut     `json:"muts,omitempty"`
	Garbage   int       `json:"garbage,omitempty"` // > 0: random bytes instead of messages
	Catalogue int       `json:"catalogue,omitempty"` // > 0: entry of the malformed-framing catalogue (1-based)
	ReadLimit int       `json:"read_limit"`
	MaxBody   int       `json:"max_body"`
	Piece     int       `json:"piece"` // read size of the transport
}

// the catalogue of malformed framing metadata: each must be rejected, never delivered
var catalogue = []struct{ name, stream string }{
	{"non-numeric Content-Length", "POST / HTTP/1.1\r\nHost: a\r\nContent-Length: 1x\r\n\r\nab"},
	{"negative Content-Length", "POST / HTTP/1.1\r\nHost: a\r\nContent-Length: -1\r\n\r\n"},
	{"overflowing Content-Length", "POST / HTTP/1.1\r\nHost: a\r\nContent-Length: 99999999999999999999\r\n\r\n"},
	{"plus sign Content-Length", "POST / HTTP/1.1\r\nHost: a\r\nContent-Length: +5\r\n\r\nhello"},
	{"unsupported Transfer-Encoding", "POST / HTTP/1.1\r\nHost: a\r\nTransfer-Encoding: gzip\r\n\r\n"},
	{"repeated Transfer-Encoding", "POST / HTTP/1.1\r\nHost: a\r\nTransfer-Encoding: chunked\r\nTransfer-Encoding: chunked\r\n\r\n0\r\n\r\n"},
	{"non-hex chunk size", "POST / HTTP/1.1\r\nHost: a\r\nTransfer-Encoding: chunked\r\n\r\nxyz\r\nabc\r\n0\r\n\r\n"},
	{"overflowing chunk size", "POST / HTTP/1.1\r\nHost: a\r\nTransfer-Encoding: chunked\r\n\r\nffffffffffffffffff\r\nabc\r\n0\r\n\r\n"},
	{"missing LF after request line CR", "GET / HTTP/1.1\rHost: a\r\n\r\n"},
	{"missing CR after chunk data", "POST / HTTP/1.1\r\nHost: a\r\nTransfer-Encoding: chunked\r\n\r\n3\r\nabcX\n0\r\n\r\n"},
	{"missing LF after chunk data CR", "POST / HTTP/1.1\r\nHost: a\r\nTransfer-Encoding: chunked\r\n\r\n3\r\nabc\rX0\r\n\r\n"},
	{"missing LF after chunk size CR", "POST / HTTP/1.1\r\nHost: a\r\nTransfer-Encoding: chunked\r\n\r\n3\rXabc\r\n0\r\n\r\n"},
	{"missing LF after header CR", "GET / HTTP/1.1\r\nHost: a\rX\r\n\r\n"},
	{"missing LF after final CR", "GET / HTTP/1.1\r\nHost: a\r\n\rX"},
	{"Content-Length with chunked (response)", "HTTP/1.1 200 OK\r\nContent-Length: x\r\n\r\n"},
	{"empty chunk size", "POST / HTTP/1.1\r\nHost: a\r\nTransfer-Encoding: chunked\r\n\r\n\r\nabc\r\n0\r\n\r\n"},
	{"missing final CRLF CR", "POST / HTTP/1.1\r\nHost: a\r\nTransfer-Encoding: chunked\r\n\r\n0\r\nX\n"},
	{"unsupported Transfer-Encoding (empty value)", "POST / HTTP/1.1\r\nHost: a\r\nTransfer-Encoding:\r\n\r\n"},
	{"unsupported Transfer-Encoding (blank value)", "POST / HTTP/1.1\r\nHost: a\r\nTransfer-Encoding: \r\n\r\n"},
	{"repeated Transfer-Encoding (empty first)", "POST / HTTP/1.1\r\nHost: a\r\nTransfer-Encoding:\r\nTransfer-Encoding: chunked\r\n\r\n0\r\n\r\n"},
	{"repeated Transfer-Encoding (empty second)", "POST / HTTP/1.1\r\nHost: a\r\nTransfer-Encoding: chunked\r\nTransfer-Encoding:\r\n\r\n0\r\n\r\n"},
	{"unsupported Transfer-Encoding (empty value, response)", "HTTP/1.1 200 OK\r\nTransfer-Encoding:\r\n\r\n"},
	{"repeated Transfer-Encoding (response)", "HTTP/1.1 200 OK\r\nTransfer-Encoding: chunked\r\nTransfer-Encoding: chunked\r\n\r\n0\r\n\r\n"},
	{"unsupported Transfer-Encoding (list)", "POST / HTTP/1.1\r\nHost: a\r\nTransfer-Encoding: gzip, chunked\r\n\r\n0\r\n\r\n"},
	{"hexadecimal Content-Length", "POST / HTTP/1.1\r\nHost: a\r\nContent-Length: 0x2\r\n\r\nab"},
	{"Content-Length with inner space", "POST / HTTP/1.1\r\nHost: a\r\nContent-Length: 1 0\r\n\r\n0123456789"},
	{"negative chunk size", "POST / HTTP/1.1\r\nHost: a\r\nTransfer-Encoding: chunked\r\n\r\n-1\r\nabc\r\n0\r\n\r\n"},
}

func genRobustCase(r *simrt.Rand, tier string) *RobustCase {
	c := &RobustCase{Seed: r.Uint64(), Response: r.Bool(0.3), Piece: r.Pick(1, 2, 7, 64, 512, 100000)}
	c.ReadLimit = r.Pick(0, 16, 64, 256, 1024, 4096)
	c.MaxBody = r.Pick(0, 1, 16, 100, 1000)
	switch k := r.Intn(10); {
	case k < 1:
		c.Garbage = r.Pick(1, 10, 100, 2000)
	case k < 3:
		c.Catalogue = 1 + r.Intn(len(catalogue))
		if r.Bool(0.3) {
			c.ReadLimit, c.MaxBody = 0, 0
		}
	default:
		n := r.Pick(1, 1, 2, 3)
		for i := 0; i < n; i++ {
			c.Msgs = append(c.Msgs, genMsg(r, c.Response, false))
		}
		c.Muts = genMuts(r, r.Pick(0, 1, 1, 2, 4))
		if r.Bool(0.15) {
			// oversize field
			c.Msgs[0].Headers = append(c.Msgs[0].Headers, [2]string{"X-Big", strings.Repeat("v", r.Pick(100, 5000, 70000))})
		}
	}
	return c
}

func (c *RobustCase) stream() ([]byte, bool) {
	switch {
	case c.Catalogue > 0:
		ent := catalogue[c.Catalogue-1]
		return []byte(ent.stream), strings.HasPrefix(ent.stream, "HTTP/")
	case c.Garbage > 0:
		r := simrt.NewRand(c.Seed)
		b := make([]byte, c.Garbage)
		for i := range b {
			b[i] = byte(r.Intn(256))
		}
		return b, c.Response
	}
	sc := &SegCase{Response: c.Response, Msgs: c.Msgs, Muts: c.Muts}
	return sc.stream(), c.Response
}

func shrinkRobust(ci interface{}) []interface{} {
	c := ci.(*RobustCase)
	var out []interface{}
	if len(c.Msgs) > 0 {
		sc := &SegCase{Seed: c.Seed, Response: c.Response, Msgs: c.Msgs, Muts: c.Muts}
		for _, x := range shrinkSeg(sc) {
			s := x.(*SegCase)
			y := *c
			y.Msgs, y.Muts = s.Msgs, s.Muts
			out = append(out, &y)
		}
	}
	if c.Garbage > 1 {
		y := *c
		y.Garbage = c.Garbage / 2
		out = append(out, &y)
	}
	if c.ReadLimit != 0 {
		y := *c
		y.ReadLimit = 0
		out = append(out, &y)
	}
	if c.MaxBody != 0 {
		y := *c
		y.MaxBody = 0
		out = append(out, &y)
	}
	if c.Piece != 100000 {
		y := *c
		y.Piece = 100000
		out = append(out, &y)
	}
	return out
}

func runRobust(t *testing.T, ci interface{}, trace bool) *common.Outcome {
	c := ci.(*RobustCase)
	o := &common.Outcome{}
	e := newEnv(false)
	defer e.close()
	s, isResp := c.stream()
	o.Finger = fnv(s) ^ uint64(c.Piece)<<40 ^ uint64(c.ReadLimit)<<20 ^ uint64(c.MaxBody)
	var pieces [][]byte
	maxPiece := 0
	for off := 0; off < len(s); off += c.Piece {
		end := off + c.Piece
		if end > len(s) {
			end = len(s)
		}
		pieces = append(pieces, s[off:end])
		if end-off > maxPiece {
			maxPiece = end - off
		}
	}
	if len(pieces) == 0 {
		return o
	}
	var res *feedResult
	if isResp {
		res = feed(e, newHTTPEngine(e, c.ReadLimit, c.MaxBody, nil), true, pieces)
	} else {
		// requests go through the real ServerProcessor / BodyReader (MaxHTTPBodySize lives there)
		res = feedServer(e, c.ReadLimit, c.MaxBody, pieces)
	}
	o.Steps = len(pieces)
	o.NonTrivial = (len(c.Muts) > 0 || c.Garbage > 0 || c.Catalogue > 0) && len(res.Events) > 0
	if res.AfterClose > 0 {
		o.Fail("callback-after-error", "", "after Parse returned an error (%v) and the parser was closed, %d further callbacks were observed / a later Parse was accepted", res.Err, res.AfterClose)
	}
	if c.Catalogue > 0 {
		ent := catalogue[c.Catalogue-1]
		delivered := false
		for _, ev := range res.Events {
			if ev == "complete" {
				delivered = true
			}
		}
		if res.Err == nil || delivered {
			o.Fail("malformed-framing-accepted", ent.name, "malformed framing (%s) was not rejected: error=%v, message delivered=%v; events: %v", ent.name, res.Err, delivered, res.Events)
		}
		o.Probe("catalogue_entries")
	}
	// bounds
	if res.CarryOver != "" {
		o.Fail("retained-bytes-exceed-limit", "carry-over", "%s (MaxHTTPBodySize=%d, stream %d bytes)", res.CarryOver, c.MaxBody, len(s))
	}
	if c.ReadLimit > 0 && res.PeakCache > 0 {
		// live pooled bytes (parser carry-over and body buffers, by capacity) after any Parse call:
		// the incomplete message may hold ReadLimit + one read; body buffers are bounded separately
		limit := c.ReadLimit + maxPiece
		if c.MaxBody > 0 {
			limit += c.MaxBody
		} else {
			limit += len(s)
		}
		limit = limit*2 + 4096 // capacity rounding of the allocators and the head-room of small buffers
		if res.PeakCache > limit {
			o.Fail("retained-bytes-exceed-limit", "", "pooled bytes held for one connection peaked at %d with ReadLimit=%d, MaxHTTPBodySize=%d and reads of at most %d bytes (stream %d bytes)", res.PeakCache, c.ReadLimit, c.MaxBody, maxPiece, len(s))
		}
	}
	if c.MaxBody > 0 && !isResp {
		for _, ev := range res.Events {
			var n int
			var h uint64
			if _, err := fmt.Sscanf(ev, "body %d bytes %x", &n, &h); err == nil && n > c.MaxBody {
				o.Fail("body-exceeds-max", "", "a message with a %d byte body was delivered although MaxHTTPBodySize is %d", n, c.MaxBody)
			}
		}
		if res.PendingBody > c.MaxBody {
			o.Fail("body-exceeds-max", "pending", "%d body bytes were handed over for an incomplete message although MaxHTTPBodySize is %d", res.PendingBody, c.MaxBody)
		}
	}
	return finishStream(o, e, "C08")
}


// feedServer drives Parser + ServerProcessor + a recording handler like the engine does.
func feedServer(e *env, readLimit, maxBody int, pieces [][]byte) *feedResult {
	res := &feedResult{ErrAt: -1}
	closed := false
	handler := http.HandlerFunc(func(w http.ResponseWriter, r *http.Request) {
		if closed {
			res.AfterClose++
		}
		body, _ := io.ReadAll(r.Body)
		res.Events = append(res.Events, fmt.Sprintf("body %d bytes %x", len(body), fnv(body)), "complete")
	})
	eng := newHTTPEngine(e, readLimit, maxBody, handler)
	conn := &memConn{}
	p := nbhttp.NewParser(conn, eng, nbhttp.NewServerProcessor(), false, nil)
	for i, piece := range pieces {
		buf := append([]byte(nil), piece...)
		err := p.Parse(buf)
		for j := range buf {
			buf[j] = 0xEE
		}
		if live := e.Pool.Live + e.Body.Live; live > res.PeakCache {
			res.PeakCache = live
		}
		if err == nil {
			res.carryOver(p, readLimit, len(piece), i)
		}
		if err != nil {
			res.Err = err
			res.ErrAt = i
			closed = true
			p.CloseAndClean(err)
			if err2 := p.Parse([]byte("GET / HTTP/1.1\r\nHost: a\r\n\r\n")); err2 == nil {
				res.AfterClose += 1000
			}
			break
		}
		if conn.Closed {
			break // the server closed the connection itself (Connection: close)
		}
	}
	if res.Err == nil {
		p.CloseAndClean(nil)
	}
	return res
}
