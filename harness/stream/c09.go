package stream

// C09: whatever the handler does with the ResponseWriter, the bytes on the wire form exactly
// one well-formed response that an independent client parser (net/http) decodes to the
// handler's status, headers, trailers and body. The transport can fail (separate batch).

import (
	"bufio"
	"bytes"
	"fmt"
	"io"
	"net/http"
	"strings"
	"testing"

	"github.com/lesismal/nbio/nbhttp"

	"verif/harness/common"
	simrt "verif/sim/rt"
)

// HOp is one operation of a handler program.
type HOp struct {
	Op string `json:"op"` // set | add | del | status | write | writestr | flush | readfrom | trailer
	K  string `json:"k,omitempty"`
	V  string `json:"v,omitempty"`
	N  int    `json:"n,omitempty"`
}

// RespCase is a case of C09.
type RespCase struct {
	Proto    string `json:"proto"`              // request version: HTTP/1.0 | HTTP/1.1
	ReqConn  string `json:"req_conn,omitempty"` // Connection header of the request
	Ops      []HOp  `json:"ops"`
	ExplicitCL bool `json:"explicit_cl,omitempty"` // the handler sets Content-Length to the total it is going to write
	Trailers []string `json:"trailers,omitempty"`  // declared before the body, set after it
	TrailerLines bool `json:"trailer_lines,omitempty"` // declared with one Header().Add("Trailer", name) per name
	FailAt   int    `json:"fail_at,omitempty"`     // transport: the k-th Write on the connection fails
}

var thresholdSizes = []int{0, 1, 2, 100, 1000, 4096, 65535 - 1100, 65535 - 200, 65534, 65535, 65536, 65537, 65536 + 200, 70000, 131072, 200000}

func genRespCase(r *simrt.Rand, tier string, faults bool) *RespCase {
	c := &RespCase{Proto: r.PickS("HTTP/1.1", "HTTP/1.1", "HTTP/1.0"), ReqConn: r.PickS("", "", "close", "keep-alive")}
	if r.Bool(0.5) {
		c.Ops = append(c.Ops, HOp{Op: "set", K: r.PickS("X-One", "Content-Type", "Cache-Control", "X-Two"), V: headerValues[r.Intn(len(headerValues))]})
	}
	if r.Bool(0.2) {
		c.Ops = append(c.Ops, HOp{Op: "add", K: "X-Multi", V: "a"}, HOp{Op: "add", K: "X-Multi", V: "b"})
	}
	if r.Bool(0.15) {
		c.Ops = append(c.Ops, HOp{Op: "set", K: "X-Gone", V: "1"}, HOp{Op: "del", K: "X-Gone"})
	}
	if r.Bool(0.4) {
		c.Ops = append(c.Ops, HOp{Op: "status", N: r.Pick(200, 201, 202, 299, 400, 404, 418, 500, 503, 599)})
	}
	nw := r.Pick(0, 1, 1, 2, 2, 3, 5)
	for i := 0; i < nw; i++ {
		op := HOp{Op: r.PickS("write", "write", "write", "writestr"), N: thresholdSizes[r.Intn(len(thresholdSizes))]}
		if r.Bool(0.3) {
			op.N = r.Intn(3000)
		}
		c.Ops = append(c.Ops, op)
		if r.Bool(0.15) {
			c.Ops = append(c.Ops, HOp{Op: "flush"})
		}
	}
	if nw == 0 && r.Bool(0.3) {
		c.Ops = append(c.Ops, HOp{Op: "flush"})
	}
	if r.Bool(0.08) {
		c.Ops = append(c.Ops, HOp{Op: "readfrom", N: r.Pick(1, 1000, 70000)})
	}
	c.ExplicitCL = r.Bool(0.3)
	if !c.ExplicitCL && r.Bool(0.2) {
		c.Trailers = []string{"X-Checksum"}
		if r.Bool(0.3) {
			c.Trailers = append(c.Trailers, "X-Second")
			c.TrailerLines = r.Bool(0.5)
		}
	}
	if faults {
		c.FailAt = r.Range(1, 4)
	}
	return c
}

func shrinkResp(ci interface{}) []interface{} {
	c := ci.(*RespCase)
	cp := func() *RespCase { x := *c; x.Ops = append([]HOp(nil), c.Ops...); return &x }
	var out []interface{}
	for i := range c.Ops {
		x := cp()
		x.Ops = append(x.Ops[:i], x.Ops[i+1:]...)
		out = append(out, x)
	}
	for i, op := range c.Ops {
		if op.N > 1 && op.Op != "status" {
			for _, n := range []int{op.N / 2, op.N - 1} {
				x := cp()
				x.Ops[i].N = n
				out = append(out, x)
			}
		}
	}
	if len(c.Trailers) > 0 {
		x := cp()
		x.Trailers = c.Trailers[:len(c.Trailers)-1]
		out = append(out, x)
	}
	if c.ExplicitCL {
		x := cp()
		x.ExplicitCL = false
		out = append(out, x)
	}
	if c.ReqConn != "" {
		x := cp()
		x.ReqConn = ""
		out = append(out, x)
	}
	return out
}

func runResp(t *testing.T, ci interface{}, trace bool, prop string) *common.Outcome {
	c := ci.(*RespCase)
	o := &common.Outcome{}
	e := newEnv(false)
	defer e.close()
	// intent model
	total := 0
	for _, op := range c.Ops {
		switch op.Op {
		case "write", "writestr", "readfrom":
			total += op.N
		}
	}
	var wantBody []byte
	wantStatus := 0
	wantHeader := http.Header{}
	headerSent := false
	snap := func() {
		if !headerSent {
			headerSent = true
			if wantStatus == 0 {
				wantStatus = 200
			}
		}
	}
	cur := http.Header{}
	var shortWrites []string
	var writeErr error
	nwrites, crossing := 0, false
	handler := http.HandlerFunc(func(w http.ResponseWriter, r *http.Request) {
		if c.ExplicitCL {
			w.Header().Set("Content-Length", fmt.Sprint(total))
			cur.Set("Content-Length", fmt.Sprint(total))
		}
		if len(c.Trailers) > 0 && c.TrailerLines {
			for _, k := range c.Trailers {
				w.Header().Add("Trailer", k)
			}
		} else if len(c.Trailers) > 0 {
			w.Header().Set("Trailer", strings.Join(c.Trailers, ", "))
		}
		off := 0
		for _, op := range c.Ops {
			switch op.Op {
			case "set":
				w.Header().Set(op.K, op.V)
				if !headerSent {
					cur.Set(op.K, op.V)
				}
			case "add":
				w.Header().Add(op.K, op.V)
				if !headerSent {
					cur.Add(op.K, op.V)
				}
			case "del":
				w.Header().Del(op.K)
				if !headerSent {
					cur.Del(op.K)
				}
			case "status":
				if !headerSent {
					wantStatus = op.N
				}
				w.WriteHeader(op.N)
				if !headerSent {
					for k, v := range cur {
						wantHeader[k] = append([]string(nil), v...)
					}
				}
				snap()
			case "write", "writestr":
				if !headerSent {
					for k, v := range cur {
						wantHeader[k] = append([]string(nil), v...)
					}
				}
				snap()
				data := bodyBytes(off, op.N)
				var n int
				var err error
				if op.Op == "write" {
					n, err = w.Write(append([]byte(nil), data...))
				} else {
					n, err = io.WriteString(w, string(data))
				}
				nwrites++
				if op.N >= 65000 || (len(wantBody) < 65536 && len(wantBody)+op.N >= 65000) {
					crossing = true
				}
				if err != nil {
					writeErr = err
					return
				}
				if n != op.N {
					shortWrites = append(shortWrites, fmt.Sprintf("%s of %d bytes returned n=%d, err=nil", op.Op, op.N, n))
				}
				wantBody = append(wantBody, data...)
				off += op.N
			case "readfrom":
				if !headerSent {
					for k, v := range cur {
						wantHeader[k] = append([]string(nil), v...)
					}
				}
				snap()
				data := bodyBytes(off, op.N)
				if rf, ok := w.(io.ReaderFrom); ok {
					if _, err := rf.ReadFrom(bytes.NewReader(data)); err != nil {
						writeErr = err
						return
					}
				} else if _, err := w.Write(data); err != nil {
					writeErr = err
					return
				}
				wantBody = append(wantBody, data...)
				off += op.N
			case "flush":
				if !headerSent {
					for k, v := range cur {
						wantHeader[k] = append([]string(nil), v...)
					}
				}
				snap()
				if f, ok := w.(http.Flusher); ok {
					f.Flush()
				}
			}
		}
		for i, k := range c.Trailers {
			w.Header().Set(k, fmt.Sprintf("tv%d", i))
		}
		if !headerSent {
			for k, v := range cur {
				wantHeader[k] = append([]string(nil), v...)
			}
		}
	})
	eng := newHTTPEngine(e, 0, 0, handler)
	conn := &memConn{FailAt: c.FailAt}
	p := nbhttp.NewParser(conn, eng, nbhttp.NewServerProcessor(), false, nil)
	req := "GET /x " + c.Proto + "\r\nHost: a\r\n"
	if c.ReqConn != "" {
		req += "Connection: " + c.ReqConn + "\r\n"
	}
	req += "\r\n"
	perr := p.Parse([]byte(req))
	p.CloseAndClean(nil)
	if wantStatus == 0 {
		wantStatus = 200
	}
	o.Finger = fnv([]byte(fmt.Sprintf("%+v", *c)))
	o.NonTrivial = nwrites >= 2 || crossing
	if perr != nil {
		o.Infra = "request rejected: " + perr.Error()
		return o
	}
	wire := conn.Out
	class := c.Proto
	if c.ExplicitCL {
		class += "/cl"
	}
	if HasPoison(wire) {
		if prop == "C11" {
			o.Fail("buffer-ownership", "read-after-free", "freed (poisoned) buffer contents were written to the connection")
		} else {
			o.Probe("other_property_oracle_fired:C11:poison-on-wire")
		}
	}
	if c.FailAt > 0 {
		// faulting batch: narrowly relaxed - the wire holds a prefix of what was produced, the
		// handler saw the error or the server closed the connection; no panic, no ownership error
		if writeErr == nil && !conn.Closed && conn.nwrite >= c.FailAt {
			o.Fail("transport-error-swallowed", class, "the transport failed at write %d but neither a Write reported an error nor was the connection closed", c.FailAt)
		}
		o.Fault("transport_write_failure")
		return finishStream(o, e, prop)
	}
	for _, sw := range shortWrites {
		o.Fail("write-count-wrong", class, "%s: every successful Write reports the number of bytes it was given", sw)
	}
	if writeErr != nil {
		o.Fail("write-failed-without-fault", class, "a Write on a healthy connection returned %v", writeErr)
		return finishStream(o, e, prop)
	}
	// ---- decode with the independent parser ------------------------------------------------
	br := bufio.NewReader(bytes.NewReader(wire))
	resp, err := http.ReadResponse(br, &http.Request{Method: "GET"})
	if err != nil {
		o.Fail("wire-not-wellformed", class, "net/http cannot parse the response head: %v; wire starts with %q", err, head(wire, 200))
		return finishStream(o, e, prop)
	}
	body, err := io.ReadAll(resp.Body)
	if err != nil {
		o.Fail("wire-not-wellformed", class+"/body", "net/http cannot read the response body: %v (decoded %d of %d body bytes); response head %q", err, len(body), len(wantBody), head(wire, 300))
		return finishStream(o, e, prop)
	}
	if resp.StatusCode != wantStatus {
		o.Fail("status-differs", fmt.Sprint(wantStatus), "handler's status %d, client decodes %d", wantStatus, resp.StatusCode)
	}
	if resp.Proto != c.Proto {
		o.Fail("version-differs", class, "request %s answered with %s", c.Proto, resp.Proto)
	}
	if !bytes.Equal(body, wantBody) {
		n := 0
		for n < len(body) && n < len(wantBody) && body[n] == wantBody[n] {
			n++
		}
		o.Fail("body-differs", class, "handler wrote %d body bytes, client decodes %d (first difference at offset %d); response head %q", len(wantBody), len(body), n, head(wire, 300))
	}
	for k, vv := range wantHeader {
		if k == "Content-Length" {
			continue
		}
		got := resp.Header[k]
		if strings.Join(got, "|") != strings.Join(vv, "|") {
			o.Fail("header-differs", k, "handler set %s=%q, client decodes %q", k, vv, got)
		}
	}
	for i, k := range c.Trailers {
		if c.Proto == "HTTP/1.0" {
			break // trailers need chunked framing: they cannot be sent to an HTTP/1.0 client
		}
		if got := resp.Trailer.Get(k); got != fmt.Sprintf("tv%d", i) {
			o.Fail("trailer-differs", class, "handler declared trailer %s and set it to %q after the body, client decodes %q", k, fmt.Sprintf("tv%d", i), got)
		}
	}
	// framing consistent with the version
	if c.Proto == "HTTP/1.0" && len(resp.TransferEncoding) > 0 {
		o.Fail("chunked-on-http10", class, "an HTTP/1.0 request was answered with Transfer-Encoding %v", resp.TransferEncoding)
	}
	if c.ExplicitCL && resp.ContentLength != int64(total) {
		o.Fail("content-length-differs", class, "handler set Content-Length %d, client sees %d", total, resp.ContentLength)
	}
	// nothing precedes or follows
	rest, _ := io.ReadAll(br)
	if len(rest) > 0 {
		o.Fail("bytes-after-response", class, "%d bytes follow the response on the wire: %q", len(rest), head(rest, 80))
	}
	// keep-alive / close as version and headers dictate
	wantClose := c.ReqConn == "close" || (c.Proto == "HTTP/1.0" && c.ReqConn != "keep-alive")
	if resp.ContentLength < 0 && len(resp.TransferEncoding) == 0 {
		wantClose = true // a close-delimited body (head flushed before the length was known, no chunking possible)
	}
	if wantClose != conn.Closed {
		o.Fail("connection-persistence", class, "request %s with Connection %q: connection closed=%v, expected %v", c.Proto, c.ReqConn, conn.Closed, wantClose)
	}
	return finishStream(o, e, prop)
}

func head(b []byte, n int) string {
	if len(b) > n {
		b = b[:n]
	}
	return string(b)
}

var _ = simrt.Mix
