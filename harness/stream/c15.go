package stream

// C15: size limits, including decompression bombs.

import (
	"encoding/binary"
	"fmt"
	"testing"

	"github.com/lesismal/nbio/nbhttp/websocket"

	"verif/harness/common"
	simrt "verif/sim/rt"
)

// LimCase is a case of C15.
type LimCase struct {
	Seed      uint64 `json:"seed"`
	Server    bool   `json:"server"`
	Limit     int    `json:"limit"`      // MessageLengthLimit
	ReadLimit int    `json:"read_limit"` // Engine.ReadLimit
	Scenario  string `json:"scenario"`   // single | fragments | bomb | control-recv | control-send | trickle
	PingLen   int    `json:"ping_len,omitempty"` // fragments: a ping with this payload (-1: empty) sits between the first two fragments; it is no part of the message
	Size      int    `json:"size"`       // (inflated) message size
	Parts     []int  `json:"parts,omitempty"`
	Piece     int    `json:"piece"`
	BFinal    bool   `json:"bfinal,omitempty"` // bomb: the deflate stream ends with a BFINAL block
}

func (c *LimCase) deflate(b []byte) []byte {
	if c.BFinal {
		return deflateFinal(b, 9)
	}
	return deflate(b, 9)
}

func genLimCase(r *simrt.Rand, tier string) *LimCase {
	c := &LimCase{Seed: r.Uint64(), Server: r.Bool(0.6), Piece: r.Pick(1, 7, 64, 1024, 65536, 1<<20)}
	c.Limit = r.Pick(1, 10, 125, 126, 1000, 4096, 65536, 100000)
	c.ReadLimit = r.Pick(0, 64, 1024, 65536)
	c.Scenario = r.PickS("single", "single", "fragments", "fragments", "bomb", "bomb", "control-recv", "control-send", "trickle", "cfragments")
	c.Size = c.Limit + r.Pick(-1, 0, 1, 1, 2, 100)
	if c.Size < 0 {
		c.Size = 0
	}
	switch c.Scenario {
	case "fragments":
		n := r.Range(2, 5)
		left := c.Size
		for i := 0; i < n-1; i++ {
			p := 0
			if left > 0 {
				p = r.Intn(left + 1)
			}
			if r.Bool(0.3) {
				p = 0
			}
			c.Parts = append(c.Parts, p)
			left -= p
		}
		c.Parts = append(c.Parts, left)
		if r.Bool(0.3) {
			c.PingLen = r.Pick(-1, 1, 2, 50, 125)
		}
	case "bomb":
		c.BFinal = r.Bool(0.4)
		if r.Bool(0.5) {
			c.Size = c.Limit * r.Pick(2, 10, 100, 1000)
			if c.Size > 64<<20 {
				c.Size = 64 << 20
			}
			if c.Size < 1000 {
				c.Size = 1000
			}
		}
	case "cfragments":
		// an unfinished compressed message: fragments of an (incompressible) deflate stream,
		// each within the limit, together three times above it, no final frame
		c.Size = 3*c.Limit + 7
	case "control-recv", "control-send":
		c.Size = r.Pick(124, 125, 126, 127, 200)
	case "trickle":
		c.Size = r.Pick(1<<20, 1<<30, 1<<40)
	}
	if c.Piece < 64 && c.Size > 200000 {
		c.Piece = 1024
	}
	return c
}

func shrinkLim(ci interface{}) []interface{} {
	c := ci.(*LimCase)
	var out []interface{}
	if c.Piece != 1<<20 {
		x := *c
		x.Piece = 1 << 20
		out = append(out, &x)
	}
	if c.ReadLimit != 0 {
		x := *c
		x.ReadLimit = 0
		out = append(out, &x)
	}
	if len(c.Parts) > 2 {
		x := *c
		x.Parts = append([]int{c.Parts[0] + c.Parts[1]}, c.Parts[2:]...)
		out = append(out, &x)
	}
	return out
}

func runLim(t *testing.T, ci interface{}, trace bool) *common.Outcome {
	c := ci.(*LimCase)
	o := &common.Outcome{}
	e := newEnv(true)
	defer e.close()
	compression := c.Scenario == "bomb" || c.Scenario == "cfragments"
	end := newWSEnd(e, wsCfg{Client: !c.Server, Compression: compression, Limit: c.Limit, ReadLimit: c.ReadLimit})
	role := "client"
	if c.Server {
		role = "server"
	}
	o.Finger = fnv([]byte(fmt.Sprintf("%+v", *c)))
	o.NonTrivial = c.Size >= c.Limit-1 && c.Size <= c.Limit+1 || c.Scenario == "bomb"
	if c.Scenario == "control-send" {
		before := len(end.Conn.Out)
		err := end.C.WriteMessage(websocket.PingMessage, make([]byte, c.Size))
		if c.Size > 125 {
			if err == nil {
				o.Fail("oversize-control-sent", role, "WriteMessage(Ping, %d bytes) returned nil", c.Size)
			}
			if len(end.Conn.Out) != before {
				o.Fail("oversize-control-sent", role+"/wire", "WriteMessage(Ping, %d bytes) put %d bytes on the wire", c.Size, len(end.Conn.Out)-before)
			}
		} else if err != nil {
			o.Fail("legal-control-refused", role, "WriteMessage(Ping, %d bytes) returned %v", c.Size, err)
		}
		return finishStream(o, e, "C15")
	}
	// ---- build the peer's wire bytes ----------------------------------------------------------
	key := [4]byte{1, 2, 3, 4}
	var wire []byte
	mk := func(n int) []byte {
		b := make([]byte, n)
		for i := range b {
			b[i] = 'a'
		}
		return b
	}
	switch c.Scenario {
	case "single":
		wire = Frame{Fin: true, Op: 2, Masked: c.Server, Payload: mk(c.Size)}.encode(key)
	case "fragments":
		for i, p := range c.Parts {
			op := 0
			if i == 0 {
				op = 2
			}
			wire = append(wire, Frame{Fin: i == len(c.Parts)-1, Op: op, Masked: c.Server, Payload: mk(p)}.encode(key)...)
			if i == 0 && c.PingLen != 0 {
				n := c.PingLen
				if n < 0 {
					n = 0
				}
				wire = append(wire, Frame{Fin: true, Op: 9, Masked: c.Server, Payload: make([]byte, n)}.encode(key)...)
			}
		}
	case "cfragments":
		noise := make([]byte, c.Size)
		x := c.Seed | 1
		for i := range noise {
			x ^= x << 13
			x ^= x >> 7
			x ^= x << 17
			noise[i] = byte(x)
		}
		z := deflate(noise, 9)
		part := c.Limit/2 + 1
		for off, first := 0, true; off < len(z); off += part {
			e2 := off + part
			if e2 > len(z) {
				e2 = len(z)
			}
			f := Frame{Fin: false, Op: 0, Masked: c.Server, Payload: z[off:e2]}
			if first {
				f.Op, f.Rsv, first = 2, 4, false
			}
			wire = append(wire, f.encode(key)...)
		}
	case "bomb":
		wire = Frame{Fin: true, Rsv: 4, Op: 2, Masked: c.Server, Payload: c.deflate(mk(c.Size))}.encode(key)
	case "control-recv":
		wire = Frame{Fin: true, Op: 9, Masked: c.Server, Payload: mk(c.Size)}.encode(key)
	case "trickle":
		f := Frame{Fin: true, Op: 2, Masked: c.Server, Declared: int64(c.Size), Payload: mk(3000)}
		wire = f.encode(key)
	}
	maxPiece := 0
	var pieces [][]byte
	for off := 0; off < len(wire); off += c.Piece {
		e2 := off + c.Piece
		if e2 > len(wire) {
			e2 = len(wire)
		}
		pieces = append(pieces, wire[off:e2])
		if e2-off > maxPiece {
			maxPiece = e2 - off
		}
	}
	e.Body.PeakLive = e.Body.Live
	end.feed(pieces)
	failed := end.parseErr != nil || end.Conn.Closed || end.Closes > 0
	for _, m := range end.Got {
		if len(m.Payload) > c.Limit {
			o.Fail("oversize-message-delivered", role+"/"+c.Scenario, "a message of %d bytes was delivered, MessageLengthLimit is %d", len(m.Payload), c.Limit)
		}
	}
	over := c.Size > c.Limit
	switch c.Scenario {
	case "control-recv":
		over = c.Size > 125
	case "trickle":
		over = c.Size > c.Limit
	}
	if over {
		if !failed {
			o.Fail("limit-not-enforced", role+"/"+c.Scenario, "%s of %d bytes with limit %d: the connection was not failed", c.Scenario, c.Size, c.Limit)
		} else {
			// the endpoint answers with close code 1009
			replies, _ := decodeFrames(end.Conn.Out)
			code := 0
			for _, f := range replies {
				if f.Op == 8 && len(f.Payload) >= 2 {
					code = int(binary.BigEndian.Uint16(f.Payload))
				}
			}
			readLimitHit := c.ReadLimit > 0 && len(wire) > c.ReadLimit
			if code != 1009 && !readLimitHit {
				o.Fail("no-1009-close", role+"/"+c.Scenario, "%s of %d bytes with limit %d: the connection was failed (%v) but the close frame sent carries code %d, not 1009", c.Scenario, c.Size, c.Limit, end.parseErr, code)
			}
		}
	} else if c.Scenario == "bomb" && len(c.deflate(mk(c.Size))) > c.Limit {
		// the compressed payload itself is above the limit (tiny messages): refusing it is consistent
	} else if c.Scenario == "control-recv" && c.Limit < 125 {
		// whether MessageLengthLimit below 125 also applies to control frames is not stated: nothing asserted
	} else if c.Scenario != "trickle" {
		readLimitHit := c.ReadLimit > 0 && len(wire) > c.ReadLimit && c.Piece < len(wire)
		if failed && !readLimitHit {
			o.Fail("legal-size-rejected", role+"/"+c.Scenario, "%s of %d bytes with limit %d (ReadLimit %d): the connection was failed: %v", c.Scenario, c.Size, c.Limit, c.ReadLimit, end.parseErr)
		}
		if !failed && c.Scenario != "control-recv" && len(end.Got) != 1 {
			o.Fail("legal-size-not-delivered", role+"/"+c.Scenario, "%s of %d bytes with limit %d: %d messages delivered", c.Scenario, c.Size, c.Limit, len(end.Got))
		}
	}
	// ---- memory bound: what was buffered for this connection ---------------------------------
	rl := c.ReadLimit
	if rl == 0 {
		rl = len(wire)
	}
	bound := 2*(c.Limit+rl+maxPiece) + 3*4096 + 2*maxPiece
	if e.Body.PeakLive > bound {
		o.Fail("buffered-above-limit", role+"/"+c.Scenario, "%s: the tracking allocator saw %d bytes live for this connection; MessageLengthLimit %d, ReadLimit %d, largest read %d (bound with allocator slack: %d) - the limit is enforced only after buffering / inflating", c.Scenario, e.Body.PeakLive, c.Limit, c.ReadLimit, maxPiece, bound)
	}
	o.ProbeN("peak_live_over_limit_x", e.Body.PeakLive/(c.Limit+1))
	return finishStream(o, e, "C15")
}

var _ = simrt.Mix

// LimProp is the C15 check of this world (the e2e world combines it with its end-to-end part).
func LimProp() *common.Prop {
	return &common.Prop{ID: "C15", New: func() interface{} { return &LimCase{} },
		Gen:    func(r *simrt.Rand, tier string, idx int) interface{} { return genLimCase(r, tier) },
		Run:    runLim,
		Shrink: shrinkLim}
}
