package stream

import (
	"bytes"
	"encoding/binary"
	"fmt"
	"testing"

	"github.com/lesismal/nbio/nbhttp/websocket"

	"verif/harness/common"
	simrt "verif/sim/rt"
)

// ---------------------------------------------------------------------------------------
// C12: round trip between two real endpoints joined by the simulated transport

// WMsg is one message (or interleaved control frame) the sender writes.
type WMsg struct {
	Type int  `json:"type"` // 1 text, 2 binary, 9 ping, 10 pong
	Len  int  `json:"len"`
	Kind int  `json:"kind,omitempty"` // content: 0 random-ish, 1 highly compressible, 2 text with multi-byte runes
	Seed int  `json:"seed,omitempty"`
}

// RTCase is a case of C12.
type RTCase struct {
	Seed        uint64 `json:"seed"`
	ClientSends bool   `json:"client_sends"` // sender role: client masks
	Compression bool   `json:"compression,omitempty"`
	Level       int    `json:"level,omitempty"`
	FrameMax    int    `json:"frame_max,omitempty"` // MaxWebsocketFramePayloadSize of the sender
	Msgs        []WMsg `json:"msgs"`
	Piece       int    `json:"piece"` // 0: every single cut is enumerated (small cases); n: reads of n bytes; -1: random cuts
	FailAt      int    `json:"fail_at,omitempty"` // sender transport fails at the k-th write
}

func content(m WMsg) []byte {
	b := make([]byte, m.Len)
	switch m.Kind {
	case 1:
		for i := range b {
			b[i] = "abab"[i&3]
		}
	case 2:
		s := []byte("héllo wörld ☃ 日本語 ")
		for i := 0; i < len(b); {
			i += copy(b[i:], s)
		}
		// cut to a rune boundary
		for len(b) > 0 && !validUTF8(b) {
			b = b[:len(b)-1]
		}
	default:
		for i := range b {
			x := uint32(i)*2654435761 + uint32(m.Seed)*977
			x ^= x >> 15
			if m.Type == 1 {
				b[i] = byte(' ' + x%90)
			} else {
				b[i] = byte(x)
				if b[i] == poison {
					b[i] = 1
				}
			}
		}
	}
	return b
}

func validUTF8(b []byte) bool {
	for i := 0; i < len(b); {
		if b[i] < 0x80 {
			i++
			continue
		}
		n := 0
		switch {
		case b[i]&0xE0 == 0xC0:
			n = 2
		case b[i]&0xF0 == 0xE0:
			n = 3
		case b[i]&0xF8 == 0xF0:
			n = 4
		default:
			return false
		}
		if i+n > len(b) {
			return false
		}
		i += n
	}
	return true
}

var wsLens = []int{0, 1, 2, 124, 125, 126, 127, 128, 1000, 4095, 4096, 4097, 65534, 65535, 65536, 65537, 70000, 200000}

func genRTCase(r *simrt.Rand, tier string) *RTCase {
	c := &RTCase{Seed: r.Uint64(), ClientSends: r.Bool(0.5), Compression: r.Bool(0.4)}
	if c.Compression {
		c.Level = r.Pick(0, 1, 5, 9, -2)
	}
	c.FrameMax = r.Pick(0, 0, 1, 2, 125, 126, 1000, 4096, 65535, 65536)
	n := r.Range(1, 5)
	total := 0
	for i := 0; i < n; i++ {
		m := WMsg{Type: r.Pick(1, 2, 2), Kind: r.Pick(0, 0, 1, 2), Seed: r.Intn(1000)}
		m.Len = wsLens[r.Intn(len(wsLens))]
		if c.FrameMax > 0 {
			// lengths around the frame-size limit and its multiples
			if r.Bool(0.5) {
				m.Len = c.FrameMax*r.Pick(1, 2, 3) + r.Pick(-1, 0, 1)
				if m.Len < 0 {
					m.Len = 0
				}
			}
			if c.FrameMax < 100 && m.Len > c.FrameMax*300 {
				m.Len = c.FrameMax * 300
			}
		}
		if m.Kind == 2 {
			m.Type = 1
		}
		if r.Bool(0.15) {
			m = WMsg{Type: r.Pick(9, 10), Len: r.Pick(0, 1, 125), Seed: r.Intn(100)}
		}
		total += m.Len
		c.Msgs = append(c.Msgs, m)
	}
	switch {
	case total < 600 && r.Bool(0.5):
		c.Piece = 0
	case r.Bool(0.5):
		c.Piece = -1
	default:
		c.Piece = r.Pick(1, 2, 7, 125, 4096, 65536)
		if total > 50000 && c.Piece < 100 {
			c.Piece = 4096
		}
	}
	if r.Bool(0.1) {
		c.FailAt = r.Range(1, 4)
	}
	return c
}

func shrinkRT(ci interface{}) []interface{} {
	c := ci.(*RTCase)
	cp := func() *RTCase { x := *c; x.Msgs = append([]WMsg(nil), c.Msgs...); return &x }
	var out []interface{}
	for i := range c.Msgs {
		if len(c.Msgs) > 1 {
			x := cp()
			x.Msgs = append(x.Msgs[:i], x.Msgs[i+1:]...)
			out = append(out, x)
		}
	}
	for i, m := range c.Msgs {
		for _, n := range []int{0, 1, m.Len / 2, m.Len - 1} {
			if n >= 0 && n < m.Len {
				x := cp()
				x.Msgs[i].Len = n
				out = append(out, x)
			}
		}
		if m.Kind != 0 {
			x := cp()
			x.Msgs[i].Kind = 0
			out = append(out, x)
		}
	}
	if c.Compression {
		x := cp()
		x.Compression = false
		out = append(out, x)
	}
	if c.FrameMax != 0 {
		x := cp()
		x.FrameMax = 0
		out = append(out, x)
	}
	if c.Piece != 100000 {
		x := cp()
		x.Piece = 100000
		out = append(out, x)
	}
	return out
}

func runRT(t *testing.T, ci interface{}, trace bool, prop string) *common.Outcome {
	c := ci.(*RTCase)
	o := &common.Outcome{}
	e := newEnv(true)
	defer e.close()
	snd := newWSEnd(e, wsCfg{Client: c.ClientSends, Compression: c.Compression, Level: c.Level, FrameMax: c.FrameMax})
	rcv := newWSEnd(e, wsCfg{Client: !c.ClientSends, Compression: c.Compression, Level: c.Level})
	snd.Conn.FailAt = c.FailAt
	var want []Msg
	var pings [][]byte
	frag, boundary := false, false
	for _, m := range c.Msgs {
		data := content(m)
		arg := append([]byte(nil), data...)
		err := snd.C.WriteMessage(websocket.MessageType(m.Type), arg)
		for i := range arg {
			arg[i] = 0xEE // the caller may reuse its buffer
		}
		if err != nil {
			if c.FailAt == 0 {
				o.Fail("write-failed-without-fault", "", "WriteMessage(type %d, %d bytes) on a healthy connection returned %v", m.Type, m.Len, err)
			}
			break
		}
		switch m.Type {
		case 1, 2:
			want = append(want, Msg{m.Type, data})
			if c.FrameMax > 0 && m.Len > c.FrameMax {
				frag = true
			}
			switch m.Len {
			case 125, 126, 127, 65535, 65536:
				boundary = true
			}
		case 9:
			pings = append(pings, data)
		}
	}
	wire := snd.Conn.Out
	o.Finger = fnv(wire)
	o.NonTrivial = frag || c.Compression || boundary
	role := "server-sends"
	if c.ClientSends {
		role = "client-sends"
	}
	if c.Compression {
		role += "+deflate"
	}
	if HasPoison(wire) && prop == "C11" {
		o.Fail("buffer-ownership", "read-after-free", "freed (poisoned) buffer contents were written to the connection")
	}
	if c.FailAt > 0 {
		// faulting batch: whatever reached the wire before the failure must still be whole frames
		// in order; the receiver sees a prefix
		o.Fault("transport_write_failure")
		frames, _ := decodeFrames(wire)
		_ = frames
		rcv.feed([][]byte{wire})
		if len(rcv.Got) > len(want) {
			o.Fail("delivered-more-than-written", role, "receiver got %d messages, sender completed %d", len(rcv.Got), len(want))
		}
		return finishStream(o, e, prop)
	}
	// ---- the wire must be well-formed by an independent decoder ------------------------------
	frames, bad := decodeFrames(wire)
	if bad != "" {
		o.Fail("wire-malformed", role, "the sender's wire bytes do not decode: %s", bad)
		return finishStream(o, e, prop)
	}
	inMsg := false
	for i, f := range frames {
		if f.Masked != c.ClientSends {
			o.Fail("wire-mask-bit", role, "frame %d: mask bit %v but the sender is the %s", i, f.Masked, role)
		}
		if c.FrameMax > 0 && len(f.Payload) > c.FrameMax && f.Op < 8 && !c.Compression {
			o.Fail("wire-frame-above-limit", role, "frame %d carries %d payload bytes, MaxWebsocketFramePayloadSize is %d", i, len(f.Payload), c.FrameMax)
		}
		if f.Rsv&3 != 0 {
			o.Fail("wire-rsv", role, "frame %d has RSV2/RSV3 set", i)
		}
		if f.Rsv&4 != 0 && (!c.Compression || f.Op == 0 || f.Op >= 8) {
			o.Fail("wire-rsv1", role, "frame %d (opcode %d) has RSV1 set (compression negotiated: %v)", i, f.Op, c.Compression)
		}
		if f.Op < 8 {
			if (f.Op == 0) != inMsg {
				o.Fail("wire-fragment-sequence", role, "frame %d: opcode %d while a fragmented message is %v", i, f.Op, inMsg)
			}
			inMsg = !f.Fin
		}
	}
	// ---- deliver in the chosen segmentation ------------------------------------------------
	check := func(name string, pieces [][]byte) bool {
		r := newWSEnd(e, wsCfg{Client: !c.ClientSends, Compression: c.Compression, Level: c.Level})
		r.feed(pieces)
		o.Steps++
		if r.parseErr != nil {
			o.Fail("receiver-rejects-own-peer", role, "fed as %s the receiver failed the connection: %v", name, r.parseErr)
			return false
		}
		if ok, why := sameMsgs(want, r.Got); !ok {
			o.Fail("roundtrip-differs", role, "fed as %s: written vs delivered: %s", name, why)
			return false
		}
		// pings are answered with pongs carrying the same payload
		if len(pings) > 0 {
			pf, _ := decodeFrames(r.Conn.Out)
			k := 0
			for _, f := range pf {
				if f.Op == 10 && k < len(pings) && bytes.Equal(f.Payload, pings[k]) {
					k++
				}
			}
			if k != len(pings) {
				o.Fail("ping-not-answered", role, "%d pings were sent, %d matching pongs came back", len(pings), k)
				return false
			}
		}
		return true
	}
	switch {
	case c.Piece == 0:
		if !check("one piece", [][]byte{wire}) {
			break
		}
		for i := 1; i < len(wire); i++ {
			if !check(fmt.Sprintf("2 pieces cut at byte %d of %d", i, len(wire)), [][]byte{wire[:i], wire[i:]}) {
				break
			}
		}
	case c.Piece < 0:
		r := simrt.NewRand(c.Seed)
		for k := 0; k < 6; k++ {
			n := r.Range(2, 10)
			var at []int
			pos := 0
			for j := 0; j < n; j++ {
				pos += 1 + r.Intn(len(wire)/n+2)
				at = append(at, pos)
			}
			if !check(fmt.Sprintf("pieces cut at %v", at), cut(wire, at)) {
				break
			}
		}
	default:
		var pieces [][]byte
		for off := 0; off < len(wire); off += c.Piece {
			end := off + c.Piece
			if end > len(wire) {
				end = len(wire)
			}
			pieces = append(pieces, wire[off:end])
		}
		if len(pieces) > 0 {
			check(fmt.Sprintf("reads of %d bytes", c.Piece), pieces)
		}
	}
	return finishStream(o, e, prop)
}

// ---------------------------------------------------------------------------------------
// C13: the peer is byzantine

// ValCase is a case of C13.
type ValCase struct {
	Seed        uint64  `json:"seed"`
	Server      bool    `json:"server"` // role of the endpoint under test
	Compression bool    `json:"compression,omitempty"`
	Frames      []Frame `json:"frames"`
	Piece       int     `json:"piece"`
	DataFrame   bool    `json:"data_frame,omitempty"` // the endpoint has an OnDataFrame handler besides its message handler
}

var utf8Bad = [][]byte{{0xff}, {0xc0, 0x80}, {0xe2, 0x82}, {0xed, 0xa0, 0x80}, {0xf4, 0x90, 0x80, 0x80}, {'a', 0x80, 'b'}}

func genPayload(r *simrt.Rand, text bool) []byte {
	switch r.Intn(6) {
	case 0:
		return nil
	case 1:
		if text {
			return []byte("héllo ☃")
		}
	case 2:
		if text {
			return append([]byte("ok"), utf8Bad[r.Intn(len(utf8Bad))]...)
		}
	}
	n := r.Pick(1, 2, 10, 125, 126, 300)
	b := make([]byte, n)
	for i := range b {
		b[i] = byte('a' + r.Intn(26))
	}
	return b
}

func genValCase(r *simrt.Rand, tier string, idx int) *ValCase {
	c := &ValCase{Seed: r.Uint64(), Server: r.Bool(0.6), Compression: r.Bool(0.3), Piece: r.Pick(1, 2, 3, 7, 64, 100000)}
	c.DataFrame = r.Bool(0.25)
	n := r.Range(1, 6)
	inFrag := false
	for i := 0; i < n; i++ {
		f := Frame{Fin: true, Masked: c.Server}
		switch k := r.Intn(12); {
		case k < 4: // data message, maybe fragmented
			f.Op = r.Pick(1, 2)
			f.Payload = genPayload(r, f.Op == 1)
			rsv := 0
			if c.Compression && r.Bool(0.5) {
				// a compressed message, as a peer may send it: flushed stream with the tail
				// removed, or a stream that ends with a BFINAL block (RFC 7692 7.2.3.4)
				if r.Bool(0.3) {
					f.Payload = deflateFinal(f.Payload, r.Pick(1, 6, 9))
				} else {
					f.Payload = deflate(f.Payload, r.Pick(1, 6, 9))
				}
				rsv = 4
				f.Rsv = 4
			}
			if r.Bool(0.4) {
				// split into fragments, possibly inside a multi-byte rune, with an optional control frame in between
				p := f.Payload
				cutAt := 0
				if len(p) > 1 {
					cutAt = 1 + r.Intn(len(p)-1)
				}
				if r.Bool(0.15) {
					cutAt = 0 // an empty first fragment is legal
				}
				c.Frames = append(c.Frames, Frame{Fin: false, Op: f.Op, Rsv: rsv, Masked: c.Server, Payload: p[:cutAt]})
				if r.Bool(0.3) {
					c.Frames = append(c.Frames, Frame{Fin: true, Op: 9, Masked: c.Server, Payload: []byte("mid")})
				}
				f = Frame{Fin: true, Op: 0, Masked: c.Server, Payload: p[cutAt:]}
			}
		case k < 5:
			f.Op = 9
			f.Payload = genPayload(r, false)
			if len(f.Payload) > 125 && r.Bool(0.7) {
				f.Payload = f.Payload[:125]
			}
		case k < 6:
			f.Op = 10
			f.Payload = []byte("p")
		case k < 8: // close with a swept code
			f.Op = 8
			code := r.Pick(1000, 1001, 1002, 1003, 1004, 1005, 1006, 1007, 1009, 1011, 1012, 1015, 1016, 2999, 3000, 4999, 5000, 0, 999, 65535, r.Intn(65536))
			f.Payload = make([]byte, 2)
			binary.BigEndian.PutUint16(f.Payload, uint16(code))
			switch r.Intn(5) {
			case 0:
				f.Payload = nil
			case 1:
				f.Payload = f.Payload[:1]
			case 2:
				f.Payload = append(f.Payload, utf8Bad[r.Intn(len(utf8Bad))]...)
			case 3:
				f.Payload = append(f.Payload, []byte("bye ☃")...)
			}
		default: // a violation spliced in
			switch r.Intn(10) {
			case 9:
				// new data frame inside a fragmented message, with a control frame in between
				// (which is legal there and must not make the endpoint forget the open message)
				c.Frames = append(c.Frames, Frame{Fin: false, Op: r.Pick(1, 2), Masked: c.Server, Payload: []byte(r.PickS("part", "", "p"))})
				c.Frames = append(c.Frames, Frame{Fin: true, Op: r.Pick(9, 10), Masked: c.Server, Payload: []byte(r.PickS("mid", ""))})
				f.Op, f.Payload = r.Pick(1, 2), []byte("new")
			case 0:
				f.Op, f.Rsv = r.Pick(1, 2), r.Pick(1, 2, 3, 4, 6)
			case 1:
				f.Op = r.Pick(3, 4, 5, 6, 7, 11, 12, 15)
			case 2:
				f.Op, f.Fin = r.Pick(8, 9, 10), false
			case 3:
				f.Op = r.Pick(9, 10, 8)
				f.Payload = bytes.Repeat([]byte("x"), r.Pick(126, 127, 200))
			case 4:
				f.Op = 0 // continuation without start (unless we are in a fragment)
				f.Payload = []byte("c")
			case 5:
				// new data frame inside a fragmented message
				// (the first fragment may be empty: the message is open all the same)
				c.Frames = append(c.Frames, Frame{Fin: false, Op: r.Pick(1, 2), Masked: c.Server, Payload: []byte(r.PickS("part", "", "p"))})
				f.Op, f.Payload = r.Pick(1, 2), []byte("new")
			case 6:
				f.Op, f.TopBit = 2, true
			case 7:
				f.Op, f.LenEnc, f.Payload = 2, r.Pick(16, 64), []byte("short")
			case 8:
				f.Op, f.Masked = 2, !c.Server // wrong masking: latitude
				f.Payload = []byte("mask")
			}
		}
		_ = inFrag
		c.Frames = append(c.Frames, f)
	}
	return c
}

func shrinkVal(ci interface{}) []interface{} {
	c := ci.(*ValCase)
	var out []interface{}
	for i := range c.Frames {
		if len(c.Frames) > 1 {
			x := *c
			x.Frames = append(append([]Frame(nil), c.Frames[:i]...), c.Frames[i+1:]...)
			out = append(out, &x)
		}
	}
	for i, f := range c.Frames {
		if len(f.Payload) > 2 {
			x := *c
			x.Frames = append([]Frame(nil), c.Frames...)
			x.Frames[i].Payload = f.Payload[:len(f.Payload)/2]
			out = append(out, &x)
		}
	}
	if c.Piece != 100000 {
		x := *c
		x.Piece = 100000
		out = append(out, &x)
	}
	if c.Compression {
		x := *c
		x.Compression = false
		out = append(out, &x)
	}
	if c.DataFrame {
		x := *c
		x.DataFrame = false
		out = append(out, &x)
	}
	return out
}

func runVal(t *testing.T, ci interface{}, trace bool) *common.Outcome {
	c := ci.(*ValCase)
	o := &common.Outcome{}
	e := newEnv(true)
	defer e.close()
	end := newWSEnd(e, wsCfg{Client: !c.Server, Compression: c.Compression, DataFrame: c.DataFrame})
	var wire []byte
	r := simrt.NewRand(c.Seed)
	wrongMask := false
	for _, f := range c.Frames {
		if f.Masked != c.Server {
			wrongMask = true
		}
		key := [4]byte{byte(r.Intn(256)), byte(r.Intn(256)), byte(r.Intn(256)), byte(r.Intn(256))}
		wire = append(wire, f.encode(key)...)
	}
	v := validate(c.Frames, c.Compression, 0)
	// What happens to frames after the connection has been failed (or after a legal close)
	// is not the property's business: the sequence is cut behind the offending message
	// (resp. behind the close frame).
	cutAfter := -1
	if v.Violation >= 0 {
		cutAfter = v.Violation
		if f := c.Frames[v.Violation]; f.Op < 8 {
			for cutAfter < len(c.Frames)-1 && !c.Frames[cutAfter].Fin {
				cutAfter++
			}
		}
	} else if v.Closed {
		cutAfter = v.CloseAt
	}
	if cutAfter >= 0 && cutAfter < len(c.Frames)-1 {
		wire = wire[:0]
		r2 := simrt.NewRand(c.Seed)
		for _, f := range c.Frames[:cutAfter+1] {
			key := [4]byte{byte(r2.Intn(256)), byte(r2.Intn(256)), byte(r2.Intn(256)), byte(r2.Intn(256))}
			wire = append(wire, f.encode(key)...)
		}
	}
	o.Finger = fnv(wire) ^ uint64(c.Piece)
	mid := false
	for i, f := range c.Frames {
		if f.Op >= 8 && i > 0 && !c.Frames[i-1].Fin {
			mid = true
		}
	}
	o.NonTrivial = v.Violation >= 0 || mid
	var pieces [][]byte
	for off := 0; off < len(wire); off += c.Piece {
		e2 := off + c.Piece
		if e2 > len(wire) {
			e2 = len(wire)
		}
		pieces = append(pieces, wire[off:e2])
	}
	end.feed(pieces)
	role := "client"
	if c.Server {
		role = "server"
	}
	if wrongMask {
		o.Probe("latitude_wrong_masking")
		return finishStream(o, e, "C13")
	}
	failed := end.parseErr != nil || end.Conn.Closed || end.Closes > 0
	// messages before the first violation / latitude point must be delivered exactly
	n := len(v.Deliver)
	got := end.Got
	if len(got) < n {
		o.Fail("valid-message-not-delivered", role, "the reference validator requires %d messages to be delivered before frame %d (%s); nbio delivered %d (parse error: %v)", n, v.Violation, v.Why, len(got), end.parseErr)
		return finishStream(o, e, "C13")
	}
	if ok, why := sameMsgs(v.Deliver, got[:n]); !ok {
		o.Fail("delivered-message-differs", role, "%s", why)
		return finishStream(o, e, "C13")
	}
	if v.Either {
		o.Probe("latitude_point_reached")
		return finishStream(o, e, "C13")
	}
	if v.Violation >= 0 {
		if len(got) > n {
			o.Fail("message-with-offending-frame-delivered", role, "frame %d violates RFC 6455 (%s) but nbio delivered %d messages, %d more than the legal prefix", v.Violation, v.Why, len(got), len(got)-n)
		}
		if !failed {
			o.Fail("violation-not-failed", role+"/"+classOfWhy(v.Why), "frame %d violates RFC 6455 (%s) but the connection was not failed (no parse error, not closed)", v.Violation, v.Why)
		}
		o.Probe("violations_presented")
		return finishStream(o, e, "C13")
	}
	// legal sequence
	if len(got) > n {
		o.Fail("extra-message-delivered", role, "legal sequence: %d messages expected, %d delivered", n, len(got))
	}
	if end.parseErr != nil {
		o.Fail("legal-sequence-rejected", role, "the sequence is legal by RFC 6455 but nbio failed the connection: %v", end.parseErr)
	}
	replies, _ := decodeFrames(end.Conn.Out)
	for i, f := range replies {
		// (RFC 6455 5.1: a client masks every frame it sends, a server none - empty ones too)
		if f.Masked == c.Server {
			o.Fail("reply-mask-bit", role, "frame %d the %s sent in reply (opcode %d, %d bytes) has mask bit %v", i, role, f.Op, len(f.Payload), f.Masked)
			break
		}
	}
	if c.DataFrame {
		// the frame handler sees the payload of every non-empty data frame, in order, as it
		// is on the wire (before decompression), with the type of its message
		var want, got []byte
		fed := c.Frames
		if cutAfter >= 0 {
			fed = fed[:cutAfter+1]
		}
		for _, f := range fed {
			if f.Op < 8 {
				want = append(want, f.Payload...)
			}
		}
		for _, fe := range end.Frames {
			got = append(got, fe.Payload...)
		}
		if !bytes.Equal(want, got) {
			o.Fail("data-frame-callbacks-differ", role, "legal sequence: the data frames carry %d payload bytes in all, the OnDataFrame callbacks were given %d (or other bytes)", len(want), len(got))
		}
		o.Probe("data_frame_handler_runs")
	}
	k := 0
	for _, f := range replies {
		if f.Op == 10 && k < len(v.Pings) && bytes.Equal(f.Payload, v.Pings[k]) {
			k++
		}
	}
	if k != len(v.Pings) {
		o.Fail("ping-not-answered", role, "%d pings before the end of the sequence, %d pongs with identical payload came back", len(v.Pings), k)
	}
	if v.Closed {
		answered := false
		for _, f := range replies {
			if f.Op == 8 {
				answered = true
			}
		}
		if !answered {
			o.Fail("close-not-answered", role, "a legal close frame (frame %d) was not answered with a close frame", v.CloseAt)
		}
	}
	return finishStream(o, e, "C13")
}

func classOfWhy(w string) string {
	for _, k := range []string{"RSV", "reserved opcode", "fragmented control", "above 125", "continuation", "new data frame", "UTF-8", "close code", "1-byte", "64-bit"} {
		if contains(w, k) {
			return k
		}
	}
	return "other"
}
