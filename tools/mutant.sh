#!/bin/bash
# Runs checks against a seeded change: applies the patch to /repo, runs the quick check of each
# given property with the given budget, and always restores /repo afterwards.
# With MUT_WORKTREE=1 the patch is applied to a scratch worktree of /repo's HEAD instead (the
# check is pointed at it with -repo), so that /repo itself stays untouched while something else
# is using it.
# usage: tools/mutant.sh <patch.diff> <budget_s> <property ids...>
cd "$(dirname "$0")/.."
patch=$(readlink -f "$1"); budget=$2; shift 2
repo=/repo
if [ -n "$MUT_WORKTREE" ]; then
  repo=$(mktemp -d /var/tmp/mutwt.XXXXXX); rmdir $repo
  git -C /repo worktree add --detach $repo HEAD -q || { echo "worktree failed"; exit 2; }
  trap 'git -C /repo worktree remove --force $repo; rm -rf $repo' EXIT
else
  if ! git -C /repo diff --quiet; then echo "refusing: /repo has uncommitted changes"; exit 2; fi
  trap 'git -C /repo checkout -- . ; git -C /repo clean -fdq' EXIT
fi
git -C $repo apply "$patch" || { echo "patch does not apply"; exit 2; }
export VERIF_OUTDIR=${VERIF_OUTDIR:-/var/tmp/mutant-out}; mkdir -p $VERIF_OUTDIR
for p in "$@"; do
  out=$(./bin/check -repo $repo -p $p -budget $budget -seed ${MUT_SEED:-7} ${MUT_SHRINK:--noshrink} 2>&1)
  rc=$?
  v=$(echo "$out" | grep -c "^VIOLATION")
  first=$(echo "$out" | grep "^violation \[" | head -2 | cut -c1-260 | tr '\n' ' ')
  echo "$p rc=$rc violations=$v $first"
  echo "$out" | grep "^VIOLATION" | head -3
done
