#!/bin/bash
# Kernel-model conformance (DESIGN.md 8.3 / 13): generated socket+epoll scripts and a few fixed
# ones are run against the real Linux kernel of this machine and against verif/sim/kernel; the
# observation logs must agree. Self-validation of the trusted base; decides no property.
# usage: tools/conformance.sh [scripts per seed, default 2000] [seeds, default "1 2 3"]
cd "$(dirname "$0")/.."
. ./env.sh
n=${1:-2000}; seeds=${2:-"1 2 3"}
rc=0
go test -count=1 ./harness/conform/ -run TestConformanceFixed -v 2>&1 | grep -E "^(---|ok|FAIL)|DISAGREE" || rc=1
for s in $seeds; do
  CONFORM_N=$n CONFORM_SEED=$s go test -count=1 -timeout 2h ./harness/conform/ -run 'TestConformance$' -v 2>&1 | grep -E "scripts=|class x|^(---|FAIL)" 
  [ ${PIPESTATUS[0]} -eq 0 ] || rc=1
done
exit $rc
