#!/bin/bash
# Runs the seeded changes of seeded/ against the quick checks and records the outcome in each
# meta.json ("checks": {"Cxx": {"caught": bool, "signatures": [...], "budget_s": n, "seed": n}}).
# usage: tools/matrix.sh <budget_s> <id> [<id>...]     (id = directory name under seeded/)
#        PROPS="C01 C04" overrides the properties to run (default: the change's own property)
cd "$(dirname "$0")/.."
budget=$1; shift
tmp=$(mktemp /var/tmp/matrix.XXXXXX)
for id in "$@"; do
  d=seeded/$id
  props=${PROPS:-$(python3 -c "import json;print(json.load(open('$d/meta.json'))['property'])")}
  MUT_SEED=${MUT_SEED:-7} tools/mutant.sh $d/patch.diff $budget $props > $tmp 2>&1
  echo "== $id"; cat $tmp
  python3 - "$d/meta.json" "$budget" "${MUT_SEED:-7}" "$tmp" <<'PY'
import json,sys,re
meta=json.load(open(sys.argv[1]))
for l in open(sys.argv[4],errors='replace').read().splitlines():
    m=re.match(r'(C\d\d) rc=(\d+) violations=(\d+) ?(.*)',l)
    if not m: continue
    sigs=re.findall(r'violation \[([^\]]+)\]',m.group(4))
    meta.setdefault('checks',{})[m.group(1)]={'caught':m.group(2)=='1' and int(m.group(3))>0,'rc':int(m.group(2)),'signatures':sigs,'budget_s':int(sys.argv[2]),'seed':int(sys.argv[3])}
json.dump(meta,open(sys.argv[1],'w'),indent=1)
PY
done
rm -f $tmp
