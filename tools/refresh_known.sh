#!/bin/bash
# Re-creates the committed replays of the OPEN known findings after a change of the
# simulator or a harness (which shifts schedules): each open entry is temporarily disabled,
# its check is run until a violation with exactly its signature is found, and the minimised
# replay is copied to replays/known/<id>.json. The signatures and descriptions in
# known_findings.json are never touched.
cd "$(dirname "$0")/.."
python3 - <<'PY'
import json,subprocess,glob,os,shutil,sys
out='/var/tmp/refresh-out'; os.makedirs(out+'/replays/found',exist_ok=True); os.environ['VERIF_OUTDIR']=out
kf=json.load(open('known_findings.json'))
opens=[f for f in kf['findings'] if f['status']=='open']
for f in opens: f['status']='refreshing'
json.dump(kf,open('known_findings.json','w'),indent=1)
ok=True
try:
    byprop={}
    for f in opens: byprop.setdefault(f['property'],[]).append(f)
    for prop,fs in byprop.items():
        want={f['signature']:f for f in fs}
        for seed in (1,2,3,4,5):
            if not want: break
            for g in glob.glob(out+'/replays/found/%s-*'%prop): os.remove(g)
            subprocess.run(['./bin/check','-p',prop,'-budget','20','-seed',str(seed)],stdout=subprocess.DEVNULL,stderr=subprocess.DEVNULL)
            for g in glob.glob(out+'/replays/found/%s-*.json'%prop):
                v=json.load(open(g)); sig=v['violation']['signature']
                if sig in want:
                    shutil.copy(g,'replays/known/%s.json'%want[sig]['id']); print('refreshed',want[sig]['id'],'minimised=',v['minimised']); del want[sig]
        for s in want: print('NOT REPRODUCED:',want[s]['id'],s); ok=False
finally:
    kf=json.load(open('known_findings.json'))
    for f in kf['findings']:
        if f['status']=='refreshing': f['status']='open'
    json.dump(kf,open('known_findings.json','w'),indent=1)
sys.exit(0 if ok else 1)
PY
