#!/bin/bash
# Determinism self-test: every run index must produce the same event-log hash, schedule
# fingerprint, step count and verdict whatever ran before it in the same worker process and
# whatever GOMAXPROCS is: each property is executed with 3 worker layouts (so every index has
# different predecessors, including none) and the per-run hash lines are diffed.
# usage: tools/determinism.sh [runs_per_property] [properties...]
cd "$(dirname "$0")/.."
N=${1:-240}; shift
PROPS=${@:-C01 C02 C03 C04 C05 C06 C07 C08 C09 C10 C11 C12 C13 C14 C15 C16 C17 C18 C19 C20}
T=$(mktemp -d /var/tmp/verif-det-XXXX)
export VERIF_OUTDIR=$T/out
bad=0
for p in $PROPS; do
  ./bin/check -repo ${DET_REPO:-/repo} -p $p -budget 600 -workers 4 -maxruns $((N/4)) -hashes $T/a.txt -noshrink >/dev/null 2>&1
  ./bin/check -repo ${DET_REPO:-/repo} -p $p -budget 600 -workers 2 -maxruns $((N/2)) -hashes $T/b.txt -noshrink >/dev/null 2>&1
  GOMAXPROCS=1 ./bin/check -repo ${DET_REPO:-/repo} -p $p -budget 600 -workers 12 -maxruns $((N/12)) -hashes $T/c.txt -noshrink >/dev/null 2>&1
  # negative indices are sweep cases (layout independent but numbered per worker): compare random-search runs only
  grep -v "^-" $T/a.txt | sort > $T/a1; grep -v "^-" $T/b.txt | sort > $T/b1; grep -v "^-" $T/c.txt | sort > $T/c1
  d1=$(diff $T/a1 $T/b1 | grep -c "^[<>]")
  d2=$(join -j1 <(awk '{print $1" "$0}' $T/a1 | sort) <(awk '{print $1" "$0}' $T/c1 | sort) | awk '{ if ($3!=$8 || $4!=$9 || $5!=$10 || $6!=$11) c++ } END {print c+0}')
  n=$(wc -l < $T/a1)
  echo "$p: $n runs compared, layout 4-vs-2 differing lines: $d1, 4-vs-12(GOMAXPROCS=1) differing common runs: $d2"
  if [ "$d1" != "0" ] || [ "$d2" != "0" ]; then bad=1; diff $T/a1 $T/b1 | head -4; fi
done
rm -rf $T
exit $bad
