#!/usr/bin/env python3
"""Regenerates /verif/MANIFEST.json from the table below (kept next to the driver's spec table)."""
import json, os, sys
root = os.path.dirname(os.path.dirname(os.path.abspath(__file__)))
props = [json.loads(l) for l in open(os.path.join(root, 'properties.jsonl'))]

TRUST = ("Trusted base: the simulated Linux kernel model (verif/sim/kernel, rules in DESIGN.md 3.4), the cooperative sync/atomic/time shims, "
         "the mechanical source transformation (cmd/simgen) and the oracle code. Sampling: a clean batch is evidence, not proof. Linux/epoll build only.")

claimed = {
 "C01": dict(cat="exploration", ref="5/C01",
   text="Seeded search over write-operation sequences x kernel acceptance patterns x schedules on the real nbio code running on a simulated kernel; reference model = append-only byte log per connection (single writer) or record framing (concurrent writers); checked at every peer read and at quiescence of a fault-free fair phase. Finds lost/duplicated/reordered/interleaved bytes and short counts without error; cannot prove their absence. Before the random search a fault-point sweep is ENUMERATED: every small plan x mode x transport x capacity x peer behaviour, undisturbed and with exactly one scripted short write at every position (DESIGN.md 10.5).",
   tech="deterministic simulation: seeded scheduler + simulated kernel with short-write/EAGAIN/EINTR injection, byte-stream reference model"),
 "C02": dict(cat="exploration", ref="5/C02",
   text="Seeded search over the full engine configuration matrix with simulated peers (bursts around the read-buffer size, pauses, half-close/close/reset, echo and concurrent writers) on the simulated kernel; oracle: per connection the concatenation of data-callback arguments is a prefix of what the kernel model made readable and equals it at quiescence for connections that stay open or end orderly; callbacks of one connection never overlap; UDP: same connection object per remote, one callback per queued datagram with equal payload; a progress-free fair phase dominated by reads is a spinning reader. One run index in eight (part idle) judges the outbound scenarios - accepted, added and dialed connections - for pollers or readers that keep running although nothing moves; 12% of the inbound cases start their peers while Engine.Start is still running.",
   tech="deterministic simulation: seeded scheduler + simulated epoll/sockets over the configuration matrix, inbound byte-stream reference model, livelock detection"),
 "C03": dict(cat="exploration", ref="5/C03",
   text="Seeded search over connection histories (accepted / added / asynchronously dialed with connected, refused and never-answered outcomes) ended by every cause, several at once, with injected dup and EPOLL_CTL_ADD failures and a final Engine.Stop; oracle: per-connection lifecycle automaton fed by callbacks and API returns (open before close, exactly one close by quiescence and by the time Stop returns, none without open, first-cause error by event order, closed indication and no descriptor access after Close returned, dial outcome exactly once and truthful against the kernel model). One run index in nine each: UDP listener sessions (ended by Close, deadlines, inside their own open notification, opened by an empty datagram, hit by datagrams while they end; every session audited after Stop) and part stoprace (the stop scenarios judged for the lifecycle clauses: no close notification without the open notification, one outcome per asynchronous dial, also AF_UNIX dials that complete at once).",
   tech="deterministic simulation: seeded interleaving + fault search with a lifecycle reference automaton"),
 "C04": dict(cat="exploration", ref="5/C04",
   text="Bounded liveness by simulation: after the generated history all faults stop, scheduling becomes fair and the peer keeps reading; at quiescence every accepted byte must have arrived while the connection is open, and a progress-free fair phase (30000 steps) is a livelock. Backlogs are created from goroutines, open/data callbacks and before epoll registration, in LT/ET/ONESHOT. Preceded by the enumerated fault-point sweep of C01, judged for liveness; connections made by DialAsync over TCP and AF_UNIX included.",
   tech="deterministic simulation: bounded-liveness check in a fault-free fair phase after seeded fault/schedule search"),
 "C05": dict(cat="exploration", ref="5/C05",
   text="Real Conn.Execute/MustExecute code under the seeded scheduler with 1-4 concurrent submitters, jobs that yield, panic or resubmit, Close at a random point and three executor kinds; the recorded history (invoke/return stamps of submissions, start/end stamps of runs) is checked against the sequential model: disjoint run intervals, exactly-once for accepted jobs, never for rejected ones, rejection only after Close was invoked and always after it returned, FIFO by real-time precedence. 8% of the job histories begin with a held-up job and 30-1000 jobs queued behind it (one drain session far beyond the ordinary list lengths); a job runner that dies of an internal runtime error and leaves the world stuck is reported.",
   tech="deterministic simulation: seeded interleaving search, history checked for linearizability against a FIFO single-consumer queue model"),
 "C16": dict(cat="exploration", ref="5/C16",
   text="Timed histories of Set*Deadline / Write / Close on the simulated clock, which the scheduler also advances while the renewing goroutine is parked; every timeout close and, at quiescence, every deadline still in force is judged by a reference model of the documented semantics (never early, right kind, not stale, enforced). Core deadlines only; keep-alive timing of nbhttp/websocket is not covered by this check. The histories include CloseAfterFlush (deferred by a backlog: the deadlines stay in force).",
   tech="deterministic simulation: simulated clock with scheduler-controlled timer/renewal races, deadline reference model"),
 "C18": dict(cat="exploration", ref="5/C18",
   text="Arbitrary preceding history, then Stop / Shutdown(live ctx) raced with late connects, dials, closes and writes (optionally right after Start); bounded liveness (Stop returns in the fair phase) plus leak audit from the simulator's side: close notification per opened connection at return, listener gone, no engine goroutine alive, no simulated descriptor open, no timer armed. Core engine only. 10% of the core cases set MaxOpenFiles so low that some of the run's descriptors are refused by the engine.",
   tech="deterministic simulation: bounded-liveness + leak audit (goroutines, descriptors, timers) after seeded Stop races"),
 "C06": dict(cat="fault_enumeration", ref="5/C06",
   text="The transport's segmentation is the simulated fault: for every generated (optionally corrupted) pipelined HTTP/1.x stream the check ENUMERATES every single cut position, byte-at-a-time and a seeded set of multi-cut segmentations, and compares the recording Processor's event log and verdict with the one-piece feed. Complete over single cuts per stream; the stream space is sampled from a grammar.",
   tech="deterministic simulation of the transport: exhaustive single-cut enumeration per seeded stream against the one-piece reference run"),
 "C07": dict(cat="exploration", ref="5/C07",
   text="Differential check against net/http as reference codec on generated well-formed pipelined messages travelling the real parser -> ServerProcessor -> handler path; compared field by field including the end offset of every message. Candidly an input-space search; the simulator contributes segmentation, pipelining, replay and shrinking. Chunk sizes in lower-case, upper-case and zero-padded hexadecimal; Connection fields with option lists and repeated Connection fields.",
   tech="seeded differential testing against a reference parser inside the simulated transport harness"),
 "C08": dict(cat="exploration", ref="5/C08",
   text="Byzantine peer / corrupting transport: a swept catalogue of malformed framing metadata plus seeded byte-level corruption, oversize fields and garbage, in random segmentation with small ReadLimit / MaxHTTPBodySize; oracle: no (recovered) panic, silence after the first error, catalogue rejected, retained pooled bytes and body sizes bounded (measured by the tracking allocator).",
   tech="deterministic simulation of a corrupting transport: fault catalogue sweep + seeded corruption search with bound and silence oracles"),
 "C09": dict(cat="exploration", ref="5/C09",
   text="Seeded handler programs over the real Response / flushResponse code, wire bytes decoded by net/http as independent client and compared with a reference model of the handler's intent; write sizes target the 64 KiB flush threshold; a separate quarter of the batch injects transport write failures with a narrowly relaxed oracle.",
   tech="seeded operation-sequence search with transport fault injection, reference model of handler intent + independent decoder"),
 "C10": dict(cat="exploration", ref="5/C10",
   text="nbhttp.Engine on the simulated kernel in all three I/O modes and epoll modes with 1-4 concurrent raw simulated clients (pipelining, segmentation, bodies around internal thresholds, HTTP/1.0 and 1.1, keep-alive/close); per connection the received stream must decode to exactly one answer per request, in order, each echoing its request's unique id and keyed body; handlers of one connection never overlap; connections are kept or closed as dictated. TLS and the nbhttp.Client callback clause are NOT explored by this check.",
   tech="deterministic simulation: seeded scheduler + simulated kernel with short writes/reads and in-flight delivery, request/response id matching via an independent HTTP decoder"),
 "C14": dict(cat="exploration", ref="5/C14",
   text="nbhttp.Engine + websocket.Upgrader on the simulated kernel: three upgrade paths x epoll modes, compliant simulated clients that may send immediately after the 101, 0-4 concurrent WriteMessage goroutines per connection with fragmentation, connections ending by close frame, reset or application Close; callback-grammar oracle (open completes first, messages in wire order without overlap, close exactly once and last) and peer-side frame oracle (whole messages, contiguous fragments, exactly once). The HandleRead path (std net/http connections) and TLS are NOT explored. Options drawn per case: ReleasePayload (payload compared before and after the callback), unsolicited pongs with a pong handler in the one-callback-at-a-time accounting, BlockingModSendQueueMaxSize 1-5; dialer part: connections ended inside an open callback on either side.",
   tech="deterministic simulation: seeded interleaving + fault search with callback-grammar and independent frame-codec oracles"),
 "C11": dict(cat="exploration", ref="5/C11",
   text="Ownership-tracking allocator (never recycles, poisons on Free, quarantines) installed at the public allocator seam while seeded HTTP handler programs, WebSocket round trips, byzantine frame sequences, corrupted request streams and limit scenarios run with transport failures; flags double free, use/append after free, foreign free, write after free and poison on the wire. Single-threaded: close races are out of reach of this check. One run index in sixteen runs the inbound scenarios with application supplied read buffers (OnReadBufferAlloc / OnReadBufferFree on the tracked pool).",
   tech="deterministic simulation with transport fault injection and an ownership-tracking allocator as runtime oracle"),
 "C12": dict(cat="exploration", ref="5/C12",
   text="Two real websocket.Conn endpoints joined by the simulated transport; seeded message sequences over all length classes, content kinds, roles, compression levels and frame-size limits; the wire is judged by an independent frame codec and delivered in enumerated single cuts (small cases), seeded multi-cuts or fixed read sizes; receiver log must equal sender log.",
   tech="deterministic simulation of the transport (segmentation enumeration/sampling, write failures) with an independent frame codec as oracle"),
 "C13": dict(cat="exploration", ref="5/C13",
   text="Byzantine peer: seeded frame sequences over the header space with spliced-in violations, in random segmentation, judged by an executable reference validator written from RFC 6455; latitude points of the RFC assert nothing.",
   tech="deterministic simulation of a byzantine peer against an executable RFC 6455 reference validator"),
 "C15": dict(cat="exploration", ref="5/C15",
   text="Limits drawn small; single frames, all fragment partition classes and permessage-deflate bombs straddling the limit, control frames around 125 bytes, trickled giant lengths; besides delivery and 1009 answers the tracking allocator measures the bytes actually buffered, which catches limits enforced only after inflating. The fragment scenarios put a ping of 0-125 bytes between the first two fragments in 30% of the cases (no part of the message).",
   tech="deterministic simulation of a hostile peer with allocator-side measurement of buffered bytes"),
 "C20": dict(cat="exploration", ref="5/C20",
   text="Model-based operation sequences on the three real allocators with a simulated sync.Pool whose Get returns any earlier Put or a new object by PRNG (five policies) and 1-3 simulated goroutines interleaved by the seeded scheduler; after every operation all live buffers are compared with the reference model and checked pairwise for memory overlap. Candidly mostly operation-sequence search; simulation adds pool policy and interleaving.",
   tech="deterministic simulation: seeded scheduler + simulated sync.Pool policies, model-based operation sequences with aliasing oracle"),
 "C17": dict(cat="exploration", ref="5/C17",
   text="Exact backlog accounting from the simulated kernel's side (accepted buffer bytes minus bytes the kernel took) compared after every call with nbio's decision (accept / ErrOverflow) and with its internal counter; fill/drain cycles and sizes around the bound are generated. Preceded by the enumerated fault-point sweep; a write refused with a retryable error on an open connection although it fits is a violation (fitting-write-refused); 20% of the cases have 2-3 concurrent writers, for which a measured excess over the bound is judged.",
   tech="deterministic simulation: kernel-side ground-truth accounting vs implementation decisions under seeded acceptance patterns"),
 "C19": dict(cat="exploration", ref="5/C19",
   text="Real taskpool / IOTaskPool / timer.Async code under the seeded scheduler with bursts above the bound, panicking tasks and Stop racing submissions; oracles: exactly-once for tasks handed over before Stop, concurrency bound, self-calibrated capacity recovery (barrier of P0 tasks), FIFO/non-overlap for Async by real-time precedence.",
   tech="deterministic simulation: seeded interleaving search with exactly-once / bound / FIFO-precedence oracles"),
}

checks = []
for p in props:
    i = p['id']
    if i not in claimed: continue
    c = claimed[i]
    checks.append({
      "property_id": i,
      "quick_cmd": f"./bin/check -p {i} -tier quick",
      "thorough_cmd": f"./bin/check -p {i} -tier thorough",
      "evidence_file": f"/verif/evidence/{i}.json",
      "replay_cmd_template": f"./bin/check -p {i} -replay {{path}}",
      "engine": "simcheck",
      "level_claimed": {"category": c['cat'], "text": c['text'], "design_ref": "DESIGN.md section " + c['ref']},
      "level_note": TRUST,
      "technique": c['tech'],
    })
na = [{"property_id": p['id'], "reason": "check not built yet (work in progress; planned in DESIGN.md section 5)"} for p in props if p['id'] not in claimed]
m = {
 "version": 1,
 "setup_cmd": "cd /verif && ./setup.sh",
 "hooks": {"guard": "verif", "enable": "none: every check transforms a scratch copy of /repo's current working tree with cmd/simgen (import swap to simulator shims); no hook is committed to /repo",
           "baseline_off_cmd": "cd /repo && go test -mod=mod -json -vet=off -count=1 -timeout 25m ./...", "source_commits": [], "add_only": True},
 "engines": [{"name": "simcheck", "path": "/verif/cmd/check", "serves_properties": [c['property_id'] for c in checks],
              "kind_free_text": "deterministic simulation with fault injection: seeded scheduler over real goroutines in a testing/synctest bubble, simulated Linux kernel, reference-model oracles, replay + shrinking"}],
 "checks": checks,
 "not_applicable": na,
 "notes": "Exit codes: 0 held, 1 + VIOLATION line, 2 infrastructure. VERIF_SEED selects the batch; VERIF_THOROUGH_S overrides the thorough search budget (seconds). Known findings: /verif/known_findings.json.",
}
# (kept also when empty: every property is claimed, none is listed as not applicable)
json.dump(m, open(os.path.join(root, 'MANIFEST.json'), 'w'), indent=1)
print("claimed:", [c['property_id'] for c in checks], "unclaimed:", len(na))
