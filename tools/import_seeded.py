#!/usr/bin/env python3
"""Imports one change delivered by a sub-agent (X.diff, X_demo_test.go.txt, X_notes.md in an output
directory) as seeded/<id>/ after confirming it in a fresh scratch worktree of /repo's HEAD:
demonstration passes on the clean tree, the patch applies and builds, the demonstration fails with
it, the pinned suite passes with it (demonstration removed). Nothing is kept unless all of that holds.
usage: tools/import_seeded.py <outdir> <X> <id> <property> [wave]
"""
import json, os, re, shutil, subprocess, sys, tempfile

outdir, X, sid, prop = sys.argv[1:5]
wave = int(sys.argv[5]) if len(sys.argv) > 5 else 5
verif = os.path.dirname(os.path.dirname(os.path.abspath(__file__)))
env = dict(os.environ, GOFLAGS='-mod=mod', GOPROXY='off', GOSUMDB='off', GOTOOLCHAIN='local')

demo = None
for cand in (f'{X}_demo_test.go.txt', f'{X}_demo_main.go.txt'):
    if os.path.exists(os.path.join(outdir, cand)):
        demo = os.path.join(outdir, cand)
if demo is None:
    sys.exit(f'{sid}: no demonstration file')
head = open(demo).read().split('\n')[:12]
place = run = None
for l in head:
    m = re.search(r'place at:\s*(\S+)', l)
    if m and not place:
        place = m.group(1)
    m = re.search(r'(go (test|run) .*)$', l)
    if m and not run:
        run = m.group(1).split(' ; ')[0].split(';')[0].strip()
if not place or not run:
    sys.exit(f'{sid}: cannot parse the demonstration header: place={place} run={run}')

wt = tempfile.mkdtemp(prefix='confwt.', dir='/var/tmp')
os.rmdir(wt)
res = {'patch_applies': False, 'builds': False, 'demo_passes_without_change': False,
       'demo_fails_with_change': False, 'pinned_suite_passes_with_change': False}
def sh(cmd, **kw):
    return subprocess.run(cmd, shell=True, cwd=wt, env=env, stdout=subprocess.PIPE, stderr=subprocess.STDOUT, text=True, **kw)
try:
    subprocess.run(['git', '-C', '/repo', 'worktree', 'add', '--detach', wt, 'HEAD', '-q'], check=True)
    dst = os.path.join(wt, place)
    newdir = not os.path.isdir(os.path.dirname(dst))
    os.makedirs(os.path.dirname(dst), exist_ok=True)
    shutil.copy(demo, dst)
    lock = 'flock /tmp/nbio-suite.lock '
    r = sh(lock + run, timeout=900)
    res['demo_passes_without_change'] = r.returncode == 0
    clean_out = r.stdout[-600:]
    r = sh(f'git apply {os.path.join(outdir, X + ".diff")}')
    res['patch_applies'] = r.returncode == 0
    r = sh('go build ./...')
    res['builds'] = r.returncode == 0
    r = sh(lock + run, timeout=900)
    res['demo_fails_with_change'] = r.returncode != 0 and 'build failed' not in r.stdout
    mut_out = r.stdout[-600:]
    os.remove(dst)
    if newdir:
        shutil.rmtree(os.path.dirname(dst), ignore_errors=True)
    sh('rm -f test_tmp.file')
    r = sh(lock + 'go test -mod=mod -vet=off -count=1 -timeout 25m ./...', timeout=1800)
    res['pinned_suite_passes_with_change'] = r.returncode == 0
    suite_out = r.stdout[-400:]
finally:
    subprocess.run(['git', '-C', '/repo', 'worktree', 'remove', '--force', wt])
    shutil.rmtree(wt, ignore_errors=True)

ok = all(res.values())
print(sid, 'CONFIRMED' if ok else 'NOT CONFIRMED', res)
if not ok:
    print('clean:', clean_out, '\nmutated:', mut_out)
    sys.exit(1)
d = os.path.join(verif, 'seeded', sid)
os.makedirs(d, exist_ok=True)
shutil.copy(os.path.join(outdir, X + '.diff'), os.path.join(d, 'patch.diff'))
shutil.copy(demo, os.path.join(d, os.path.basename(demo)))
notes = os.path.join(outdir, X + '_notes.md')
summary, needs = '', ''
if os.path.exists(notes):
    shutil.copy(notes, os.path.join(d, 'notes.md'))
    txt = open(notes).read()
    lines = [l.strip('# ').strip() for l in txt.split('\n') if l.strip()]
    summary = lines[0][:200] if lines else ''
    m = re.search(r'(?is)(needs?[^\n]*manifest.*?)(\n#|\Z)', txt)
    if m:
        needs = m.group(1).strip()[:1500]
files = subprocess.run(f"grep '^+++ b/' {os.path.join(d,'patch.diff')} | sed 's#+++ b/##'", shell=True, stdout=subprocess.PIPE, text=True).stdout.split()
meta = {'id': sid, 'wave': wave, 'property': prop, 'summary': summary, 'files_changed': files,
        'needs_to_manifest': needs,
        'demonstration': {'file': os.path.basename(demo), 'place_at': place, 'run': run},
        'confirmed_in_scratch_worktree': dict(res, how='tools/import_seeded.py: fresh git worktree of /repo HEAD under /var/tmp: demo on clean tree, git apply, go build ./..., demo again, then the pinned suite with the demo removed')}
json.dump(meta, open(os.path.join(d, 'meta.json'), 'w'), indent=1)
