#!/bin/bash
# Builds the framework from files on disk only (offline).
set -e
cd "$(dirname "$0")"
. ./env.sh
mkdir -p bin evidence replays/found
go build -o bin/simgen ./cmd/simgen
go build -o bin/check ./cmd/check
go build -o bin/shimgen ./cmd/shimgen
go build ./...
# warm the build cache for the harness worlds against the current tree (best effort)
warm=$(mktemp -d /var/tmp/verif-warm.XXXXXX)
for p in C19; do VERIF_OUTDIR=$warm ./bin/check -p $p -budget 1 -workers 2 -noshrink >/dev/null 2>&1 || true; done
rm -rf "$warm"
echo "setup ok"
