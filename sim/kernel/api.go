package kernel

import (
	"os"
	std "syscall"

	simrt "verif/sim/rt"
)

// ---------------------------------------------------------------------------------------
// harness-side endpoints ("peers"): sockets without descriptors

// NewPeer creates an unconnected endpoint for a simulated peer.
func (k *Kernel) NewPeer(typ int) *Sock { return k.newSock(typ) }

// ConnectPeer connects a peer endpoint to a listener (blocking semantics: immediate result).
func (k *Kernel) ConnectPeer(s *Sock, a *Addr) error {
	simrt.Yield()
	if e := k.connect(s, a, false); e != 0 {
		return e
	}
	return nil
}

// PeerWrite writes as much of b as fits; returns the number of bytes accepted.
func (s *Sock) PeerWrite(b []byte) (int, error) {
	simrt.Yield()
	n, e := s.send(b, false)
	if e == std.EAGAIN {
		return 0, nil
	}
	if e != 0 {
		return n, e
	}
	return n, nil
}

// PeerRead reads up to max bytes (nil, nil when nothing is readable; io.EOF style via EOF()).
func (s *Sock) PeerRead(max int) ([]byte, error) {
	simrt.Yield()
	if max <= 0 {
		return nil, nil
	}
	buf := make([]byte, max)
	n, e := s.recv(buf, false)
	if e == std.EAGAIN {
		return nil, nil
	}
	if e != 0 {
		return nil, e
	}
	return buf[:n], nil
}

// PeerSendTo sends a datagram from a peer endpoint.
func (k *Kernel) PeerSendTo(s *Sock, b []byte, to *Addr) {
	simrt.Yield()
	k.sendDgram(s, b, to)
}

// PeerRecvFrom receives a datagram (nil if none).
func (s *Sock) PeerRecvFrom() ([]byte, *Addr) {
	simrt.Yield()
	if len(s.dq) == 0 {
		return nil, nil
	}
	d := s.dq[0]
	s.dq = s.dq[1:]
	return d.data, d.from
}

// DgramQueued returns the number of queued datagrams.
func (s *Sock) DgramQueued() int { return len(s.dq) }

// ---------------------------------------------------------------------------------------
// remaining descriptor-level calls

// Connect is connect(2) for descriptors created by Socket.
func (k *Kernel) Connect(fd int, a *Addr) error {
	simrt.Yield()
	f := k.file(fd, "connect")
	if f == nil || f.kind != kindSock {
		return std.EBADF
	}
	s := f.sock
	if s.Typ == UDP {
		if s.Local == nil {
			k.BindDgram(s, k.ephemeral("udp"))
		}
		s.Remote = a
		s.state = stEstablished
		return nil
	}
	e := k.connect(s, a, true)
	simrt.Ev("connect", int64(fd), int64(e))
	if e != 0 {
		return e
	}
	return nil
}

// Recvfrom is recvfrom(2) on a datagram descriptor.
func (k *Kernel) Recvfrom(fd int, b []byte) (int, *Addr, error) {
	simrt.Yield()
	f := k.file(fd, "recvfrom")
	if f == nil || f.kind != kindSock {
		return -1, nil, std.EBADF
	}
	n, from, e := f.sock.recvDgram(b)
	if e != 0 {
		return -1, nil, e
	}
	return n, from, nil
}

// Sendto is sendto(2) on a datagram descriptor.
func (k *Kernel) Sendto(fd int, b []byte, to *Addr) error {
	simrt.Yield()
	f := k.file(fd, "sendto")
	if f == nil || f.kind != kindSock {
		return std.EBADF
	}
	_, err := k.sendDgram(f.sock, b, to)
	return err
}

// Sendfile copies from a real file descriptor into a simulated socket.
func (k *Kernel) Sendfile(outfd, infd int, offset *int64, count int) (int, error) {
	simrt.Yield()
	f := k.file(outfd, "sendfile")
	if f == nil || f.kind != kindSock {
		return -1, std.EBADF
	}
	s := f.sock
	if count <= 0 {
		return 0, nil
	}
	sp := s.Space()
	if s.state == stEstablished && !s.rst && !s.wshut && sp <= 0 {
		s.nospace = true
		k.stat("sendfile_EAGAIN")
		simrt.Ev("sendfile", int64(outfd), 0, int64(std.EAGAIN))
		return -1, std.EAGAIN
	}
	if s.state == stEstablished && !s.rst && k.chance(k.P.EINTRWrite) {
		k.stat("sendfile_EINTR")
		return -1, std.EINTR
	}
	n := count
	if n > sp && sp > 0 {
		n = sp
	}
	if n > 1<<20 {
		n = 1 << 20
	}
	buf := make([]byte, n)
	var rn int
	var err error
	if offset != nil {
		rn, err = std.Pread(infd, buf, *offset)
	} else {
		rn, err = std.Read(infd, buf)
	}
	if err != nil {
		return -1, err
	}
	if rn == 0 {
		return 0, nil
	}
	wn, e := s.send(buf[:rn], true)
	simrt.Ev("sendfile", int64(outfd), int64(wn), int64(e))
	if e != 0 {
		return -1, e
	}
	if offset != nil {
		*offset += int64(wn)
	}
	s.FileIn += int64(wn)
	return wn, nil
}

// Getsockname returns the local address of a descriptor.
func (k *Kernel) Getsockname(fd int) (*Addr, error) {
	f := k.file(fd, "getsockname")
	if f == nil || f.kind != kindSock {
		return nil, std.EBADF
	}
	return f.sock.Local, nil
}

var _ = os.Getpid

// Touch records an access to a descriptor that is not open (EBADF accounting).
func (k *Kernel) Touch(fd int, what string) { k.file(fd, what) }

// TakeError returns and clears the pending socket error (SO_ERROR).
func (s *Sock) TakeError() std.Errno {
	e := s.errOnce
	s.errOnce = 0
	return e
}

// DgramAt returns the datagram socket bound to an address.
func (k *Kernel) DgramAt(a *Addr) *Sock { return k.dgramByAddr[a.key()] }
