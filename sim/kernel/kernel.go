// Package kernel is the in-memory model of the Linux facilities nbio uses: stream and
// datagram sockets, listeners, epoll (LT / ET / ONESHOT), eventfd and the descriptor table.
// Its rules are listed in /verif/DESIGN.md section 3.4. Every choice the real kernel is free
// to make (how much of a write it takes, which ready descriptors one epoll_wait reports,
// when in-flight bytes arrive) is drawn from the run's PRNG; every injected fault is counted
// when it fires.
package kernel

import (
	"fmt"
	"sort"
	std "syscall"

	simrt "verif/sim/rt"
)

// Epoll bits (Linux values).
const (
	EPOLLIN      = 0x1
	EPOLLPRI     = 0x2
	EPOLLOUT     = 0x4
	EPOLLERR     = 0x8
	EPOLLHUP     = 0x10
	EPOLLRDHUP   = 0x2000
	EPOLLONESHOT = 0x40000000
	EPOLLET      = 0x80000000
)

// FDBase is the first simulated descriptor; smaller numbers are real descriptors.
const FDBase = 1000

// FDLimit bounds simulated descriptors (nbio.MaxOpenFiles is set to this by harnesses).
const FDLimit = 4096

// Params are the per-run kernel parameters and fault rates.
type Params struct {
	SndCap       int     `json:"sndcap"`        // bytes a stream direction holds (in flight + unread)
	LowatDiv     int     `json:"lowat_div"`     // writable level: free space >= SndCap/LowatDiv (0: any space)
	InstantNet   bool    `json:"instant_net"`   // no in-flight stage: bytes are readable at once
	FDReuse      bool    `json:"fd_reuse"`      // lowest-free allocation (else never reuse)
	ExtraEdges   bool    `json:"extra_edges"`   // raise a write-space edge on every drain (AF_UNIX behaviour) for all sockets
	ShortWrite   float64 `json:"short_write"`   // P(write takes fewer bytes than there is room for)
	ShortRead    float64 `json:"short_read"`    // P(read returns fewer bytes than available)
	EINTRRead    float64 `json:"eintr_read"`    // P(read/recvfrom -> EINTR)
	EINTRWait    float64 `json:"eintr_wait"`    // P(epoll_wait -> EINTR)
	EINTRWrite   float64 `json:"eintr_write"`   // P(write -> EINTR); only used where the model allows it
	WaitSubset   float64 `json:"wait_subset"`   // P(epoll_wait withholds some ready items)
	DupFail      int     `json:"dup_fail"`      // the n-th dup fails with EMFILE (0: never)
	EpollAddFail int     `json:"epoll_add_fail"` // the n-th EPOLL_CTL_ADD of a socket fails with ENOMEM (0: never)
	DgramQueue   int     `json:"dgram_queue"`   // datagrams a socket queues before dropping
	// Fault-point sweeps: the ShortAt-th stream write that could be cut short (1-based; 0: none)
	// takes exactly ShortTake bytes (clamped to [1, n-1]) - one scripted fault instead of a rate.
	ShortAt   int `json:"short_at,omitempty"`
	ShortTake int `json:"short_take,omitempty"`
}

// DefaultParams is a benign kernel.
func DefaultParams() Params {
	return Params{SndCap: 64 << 10, LowatDiv: 3, InstantNet: true, FDReuse: true, DgramQueue: 64}
}

const (
	kindSock = iota + 1
	kindEpoll
	kindEvent
)

// Socket types.
const (
	TCP = iota + 1
	UNIX
	UDP
)

// Socket states.
const (
	stUnconnected = iota
	stConnecting
	stEstablished
	stRefused
	stListening
)

type segment struct {
	data []byte
	fin  bool
	gone bool // AF_UNIX: the sender's endpoint was closed (arrives in order, behind its data)
}

type dgram struct {
	data []byte
	from *Addr
}

// Addr is a socket address in the model.
type Addr struct {
	Net  string // tcp | unix | udp
	IP   [4]byte
	Port int
	Name string // unix path
}

func (a *Addr) String() string {
	if a == nil {
		return "<nil>"
	}
	if a.Net == "unix" {
		return a.Name
	}
	return fmt.Sprintf("%d.%d.%d.%d:%d", a.IP[0], a.IP[1], a.IP[2], a.IP[3], a.Port)
}

func (a *Addr) key() string { return a.Net + "|" + a.String() }

// Sock is one socket endpoint. Peers simulated by a harness use *Sock directly (no descriptor).
type Sock struct {
	k     *Kernel
	ID    int
	Typ   int
	state int
	peer  *Sock
	Local *Addr
	Remote *Addr

	rq       []byte    // readable bytes
	inflight []segment // sent to us, not yet arrived
	finRcvd  bool      // FIN arrived (after all data)
	rst      bool      // connection was reset
	errOnce  std.Errno // pending socket error, reported once
	wshut    bool      // we sent FIN
	closed   bool      // endpoint closed
	nospace  bool      // a write hit a full buffer; a write-space wake-up is owed once there is room
	owed     bool      // a write-space wake-up owed after an injected short write
	peerGone bool      // AF_UNIX: the peer endpoint was closed (both directions shut down: EPOLLHUP, writes fail with EPIPE)
	sndCap   int
	lowat    int
	refs     int // descriptors referring to this socket

	// datagram side
	dq []dgram
	// listener side
	accq    []*Sock
	backlog int

	watch []*epItem // epoll registrations

	// accounting for oracles
	BytesIn   int64 // bytes accepted from writers of this endpoint
	BytesOut  int64 // bytes handed to readers of this endpoint
	connRes   int   // result of a pending connect: 0 none, 1 established, 2 refused
	connOwed  bool
	Tag       string
	Enqueued  int // datagrams accepted into the queue
	FileIn    int64 // part of BytesIn that came from sendfile
}

type epItem struct {
	ep       *Epoll
	fd       int
	f        *file
	events   uint32
	data     int32
	pad      int32 // second half of epoll_data (user data beyond the fd)
	edge     bool // ET: a wake-up happened since the last report
	disabled bool // ONESHOT fired
}

// Epoll is one epoll instance.
type Epoll struct {
	k     *Kernel
	items []*epItem
	Waits int
}

type eventFD struct {
	count uint64
	watch []*epItem
}

type file struct {
	kind int
	refs int
	sock *Sock
	ep   *Epoll
	ev   *eventFD
}

// Kernel is the per-run world.
type Kernel struct {
	P         Params
	fds       map[int]*file
	nextFD    int
	nextSock  int
	nextPort  int
	listeners map[string]*Sock
	dgramByAddr map[string]*Sock
	socks     []*Sock
	Stats     map[string]int
	Fair      bool // no faults, nothing withheld
	dupCount  int
	shortSeq  int
	addCount  int
	// ConnectPolicy decides the outcome of a connect to an address without a listener:
	// nil -> ECONNREFUSED. For TCP the outcome is delivered asynchronously.
	Blackhole map[string]bool // addresses that never answer a connect
	EBADF     int             // operations on closed / unknown simulated descriptors
	NRead, NWrite, NWait int  // syscall counters (spin attribution)
	lastEBADF string
	daemon    bool
	// OnSyscall, when set, observes every syscall on a simulated descriptor (oracles use it
	// to detect descriptor access after Close returned).
	OnSyscall func(name string, fd int)
	// OnWrote, when set, observes the result of every stream write(2) (taken < 0: error), in
	// the goroutine that made the call.
	OnWrote func(fd, asked, taken int)
}

// K returns the kernel of the current run (created on first use).
func K() *Kernel {
	return simrt.Local("kernel", func() interface{} {
		return New(DefaultParams())
	}).(*Kernel)
}

// Install creates the run's kernel with the given parameters (call first thing in a run).
func Install(p Params) *Kernel {
	k := New(p)
	simrt.Local("kernel", func() interface{} { return k })
	return k
}

// New creates a kernel.
func New(p Params) *Kernel {
	if p.SndCap <= 0 {
		p.SndCap = 64 << 10
	}
	if p.DgramQueue <= 0 {
		p.DgramQueue = 64
	}
	return &Kernel{P: p, fds: map[int]*file{}, nextFD: FDBase, nextPort: 40000, listeners: map[string]*Sock{},
		dgramByAddr: map[string]*Sock{}, Stats: map[string]int{}, Blackhole: map[string]bool{}}
}

func (k *Kernel) stat(s string) { k.Stats[s]++ }

// scriptedShort counts the stream writes that could be cut short and reports whether this one
// is the scripted one (Params.ShortAt). It draws nothing from the PRNG.
func (k *Kernel) scriptedShort() bool {
	if k.P.ShortAt <= 0 || k.Fair {
		return false
	}
	k.shortSeq++
	return k.shortSeq == k.P.ShortAt
}

func (k *Kernel) chance(p float64) bool {
	if k.Fair || p <= 0 {
		return false
	}
	return simrt.Chance(p)
}

// ---------------------------------------------------------------------------------------
// descriptor table

func (k *Kernel) allocFD(f *file) (int, std.Errno) {
	fd := -1
	if k.P.FDReuse {
		for i := FDBase; i < FDLimit; i++ {
			if _, ok := k.fds[i]; !ok {
				fd = i
				break
			}
		}
	} else if k.nextFD < FDLimit {
		fd = k.nextFD
		k.nextFD++
	}
	if fd < 0 {
		return -1, std.EMFILE
	}
	k.fds[fd] = f
	f.refs++
	return fd, 0
}

func (k *Kernel) file(fd int, what string) *file {
	f := k.fds[fd]
	if f == nil {
		k.EBADF++
		k.lastEBADF = fmt.Sprintf("%s(fd=%d) by g%d at step %d", what, fd, simrt.CurID(), simrt.Steps())
		simrt.Ev("EBADF", int64(fd))
	}
	if k.OnSyscall != nil {
		k.OnSyscall(what, fd)
	}
	return f
}

// LastEBADF describes the most recent access to a closed descriptor.
func (k *Kernel) LastEBADF() string { return k.lastEBADF }

// IsSim reports whether fd is a simulated descriptor number.
func IsSim(fd int) bool { return fd >= FDBase }

// OpenFDs lists open simulated descriptors with a description (leak audit).
func (k *Kernel) OpenFDs() []string {
	var fds []int
	for fd := range k.fds {
		fds = append(fds, fd)
	}
	sort.Ints(fds)
	var out []string
	for _, fd := range fds {
		f := k.fds[fd]
		switch f.kind {
		case kindSock:
			out = append(out, fmt.Sprintf("fd %d: socket#%d %s", fd, f.sock.ID, f.sock.Tag))
		case kindEpoll:
			out = append(out, fmt.Sprintf("fd %d: epoll", fd))
		case kindEvent:
			out = append(out, fmt.Sprintf("fd %d: eventfd", fd))
		}
	}
	return out
}

// Dup duplicates a simulated descriptor.
func (k *Kernel) Dup(fd int) (int, error) {
	simrt.Yield()
	f := k.file(fd, "dup")
	if f == nil {
		return -1, std.EBADF
	}
	k.dupCount++
	if k.P.DupFail > 0 && k.dupCount == k.P.DupFail && !k.Fair {
		k.stat("dup_EMFILE")
		return -1, std.EMFILE
	}
	nfd, e := k.allocFD(f)
	if e != 0 {
		return -1, e
	}
	simrt.Ev("dup", int64(fd), int64(nfd))
	return nfd, nil
}

// Close closes a simulated descriptor.
func (k *Kernel) Close(fd int) error {
	simrt.Yield()
	f := k.file(fd, "close")
	if f == nil {
		return std.EBADF
	}
	delete(k.fds, fd)
	f.refs--
	simrt.NoteProgress()
	simrt.Ev("close", int64(fd), int64(f.refs))
	// epoll registrations made through this descriptor number go away with the description
	if f.refs == 0 {
		switch f.kind {
		case kindSock:
			k.unwatchAll(&f.sock.watch)
			f.sock.CloseEnd()
		case kindEvent:
			k.unwatchAll(&f.ev.watch)
		case kindEpoll:
			for _, it := range f.ep.items {
				it.ep = nil
				k.dropWatch(it)
			}
			f.ep.items = nil
		}
	}
	return nil
}

func (k *Kernel) dropWatch(it *epItem) {
	var w *[]*epItem
	switch it.f.kind {
	case kindSock:
		w = &it.f.sock.watch
	case kindEvent:
		w = &it.f.ev.watch
	default:
		return
	}
	for i, x := range *w {
		if x == it {
			*w = append((*w)[:i], (*w)[i+1:]...)
			break
		}
	}
}

func (k *Kernel) unwatchAll(w *[]*epItem) {
	for _, it := range *w {
		if it.ep != nil {
			for i, x := range it.ep.items {
				if x == it {
					it.ep.items = append(it.ep.items[:i], it.ep.items[i+1:]...)
					break
				}
			}
		}
	}
	*w = nil
}

// ---------------------------------------------------------------------------------------
// sockets

func (k *Kernel) newSock(typ int) *Sock {
	k.nextSock++
	s := &Sock{k: k, ID: k.nextSock, Typ: typ, sndCap: k.P.SndCap}
	if k.P.LowatDiv > 0 {
		s.lowat = s.sndCap / k.P.LowatDiv
	}
	if s.lowat < 1 {
		s.lowat = 1
	}
	k.socks = append(k.socks, s)
	return s
}

func (k *Kernel) ephemeral(netw string) *Addr {
	k.nextPort++
	if netw == "unix" {
		return &Addr{Net: "unix", Name: fmt.Sprintf("@sim-%d", k.nextPort)}
	}
	return &Addr{Net: netw, IP: [4]byte{127, 0, 0, 1}, Port: k.nextPort}
}

// Socket creates an unconnected socket with a descriptor.
func (k *Kernel) Socket(typ int) (int, error) {
	simrt.Yield()
	s := k.newSock(typ)
	fd, e := k.allocFD(&file{kind: kindSock, sock: s})
	if e != 0 {
		return -1, e
	}
	s.refs = 1
	simrt.Ev("socket", int64(fd), int64(typ))
	return fd, nil
}

// fdFor gives an existing endpoint a descriptor (accepted sockets, dialed std conns).
func (k *Kernel) FDFor(s *Sock) (int, error) {
	fd, e := k.allocFD(&file{kind: kindSock, sock: s})
	if e != 0 {
		return -1, e
	}
	return fd, nil
}

// SockOf returns the socket behind a descriptor (nil if it is not an open socket).
func (k *Kernel) SockOf(fd int) *Sock {
	if f := k.fds[fd]; f != nil && f.kind == kindSock {
		return f.sock
	}
	return nil
}

// Listen creates a listening socket bound to addr (port 0 picks one).
func (k *Kernel) Listen(a *Addr) (*Sock, error) {
	simrt.Yield()
	if a.Net != "unix" && a.Port == 0 {
		k.nextPort++
		a.Port = k.nextPort
	}
	if _, ok := k.listeners[a.key()]; ok {
		return nil, std.EADDRINUSE
	}
	typ := TCP
	if a.Net == "unix" {
		typ = UNIX
	}
	s := k.newSock(typ)
	s.state = stListening
	s.Local = a
	s.backlog = 128
	k.listeners[a.key()] = s
	simrt.Ev("listen", int64(s.ID))
	return s, nil
}

// Listening reports whether something listens on the address.
func (k *Kernel) Listening(a *Addr) bool { _, ok := k.listeners[a.key()]; return ok }

// pair creates the two established endpoints of a stream connection.
func (k *Kernel) pair(typ int, cl, sv *Sock, claddr, svaddr *Addr) {
	cl.peer, sv.peer = sv, cl
	cl.Local, cl.Remote = claddr, svaddr
	sv.Local, sv.Remote = svaddr, claddr
	sv.state = stEstablished
}

// Connect connects endpoint s (created by Socket or NewPeer) to a listener.
// TCP with nonblock: returns EINPROGRESS and completes later (connected / refused /
// never, per Blackhole). Unix: immediate.
func (k *Kernel) connect(s *Sock, a *Addr, nonblock bool) std.Errno {
	ln := k.listeners[a.key()]
	if s.Local == nil {
		s.Local = k.ephemeral(a.Net)
	}
	s.Remote = a
	if s.Typ == TCP && nonblock {
		s.state = stConnecting
		switch {
		case k.Blackhole[a.key()]:
			s.connRes = 0
		case ln == nil || ln.closed || len(ln.accq) >= ln.backlog:
			s.connRes = 2
			s.connOwed = true
		default:
			s.connRes = 1
			s.connOwed = true
			sv := k.newSock(s.Typ)
			k.pair(s.Typ, s, sv, s.Local, a)
			ln.accq = append(ln.accq, sv) // the handshake completes in the background
			k.wake(ln, "accept")
		}
		k.kick()
		return std.EINPROGRESS
	}
	if ln == nil || ln.closed || len(ln.accq) >= ln.backlog {
		s.state = stRefused
		return std.ECONNREFUSED
	}
	sv := k.newSock(s.Typ)
	k.pair(s.Typ, s, sv, s.Local, a)
	s.state = stEstablished
	ln.accq = append(ln.accq, sv)
	k.wake(ln, "accept")
	return 0
}

// completeConnect delivers the outcome of a non-blocking connect.
func (k *Kernel) completeConnect(s *Sock) {
	s.connOwed = false
	if s.closed {
		return
	}
	switch s.connRes {
	case 1:
		s.state = stEstablished
		simrt.Ev("connected", int64(s.ID))
		k.wake(s, "connect")
	case 2:
		s.state = stRefused
		s.errOnce = std.ECONNREFUSED
		s.rst = true
		simrt.Ev("refused", int64(s.ID))
		k.wake(s, "refused")
	}
}

// AcceptReady reports whether Accept would not block.
func (s *Sock) AcceptReady() bool { return len(s.accq) > 0 || s.closed }

// Accept takes an established connection from the accept queue (nil if none).
func (s *Sock) Accept() *Sock {
	if len(s.accq) == 0 {
		return nil
	}
	c := s.accq[0]
	s.accq = s.accq[1:]
	simrt.Ev("accept", int64(c.ID))
	simrt.NoteProgress()
	return c
}

// CloseListener closes a listening socket: queued connections are reset.
func (s *Sock) CloseListener() {
	if s.closed {
		return
	}
	s.closed = true
	delete(s.k.listeners, s.Local.key())
	for _, c := range s.accq {
		c.closed = true
		if c.peer != nil {
			c.peer.reset()
		}
	}
	s.accq = nil
	simrt.Ev("close-listener", int64(s.ID))
}

func (s *Sock) queuedTowardsPeer() int {
	p := s.peer
	if p == nil {
		return 0
	}
	n := len(p.rq)
	for _, sg := range p.inflight {
		n += len(sg.data)
	}
	return n
}

// Space is the number of bytes a write would accept right now.
func (s *Sock) Space() int {
	sp := s.sndCap - s.queuedTowardsPeer()
	if sp < 0 {
		sp = 0
	}
	return sp
}

// Established reports whether the connection is up.
func (s *Sock) Established() bool { return s.state == stEstablished }

// Readable returns the number of bytes that can be read now.
func (s *Sock) Readable() int { return len(s.rq) }

// InFlight returns bytes sent to this endpoint that have not arrived yet.
func (s *Sock) InFlight() int {
	n := 0
	for _, sg := range s.inflight {
		n += len(sg.data)
	}
	return n
}

// EOF reports that the peer's FIN (or a reset) has arrived and no data is left.
func (s *Sock) EOF() bool { return len(s.rq) == 0 && (s.finRcvd || s.rst) }

// WasReset reports a reset.
func (s *Sock) WasReset() bool { return s.rst }

// Closed reports whether this endpoint has been closed.
func (s *Sock) Closed() bool { return s.closed }

// Peer returns the other endpoint.
func (s *Sock) Peer() *Sock { return s.peer }

func (s *Sock) level() uint32 {
	var ev uint32
	switch s.Typ {
	case UDP:
		if len(s.dq) > 0 {
			ev |= EPOLLIN
		}
		ev |= EPOLLOUT
		return ev
	}
	if s.state == stListening {
		if len(s.accq) > 0 {
			ev |= EPOLLIN
		}
		return ev
	}
	if len(s.rq) > 0 || s.finRcvd || s.errOnce != 0 || s.rst {
		ev |= EPOLLIN
	}
	if s.finRcvd || s.rst {
		ev |= EPOLLRDHUP
	}
	if s.rst || (s.finRcvd && s.wshut) || s.peerGone {
		ev |= EPOLLHUP
	}
	if s.errOnce != 0 {
		ev |= EPOLLERR
	}
	if s.rst || (s.state == stEstablished && !s.wshut && s.Space() >= s.lowat) {
		ev |= EPOLLOUT
	}
	if s.state == stUnconnected {
		ev |= EPOLLOUT | EPOLLHUP
	}
	return ev
}

// wake puts the epoll registrations of the socket on their ready lists. Linux wake-ups carry a
// key: data arrival is keyed EPOLLIN (sock_def_readable), write space EPOLLOUT
// (sk_stream_write_space, unix_write_space), and ep_poll_callback drops a keyed wake-up whose
// key is not in the registration's interest mask; state changes (FIN, reset, connect completion,
// hang-up) are not keyed and always pass. Found by the conformance suite (harness/conform): an
// edge-triggered registration for EPOLLIN alone was reported again, with the still unread data,
// when the peer made write space.
func (k *Kernel) wake(s *Sock, why string) {
	var key uint32
	switch why {
	case "data", "dgram", "accept":
		key = EPOLLIN
	case "wspace":
		key = EPOLLOUT
	}
	for _, it := range s.watch {
		if key != 0 && it.events&key == 0 {
			continue
		}
		it.edge = true
	}
}

// send appends data to the peer's direction, taking at most the available space.
func (s *Sock) send(b []byte, allowShort bool) (int, std.Errno) {
	k := s.k
	if s.closed {
		return 0, std.EBADF
	}
	if s.rst {
		if s.errOnce != 0 {
			e := s.errOnce
			s.errOnce = 0
			return 0, e
		}
		return 0, std.EPIPE
	}
	if s.wshut {
		return 0, std.EPIPE
	}
	if s.state != stEstablished {
		if s.state == stConnecting {
			return 0, std.EAGAIN
		}
		return 0, std.ENOTCONN
	}
	p := s.peer
	if s.peerGone {
		// AF_UNIX: the peer's close shut down both directions of the survivor; a write fails
		// with EPIPE and nothing else changes (unix_stream_sendmsg)
		return 0, std.EPIPE
	}
	if p == nil || p.closed {
		// TCP: the peer is gone and answers with a reset. (Linux accepts this first write
		// and reports the reset afterwards; the model fails it at once - DESIGN.md 13,
		// conformance suite, deliberate abstractions.)
		s.reset()
		return 0, std.EPIPE
	}
	if len(b) == 0 {
		return 0, 0
	}
	sp := s.Space()
	if sp <= 0 {
		s.nospace = true
		k.stat("write_EAGAIN")
		return 0, std.EAGAIN
	}
	n := len(b)
	if n > sp {
		n = sp
		s.nospace = true
		k.stat("write_short_full")
	} else if allowShort && n > 1 && k.scriptedShort() {
		n = k.P.ShortTake
		if n <= 0 {
			n = len(b) / 2 // "half"
		}
		if n < 1 {
			n = 1
		}
		if n > len(b)-1 {
			n = len(b) - 1
		}
		s.nospace = true
		s.owed = true
		k.stat("write_short_scripted")
		k.kick()
	} else if allowShort && n > 1 && k.chance(k.P.ShortWrite) {
		n = 1 + simrt.Intn(n-1)
		s.nospace = true
		s.owed = true
		k.stat("write_short_injected")
		k.kick()
	}
	data := append([]byte(nil), b[:n]...)
	s.BytesIn += int64(n)
	simrt.NoteProgress()
	if (k.P.InstantNet || k.Fair) && len(p.inflight) == 0 {
		p.rq = append(p.rq, data...)
		k.wake(p, "data")
	} else {
		p.inflight = append(p.inflight, segment{data: data})
		k.kick()
	}
	return n, 0
}

// recv reads from the endpoint.
func (s *Sock) recv(buf []byte, allowFaults bool) (int, std.Errno) {
	k := s.k
	if s.closed {
		return 0, std.EBADF
	}
	if len(buf) == 0 {
		return 0, 0
	}
	if len(s.rq) == 0 {
		if s.errOnce != 0 {
			e := s.errOnce
			s.errOnce = 0
			return 0, e
		}
		if s.finRcvd || s.rst {
			return 0, 0
		}
		if s.state != stEstablished && s.state != stConnecting {
			return 0, std.ENOTCONN
		}
		return 0, std.EAGAIN
	}
	if allowFaults && k.chance(k.P.EINTRRead) {
		k.stat("read_EINTR")
		return 0, std.EINTR
	}
	n := len(buf)
	if n > len(s.rq) {
		n = len(s.rq)
	}
	if allowFaults && n > 1 && !s.finRcvd && !s.rst && k.chance(k.P.ShortRead) {
		// A short read on Linux means the receive queue was exhausted (epoll(7) says
		// so explicitly), so a short read is modelled as "the rest had not arrived
		// yet": the remainder goes back in flight and raises a new readiness edge
		// when it arrives.
		n = 1 + simrt.Intn(n-1)
		rest := append([]byte(nil), s.rq[n:]...)
		s.rq = s.rq[:n]
		s.inflight = append([]segment{{data: rest}}, s.inflight...)
		k.stat("read_short")
		k.kick()
	}
	simrt.NoteProgress()
	copy(buf, s.rq[:n])
	s.rq = s.rq[n:]
	if len(s.rq) == 0 {
		s.rq = nil
	}
	s.BytesOut += int64(n)
	// room for the peer's writer
	if p := s.peer; p != nil && !p.closed {
		if (p.nospace || p.Typ == UNIX || k.P.ExtraEdges) && p.Space() >= p.lowat {
			p.nospace = false
			p.owed = false
			k.wake(p, "wspace")
		}
	}
	return n, 0
}

// reset marks this endpoint as reset by its peer.
func (s *Sock) reset() {
	if s.rst {
		return
	}
	s.rst = true
	s.errOnce = std.ECONNRESET
	s.inflight = nil
	simrt.Ev("rst", int64(s.ID))
	s.k.wake(s, "rst")
}

// ShutdownWrite sends FIN.
func (s *Sock) ShutdownWrite() {
	if s.wshut || s.closed {
		return
	}
	s.wshut = true
	s.sendFin()
	if s.finRcvd {
		// both directions are shut down now: the state change wakes our own pollers (EPOLLHUP)
		s.k.wake(s, "hup")
	}
}

func (s *Sock) sendFin() {
	p := s.peer
	if p == nil || p.closed {
		return
	}
	if (s.k.P.InstantNet || s.k.Fair) && len(p.inflight) == 0 {
		p.finRcvd = true
		s.k.wake(p, "fin")
	} else {
		p.inflight = append(p.inflight, segment{fin: true})
		s.k.kick()
	}
}

// CloseEnd closes the endpoint: unread input turns the close into a reset.
func (s *Sock) CloseEnd() {
	if s.closed {
		return
	}
	s.closed = true
	k := s.k
	simrt.Ev("close-sock", int64(s.ID))
	switch {
	case s.state == stListening:
		s.closed = false
		s.CloseListener()
		return
	case s.Typ == UDP:
		if s.Local != nil && k.dgramByAddr[s.Local.key()] == s {
			delete(k.dgramByAddr, s.Local.key())
		}
		return
	}
	p := s.peer
	if p == nil || p.closed {
		return
	}
	if len(s.rq) > 0 || s.InFlight() > 0 {
		p.reset()
		return
	}
	if !s.wshut {
		s.wshut = true
		s.sendFin()
	}
	if s.Typ == UNIX {
		// unix_release_sock: the survivor's sk_shutdown becomes SHUTDOWN_MASK and its
		// sk_state_change runs, also when a FIN had been sent before (found by the
		// conformance suite: EPOLLHUP comes with the peer's close, not only with a reset).
		// It takes effect behind whatever the model still has in flight towards the survivor.
		if len(p.inflight) == 0 {
			p.peerGone = true
			k.wake(p, "hup")
		} else if last := &p.inflight[len(p.inflight)-1]; last.fin {
			last.gone = true
		} else {
			p.inflight = append(p.inflight, segment{gone: true})
			k.kick()
		}
	}
}

// Reset aborts the connection (SO_LINGER 0 style).
func (s *Sock) Reset() {
	if s.closed {
		return
	}
	s.closed = true
	simrt.Ev("abort-sock", int64(s.ID))
	if p := s.peer; p != nil && !p.closed {
		p.reset()
	}
}

// ---------------------------------------------------------------------------------------
// background work: in-flight delivery, owed wake-ups, connect completion

func (k *Kernel) pendingWork() bool {
	for _, s := range k.socks {
		if s.closed && !s.connOwed {
			continue
		}
		if len(s.inflight) > 0 || s.owed || s.connOwed {
			return true
		}
	}
	return false
}

// kick makes sure the background goroutine exists.
func (k *Kernel) kick() {
	if k.daemon || simrt.S == nil {
		return
	}
	k.daemon = true
	simrt.Spawn("kernel-net", func() {
		simrt.MarkDaemon()
		for {
			simrt.WaitUntil("net-idle", k.pendingWork)
			k.step()
		}
	})
}

// step performs one unit of background work chosen by the PRNG.
func (k *Kernel) step() {
	simrt.NoteProgress()
	var cand []*Sock
	for _, s := range k.socks {
		if s.closed && !s.connOwed {
			continue
		}
		if len(s.inflight) > 0 || s.owed || s.connOwed {
			cand = append(cand, s)
		}
	}
	if len(cand) == 0 {
		return
	}
	s := cand[simrt.Intn(len(cand))]
	switch {
	case s.connOwed:
		k.completeConnect(s)
	case len(s.inflight) > 0:
		sg := s.inflight[0]
		if sg.fin || sg.gone {
			s.inflight = s.inflight[1:]
			if sg.fin {
				s.finRcvd = true
			}
			if sg.gone {
				s.peerGone = true
			}
			simrt.Ev("fin-arrives", int64(s.ID))
			k.wake(s, "fin")
			return
		}
		n := len(sg.data)
		if n > 1 && !k.Fair && simrt.Chance(0.3) {
			n = 1 + simrt.Intn(n-1) // a segment may be split
		}
		s.rq = append(s.rq, sg.data[:n]...)
		if n == len(sg.data) {
			s.inflight = s.inflight[1:]
		} else {
			s.inflight[0].data = sg.data[n:]
		}
		simrt.Ev("arrive", int64(s.ID), int64(n))
		k.wake(s, "data")
	case s.owed:
		s.owed = false
		if s.Space() >= s.lowat {
			s.nospace = false
			simrt.Ev("wspace-owed", int64(s.ID))
			k.wake(s, "wspace")
		}
	}
}

// ---------------------------------------------------------------------------------------
// epoll

// EpollCreate creates an epoll instance.
func (k *Kernel) EpollCreate() (int, error) {
	simrt.Yield()
	ep := &Epoll{k: k}
	fd, e := k.allocFD(&file{kind: kindEpoll, ep: ep})
	if e != 0 {
		return -1, e
	}
	simrt.Ev("epoll_create", int64(fd))
	return fd, nil
}

// EventFD creates an eventfd.
func (k *Kernel) EventFD() (int, error) {
	simrt.Yield()
	fd, e := k.allocFD(&file{kind: kindEvent, ev: &eventFD{}})
	if e != 0 {
		return -1, e
	}
	simrt.Ev("eventfd", int64(fd))
	return fd, nil
}

func (f *file) level() uint32 {
	switch f.kind {
	case kindSock:
		return f.sock.level()
	case kindEvent:
		var ev uint32 = EPOLLOUT
		if f.ev.count > 0 {
			ev |= EPOLLIN
		}
		return ev
	}
	return 0
}

// EpollCtl implements EPOLL_CTL_ADD(1) / DEL(2) / MOD(3).
func (k *Kernel) EpollCtl(epfd, op, fd int, events uint32, data int32, pad ...int32) error {
	simrt.Yield()
	ef := k.file(epfd, "epoll_ctl")
	if ef == nil || ef.kind != kindEpoll {
		return std.EBADF
	}
	tf := k.file(fd, "epoll_ctl.target")
	if tf == nil {
		return std.EBADF
	}
	ep := ef.ep
	var cur *epItem
	for _, it := range ep.items {
		if it.fd == fd && it.f == tf {
			cur = it
		}
	}
	simrt.Ev("epoll_ctl", int64(epfd), int64(op), int64(fd), int64(events))
	switch op {
	case 1: // ADD
		if cur != nil {
			return std.EEXIST
		}
		if tf.kind == kindSock {
			k.addCount++
			if k.P.EpollAddFail > 0 && k.addCount == k.P.EpollAddFail && !k.Fair {
				k.stat("epoll_add_ENOMEM")
				return std.ENOMEM
			}
		}
		it := &epItem{ep: ep, fd: fd, f: tf, events: events, data: data, edge: true}
		if len(pad) > 0 {
			it.pad = pad[0]
		}
		ep.items = append(ep.items, it)
		switch tf.kind {
		case kindSock:
			tf.sock.watch = append(tf.sock.watch, it)
		case kindEvent:
			tf.ev.watch = append(tf.ev.watch, it)
		}
	case 2: // DEL
		if cur == nil {
			return std.ENOENT
		}
		for i, x := range ep.items {
			if x == cur {
				ep.items = append(ep.items[:i], ep.items[i+1:]...)
				break
			}
		}
		cur.ep = nil
		k.dropWatch(cur)
	case 3: // MOD
		if cur == nil {
			return std.ENOENT
		}
		cur.events = events
		cur.data = data
		cur.pad = 0
		if len(pad) > 0 {
			cur.pad = pad[0]
		}
		cur.disabled = false
		cur.edge = true // the current level is reported at the next wait
	default:
		return std.EINVAL
	}
	return nil
}

// Armed returns the event mask registered for fd in epfd (0, false if not registered or disabled).
func (k *Kernel) Armed(epfd, fd int) (uint32, bool) {
	ef := k.fds[epfd]
	if ef == nil || ef.kind != kindEpoll {
		return 0, false
	}
	for _, it := range ef.ep.items {
		if it.fd == fd {
			if it.disabled {
				return it.events, false
			}
			return it.events, true
		}
	}
	return 0, false
}

// PendingEvents returns what an epoll_wait on epfd would report for fd right now.
func (k *Kernel) PendingEvents(epfd, fd int) uint32 {
	ef := k.fds[epfd]
	if ef == nil || ef.kind != kindEpoll {
		return 0
	}
	for _, it := range ef.ep.items {
		if it.fd == fd {
			return it.ready()
		}
	}
	return 0
}

// WaitersOf is a debugging aid: the registrations of a socket.
func (s *Sock) Watchers() int { return len(s.watch) }

// poll evaluates the item like the kernel's f_op->poll does when it scans the ready list.
// Polling a socket for EPOLLOUT while it is not writable sets SOCK_NOSPACE, which is what
// guarantees a later write-space wake-up (tcp_poll / unix_poll do exactly this).
func (it *epItem) poll(sideEffects bool) uint32 {
	if it.disabled {
		return 0
	}
	lvl := it.f.level()
	if sideEffects && it.f.kind == kindSock && it.events&EPOLLOUT != 0 && lvl&EPOLLOUT == 0 {
		if s := it.f.sock; s.state == stEstablished && !s.wshut && !s.rst {
			s.nospace = true
		}
	}
	return lvl & (it.events&(EPOLLIN|EPOLLPRI|EPOLLOUT|EPOLLRDHUP) | EPOLLERR | EPOLLHUP)
}

// ready: the item is on the ready list (a wake-up happened, or ADD/MOD queued it, or it is
// level-triggered and was still ready at the last scan) and its poll result is non-empty.
func (it *epItem) ready() uint32 {
	if !it.edge {
		return 0
	}
	return it.poll(false)
}

func (ep *Epoll) anyReady() bool {
	for _, it := range ep.items {
		if it.ready() != 0 {
			return true
		}
	}
	return false
}

// Event is one reported epoll event.
type Event struct {
	Events uint32
	Fd     int32
	Pad    int32
}

// EpollWait blocks until events are available (msec<0), polls (msec==0).
func (k *Kernel) EpollWait(epfd int, max int, msec int) ([]Event, error) {
	simrt.Yield()
	ef := k.file(epfd, "epoll_wait")
	if ef == nil || ef.kind != kindEpoll {
		return nil, std.EBADF
	}
	ep := ef.ep
	ep.Waits++
	k.NWait++
	if k.chance(k.P.EINTRWait) {
		k.stat("epoll_wait_EINTR")
		return nil, std.EINTR
	}
	if !ep.anyReady() {
		if msec == 0 {
			return nil, nil
		}
		if msec > 0 {
			// nbio never uses a timeout on Linux; treat as a poll after yielding
			simrt.Yield()
			if !ep.anyReady() {
				return nil, nil
			}
		} else {
			simrt.WaitUntil("epoll_wait", func() bool { return ep.anyReady() || k.fds[epfd] != ef })
			if k.fds[epfd] != ef {
				return nil, std.EBADF
			}
		}
	}
	var ready []*epItem
	for _, it := range ep.items {
		if !it.edge {
			continue
		}
		if it.poll(true) != 0 {
			ready = append(ready, it)
		} else {
			it.edge = false // scanned and found not ready: leaves the ready list
		}
	}
	if len(ready) > 1 && !k.Fair {
		// the order in which the ready list was filled is not under the caller's control
		r := simrt.Intn(len(ready))
		ready = append(ready[r:], ready[:r]...)
		if k.chance(k.P.WaitSubset) {
			ready = ready[:1+simrt.Intn(len(ready)-1)]
			k.stat("epoll_wait_subset")
		}
	}
	if len(ready) > max {
		ready = ready[:max]
	}
	out := make([]Event, 0, len(ready))
	for _, it := range ready {
		ev := it.poll(true)
		out = append(out, Event{Events: ev, Fd: it.data, Pad: it.pad})
		if it.events&EPOLLET != 0 {
			it.edge = false
		}
		if it.events&EPOLLONESHOT != 0 {
			it.disabled = true
		}
		simrt.Ev("epoll_event", int64(it.fd), int64(ev))
	}
	return out, nil
}

// ---------------------------------------------------------------------------------------
// descriptor level I/O (used by the syscall shim)

// Read is read(2) on a simulated descriptor.
func (k *Kernel) Read(fd int, b []byte) (int, error) {
	simrt.Yield()
	k.NRead++
	f := k.file(fd, "read")
	if f == nil {
		return -1, std.EBADF
	}
	switch f.kind {
	case kindSock:
		if f.sock.Typ == UDP {
			n, _, e := f.sock.recvDgram(b)
			if e != 0 {
				return -1, e
			}
			return n, nil
		}
		n, e := f.sock.recv(b, true)
		simrt.Ev("read", int64(fd), int64(n), int64(e))
		if e != 0 {
			return -1, e
		}
		return n, nil
	case kindEvent:
		if f.ev.count == 0 {
			return -1, std.EAGAIN
		}
		if len(b) < 8 {
			return -1, std.EINVAL
		}
		for i := 0; i < 8; i++ {
			b[i] = byte(f.ev.count >> (8 * i))
		}
		f.ev.count = 0
		return 8, nil
	}
	return -1, std.EINVAL
}

// WriteOpts controls fault injection for one write call.
type WriteOpts struct{ AllowEINTR bool }

// Write is write(2) on a simulated descriptor.
func (k *Kernel) Write(fd int, b []byte) (int, error) {
	simrt.Yield()
	k.NWrite++
	f := k.file(fd, "write")
	if f == nil {
		return -1, std.EBADF
	}
	switch f.kind {
	case kindSock:
		s := f.sock
		if s.Typ == UDP {
			if s.Remote == nil {
				return -1, std.EDESTADDRREQ
			}
			return k.sendDgram(s, b, s.Remote)
		}
		if len(b) > 0 && s.state == stEstablished && !s.rst && k.chance(k.P.EINTRWrite) {
			k.stat("write_EINTR")
			simrt.Ev("write", int64(fd), -1, int64(std.EINTR))
			return -1, std.EINTR
		}
		n, e := s.send(b, true)
		simrt.Ev("write", int64(fd), int64(n), int64(e))
		if k.OnWrote != nil {
			if e != 0 {
				k.OnWrote(fd, len(b), -1)
			} else {
				k.OnWrote(fd, len(b), n)
			}
		}
		if e != 0 {
			return -1, e
		}
		return n, nil
	case kindEvent:
		if len(b) < 8 {
			return -1, std.EINVAL
		}
		var v uint64
		for i := 0; i < 8; i++ {
			v |= uint64(b[i]) << (8 * i)
		}
		f.ev.count += v
		for _, it := range f.ev.watch {
			it.edge = true
		}
		simrt.Ev("eventfd_write", int64(fd))
		return 8, nil
	}
	return -1, std.EINVAL
}

// Writev is writev(2): one atomic gather write.
func (k *Kernel) Writev(fd int, bs [][]byte) (int, error) {
	total := 0
	for _, b := range bs {
		total += len(b)
	}
	flat := make([]byte, 0, total)
	for _, b := range bs {
		flat = append(flat, b...)
	}
	return k.Write(fd, flat)
}

// ---------------------------------------------------------------------------------------
// datagrams

// BindDgram binds a datagram socket.
func (k *Kernel) BindDgram(s *Sock, a *Addr) std.Errno {
	if a.Port == 0 {
		k.nextPort++
		a.Port = k.nextPort
	}
	if _, ok := k.dgramByAddr[a.key()]; ok {
		return std.EADDRINUSE
	}
	s.Local = a
	k.dgramByAddr[a.key()] = s
	return 0
}

func (k *Kernel) sendDgram(s *Sock, b []byte, to *Addr) (int, error) {
	if s.Local == nil {
		k.BindDgram(s, k.ephemeral("udp"))
	}
	dst := k.dgramByAddr[to.key()]
	s.BytesIn += int64(len(b))
	simrt.Ev("sendto", int64(s.ID), int64(len(b)))
	if dst == nil || dst.closed {
		k.stat("dgram_no_receiver")
		return len(b), nil
	}
	if len(dst.dq) >= k.P.DgramQueue {
		k.stat("dgram_dropped_queue_full")
		return len(b), nil
	}
	simrt.NoteProgress()
	dst.dq = append(dst.dq, dgram{data: append([]byte(nil), b...), from: s.Local})
	dst.Enqueued++
	k.wake(dst, "dgram")
	return len(b), nil
}

func (s *Sock) recvDgram(b []byte) (int, *Addr, std.Errno) {
	if s.closed {
		return 0, nil, std.EBADF
	}
	if len(s.dq) == 0 {
		return 0, nil, std.EAGAIN
	}
	if s.k.chance(s.k.P.EINTRRead) {
		s.k.stat("read_EINTR")
		return 0, nil, std.EINTR
	}
	simrt.NoteProgress()
	d := s.dq[0]
	s.dq = s.dq[1:]
	n := copy(b, d.data)
	if n < len(d.data) {
		s.k.stat("dgram_truncated")
	}
	simrt.Ev("recvfrom", int64(s.ID), int64(n))
	return n, d.from, 0
}
