// Package net: std net whose listeners, dialers and concrete connection types live in the
// simulated kernel. Interface and address types are aliases of the std ones, so values flow
// freely between transformed nbio code and untransformed libraries (net/http, llib tls).
package net

import (
	"context"
	"errors"
	"io"
	std "net"
	"os"
	"strconv"
	stdsyscall "syscall"
	"time"

	"verif/sim/kernel"
	simrt "verif/sim/rt"
)

func toKAddr(netw string, a std.Addr) *kernel.Addr {
	switch v := a.(type) {
	case *std.TCPAddr:
		return &kernel.Addr{Net: "tcp", IP: ip4(v.IP), Port: v.Port}
	case *std.UDPAddr:
		return &kernel.Addr{Net: "udp", IP: ip4(v.IP), Port: v.Port}
	case *std.UnixAddr:
		return &kernel.Addr{Net: "unix", Name: v.Name}
	}
	return nil
}

func ip4(ip std.IP) [4]byte {
	v := ip.To4()
	if v == nil || v.IsUnspecified() {
		return [4]byte{127, 0, 0, 1}
	}
	return [4]byte{v[0], v[1], v[2], v[3]}
}

func fromKAddr(a *kernel.Addr) std.Addr {
	if a == nil {
		return nil
	}
	switch a.Net {
	case "unix":
		return &std.UnixAddr{Net: "unix", Name: a.Name}
	case "udp":
		return &std.UDPAddr{IP: std.IPv4(a.IP[0], a.IP[1], a.IP[2], a.IP[3]).To4(), Port: a.Port}
	}
	return &std.TCPAddr{IP: std.IPv4(a.IP[0], a.IP[1], a.IP[2], a.IP[3]).To4(), Port: a.Port}
}

func parse(network, address string) (*kernel.Addr, error) {
	switch network {
	case "unix", "unixpacket":
		return &kernel.Addr{Net: "unix", Name: address}, nil
	case "tcp", "tcp4", "tcp6", "udp", "udp4", "udp6":
		host, port, err := std.SplitHostPort(address)
		if err != nil {
			return nil, &std.OpError{Op: "dial", Net: network, Err: err}
		}
		p, err := strconv.Atoi(port)
		if err != nil {
			return nil, &std.OpError{Op: "dial", Net: network, Err: err}
		}
		ip := [4]byte{127, 0, 0, 1}
		if x := std.ParseIP(host); x != nil {
			ip = ip4(x)
		}
		n := "tcp"
		if network[0] == 'u' {
			n = "udp"
		}
		return &kernel.Addr{Net: n, IP: ip, Port: p}, nil
	}
	return nil, std.UnknownNetworkError(network)
}

// ---------------------------------------------------------------------------------------
// connections

type conn struct {
	fd     int
	s      *kernel.Sock
	closed bool
	rdl    time.Time
	wdl    time.Time
	// Like net.netFD (fdMutex): Close marks the connection closed at once, but the
	// descriptor itself is released only when the operations that are in flight have
	// returned, so an operation can never act on a descriptor number that was reused.
	inflight     int
	closePending bool
}

// SimSock returns the kernel endpoint behind the connection (harnesses use it to reset a
// connection underneath a protocol layer).
func (c *conn) SimSock() *kernel.Sock { return c.s }

func (c *conn) enter() { c.inflight++ }

func (c *conn) leave() {
	c.inflight--
	if c.inflight == 0 && c.closePending {
		c.closePending = false
		kernel.K().Close(c.fd)
	}
}

type rawConn struct{ c *conn }

func (r rawConn) Control(f func(fd uintptr)) error {
	if r.c.closed {
		return std.ErrClosed
	}
	r.c.enter()
	defer r.c.leave()
	f(uintptr(r.c.fd))
	return nil
}
func (r rawConn) Read(f func(fd uintptr) bool) error  { return errors.New("not supported") }
func (r rawConn) Write(f func(fd uintptr) bool) error { return errors.New("not supported") }

func (c *conn) SyscallConn() (stdsyscall.RawConn, error) {
	if c.closed {
		return nil, std.ErrClosed
	}
	return rawConn{c}, nil
}

func opErr(op string, err error) error {
	return &std.OpError{Op: op, Net: "tcp", Err: err}
}

func waitDeadline(reason string, dl time.Time, cond func() bool) {
	if dl.IsZero() {
		simrt.WaitUntil(reason, cond)
		return
	}
	d := time.Until(dl)
	if d <= 0 {
		return
	}
	h := simrt.AfterFunc(d, "net-deadline", func() {})
	simrt.WaitUntil(reason, func() bool { return cond() || !time.Now().Before(dl) })
	h.Stop()
}

func (c *conn) Read(b []byte) (int, error) {
	c.enter()
	defer c.leave()
	for {
		if c.closed || !simrt.Active() {
			return 0, opErr("read", std.ErrClosed)
		}
		simrt.Yield()
		if c.closed {
			return 0, opErr("read", std.ErrClosed)
		}
		n, err := kernel.K().Read(c.fd, b)
		if err == nil {
			if n == 0 && len(b) > 0 {
				return 0, io.EOF
			}
			return n, nil
		}
		if err == stdsyscall.EINTR {
			continue
		}
		if err != stdsyscall.EAGAIN {
			return 0, opErr("read", err)
		}
		if !c.rdl.IsZero() && !time.Now().Before(c.rdl) {
			return 0, opErr("read", os.ErrDeadlineExceeded)
		}
		s := c.s
		waitDeadline("net.Read", c.rdl, func() bool { return c.closed || s.Readable() > 0 || s.EOF() || s.WasReset() })
	}
}

func (c *conn) Write(b []byte) (int, error) {
	c.enter()
	defer c.leave()
	total := 0
	for len(b) > 0 {
		if c.closed || !simrt.Active() {
			// (a run that is being torn down unwinds its goroutines: nothing blocks any more)
			return total, opErr("write", std.ErrClosed)
		}
		simrt.Yield()
		if c.closed {
			return total, opErr("write", std.ErrClosed)
		}
		n, err := kernel.K().Write(c.fd, b)
		if err == nil {
			total += n
			b = b[n:]
			continue
		}
		if err == stdsyscall.EINTR {
			continue
		}
		if err != stdsyscall.EAGAIN {
			return total, opErr("write", err)
		}
		if !c.wdl.IsZero() && !time.Now().Before(c.wdl) {
			return total, opErr("write", os.ErrDeadlineExceeded)
		}
		s := c.s
		waitDeadline("net.Write", c.wdl, func() bool { return c.closed || s.Space() > 0 || s.WasReset() || !s.Established() })
	}
	return total, nil
}

func (c *conn) Close() error {
	if c.closed {
		return opErr("close", std.ErrClosed)
	}
	c.closed = true
	if c.inflight > 0 {
		c.closePending = true
		return nil
	}
	return kernel.K().Close(c.fd)
}

func (c *conn) LocalAddr() std.Addr {
	if c.s.Local == nil {
		return nil
	}
	return fromKAddr(c.s.Local)
}

func (c *conn) RemoteAddr() std.Addr {
	if c.s.Remote == nil {
		return nil
	}
	return fromKAddr(c.s.Remote)
}

func (c *conn) SetDeadline(t time.Time) error      { c.rdl, c.wdl = t, t; return nil }
func (c *conn) SetReadDeadline(t time.Time) error  { c.rdl = t; return nil }
func (c *conn) SetWriteDeadline(t time.Time) error { c.wdl = t; return nil }
func (c *conn) SetReadBuffer(int) error            { return nil }
func (c *conn) SetWriteBuffer(int) error           { return nil }
func (c *conn) File() (*os.File, error)            { return nil, errors.New("sim net: File not supported") }

// TCPConn mirrors net.TCPConn.
type TCPConn struct{ conn }

func (c *TCPConn) SetNoDelay(bool) error                { return nil }
func (c *TCPConn) SetKeepAlive(bool) error              { return nil }
func (c *TCPConn) SetKeepAlivePeriod(time.Duration) error { return nil }
func (c *TCPConn) SetLinger(int) error                  { return nil }
func (c *TCPConn) CloseRead() error                     { return nil }
func (c *TCPConn) CloseWrite() error                    { c.s.ShutdownWrite(); return nil }
func (c *TCPConn) ReadFrom(r io.Reader) (int64, error)  { return io.Copy(struct{ io.Writer }{c}, r) }

// UnixConn mirrors net.UnixConn.
type UnixConn struct{ conn }

func (c *UnixConn) CloseRead() error  { return nil }
func (c *UnixConn) CloseWrite() error { c.s.ShutdownWrite(); return nil }

// UDPConn mirrors net.UDPConn.
type UDPConn struct{ conn }

func (c *UDPConn) ReadFromUDP(b []byte) (int, *std.UDPAddr, error) {
	for {
		if c.closed {
			return 0, nil, opErr("read", std.ErrClosed)
		}
		n, from, err := kernel.K().Recvfrom(c.fd, b)
		if err == nil {
			a, _ := fromKAddr(from).(*std.UDPAddr)
			return n, a, nil
		}
		if err == stdsyscall.EINTR {
			continue
		}
		if err != stdsyscall.EAGAIN {
			return 0, nil, opErr("read", err)
		}
		s := c.s
		waitDeadline("udp.Read", c.rdl, func() bool { return c.closed || s.DgramQueued() > 0 })
		if !c.rdl.IsZero() && !time.Now().Before(c.rdl) {
			return 0, nil, opErr("read", os.ErrDeadlineExceeded)
		}
	}
}

func (c *UDPConn) ReadFrom(b []byte) (int, std.Addr, error) {
	n, a, err := c.ReadFromUDP(b)
	if a == nil {
		return n, nil, err
	}
	return n, a, err
}

func (c *UDPConn) Read(b []byte) (int, error) {
	n, _, err := c.ReadFromUDP(b)
	return n, err
}

func (c *UDPConn) WriteToUDP(b []byte, addr *std.UDPAddr) (int, error) {
	if c.closed {
		return 0, opErr("write", std.ErrClosed)
	}
	if err := kernel.K().Sendto(c.fd, b, toKAddr("udp", addr)); err != nil {
		return 0, opErr("write", err)
	}
	return len(b), nil
}

func (c *UDPConn) WriteTo(b []byte, addr std.Addr) (int, error) {
	ua, ok := addr.(*std.UDPAddr)
	if !ok {
		return 0, opErr("write", stdsyscall.EINVAL)
	}
	return c.WriteToUDP(b, ua)
}

func (c *UDPConn) Write(b []byte) (int, error) {
	if c.closed {
		return 0, opErr("write", std.ErrClosed)
	}
	n, err := kernel.K().Write(c.fd, b)
	if err != nil {
		return 0, opErr("write", err)
	}
	return n, nil
}

// ---------------------------------------------------------------------------------------
// listeners

type listener struct {
	ln     *kernel.Sock
	closed bool
	unix   bool
}

func (l *listener) accept() (*kernel.Sock, int, error) {
	for {
		simrt.Yield() // a caller spinning on a closed listener must still hit the step budget
		if l.closed {
			return nil, 0, opErr("accept", std.ErrClosed)
		}
		ln := l.ln
		simrt.WaitUntil("accept", func() bool { return l.closed || ln.AcceptReady() })
		if l.closed {
			return nil, 0, opErr("accept", std.ErrClosed)
		}
		c := ln.Accept()
		if c == nil {
			if ln.Closed() {
				return nil, 0, opErr("accept", std.ErrClosed)
			}
			continue
		}
		fd, err := kernel.K().FDFor(c)
		if err != nil {
			c.CloseEnd()
			return nil, 0, opErr("accept", err)
		}
		return c, fd, nil
	}
}

func (l *listener) Close() error {
	if l.closed {
		return opErr("close", std.ErrClosed)
	}
	l.closed = true
	simrt.Yield()
	l.ln.CloseListener()
	return nil
}

func (l *listener) Addr() std.Addr { return fromKAddr(l.ln.Local) }

// TCPListener mirrors net.TCPListener.
type TCPListener struct{ listener }

func (l *TCPListener) Accept() (std.Conn, error) {
	s, fd, err := l.accept()
	if err != nil {
		return nil, err
	}
	return &TCPConn{conn{fd: fd, s: s}}, nil
}

func (l *TCPListener) AcceptTCP() (*TCPConn, error) {
	c, err := l.Accept()
	if err != nil {
		return nil, err
	}
	return c.(*TCPConn), nil
}

// UnixListener mirrors net.UnixListener.
type UnixListener struct{ listener }

func (l *UnixListener) Accept() (std.Conn, error) {
	s, fd, err := l.accept()
	if err != nil {
		return nil, err
	}
	return &UnixConn{conn{fd: fd, s: s}}, nil
}

// Listen creates a listener in the simulated kernel.
func Listen(network, address string) (std.Listener, error) {
	if simrt.S == nil {
		return std.Listen(network, address)
	}
	a, err := parse(network, address)
	if err != nil {
		return nil, err
	}
	if a.Net == "udp" {
		return nil, std.UnknownNetworkError(network)
	}
	ln, err := kernel.K().Listen(a)
	if err != nil {
		return nil, &std.OpError{Op: "listen", Net: network, Err: err}
	}
	if a.Net == "unix" {
		return &UnixListener{listener{ln: ln, unix: true}}, nil
	}
	return &TCPListener{listener{ln: ln}}, nil
}

// ListenTCP mirrors net.ListenTCP.
func ListenTCP(network string, laddr *std.TCPAddr) (*TCPListener, error) {
	l, err := Listen(network, laddr.String())
	if err != nil {
		return nil, err
	}
	return l.(*TCPListener), nil
}

// ListenUDP creates a bound datagram socket.
func ListenUDP(network string, laddr *std.UDPAddr) (*UDPConn, error) {
	k := kernel.K()
	fd, err := k.Socket(kernel.UDP)
	if err != nil {
		return nil, &std.OpError{Op: "listen", Net: network, Err: err}
	}
	s := k.SockOf(fd)
	a := &kernel.Addr{Net: "udp", IP: [4]byte{127, 0, 0, 1}}
	if laddr != nil {
		a = toKAddr("udp", laddr)
	}
	if e := k.BindDgram(s, a); e != 0 {
		k.Close(fd)
		return nil, &std.OpError{Op: "listen", Net: network, Err: e}
	}
	return &UDPConn{conn{fd: fd, s: s}}, nil
}

// ---------------------------------------------------------------------------------------
// dialing

func dial(network, address string, timeout time.Duration) (std.Conn, error) {
	a, err := parse(network, address)
	if err != nil {
		return nil, err
	}
	k := kernel.K()
	switch a.Net {
	case "udp":
		fd, err := k.Socket(kernel.UDP)
		if err != nil {
			return nil, &std.OpError{Op: "dial", Net: network, Err: err}
		}
		k.Connect(fd, a)
		return &UDPConn{conn{fd: fd, s: k.SockOf(fd)}}, nil
	}
	typ := kernel.TCP
	if a.Net == "unix" {
		typ = kernel.UNIX
	}
	if k.Blackhole[a.Net+"|"+a.String()] {
		if timeout > 0 {
			simrt.Sleep(timeout)
			return nil, &std.OpError{Op: "dial", Net: network, Err: os.ErrDeadlineExceeded}
		}
		simrt.WaitUntil("dial-blackhole", func() bool { return false })
	}
	s := k.NewPeer(typ)
	if err := k.ConnectPeer(s, a); err != nil {
		return nil, &std.OpError{Op: "dial", Net: network, Err: err}
	}
	fd, err := k.FDFor(s)
	if err != nil {
		s.CloseEnd()
		return nil, &std.OpError{Op: "dial", Net: network, Err: err}
	}
	if typ == kernel.UNIX {
		return &UnixConn{conn{fd: fd, s: s}}, nil
	}
	return &TCPConn{conn{fd: fd, s: s}}, nil
}

func Dial(network, address string) (std.Conn, error) {
	if simrt.S == nil {
		return std.Dial(network, address)
	}
	return dial(network, address, 0)
}

func DialTimeout(network, address string, timeout time.Duration) (std.Conn, error) {
	if simrt.S == nil {
		return std.DialTimeout(network, address, timeout)
	}
	return dial(network, address, timeout)
}

// Dialer mirrors the commonly used part of net.Dialer.
type Dialer struct {
	Timeout   time.Duration
	Deadline  time.Time
	LocalAddr std.Addr
	KeepAlive time.Duration
}

func (d *Dialer) Dial(network, address string) (std.Conn, error) {
	return DialTimeout(network, address, d.Timeout)
}

func (d *Dialer) DialContext(ctx context.Context, network, address string) (std.Conn, error) {
	return DialTimeout(network, address, d.Timeout)
}
