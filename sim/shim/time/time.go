// Package time: std time with timers, tickers and Sleep routed through the simulated
// scheduler. Now/Since/Until read the synctest bubble's fake clock, which the scheduler
// advances deliberately.
package time

import (
	std "time"

	simrt "verif/sim/rt"
)

// Timer mirrors time.Timer.
type Timer struct {
	C <-chan Time
	h *simrt.TimerHandle
	r *std.Timer // outside simulated runs
}

func AfterFunc(d Duration, f func()) *Timer {
	if simrt.S == nil {
		return &Timer{r: std.AfterFunc(d, f)}
	}
	return &Timer{h: simrt.AfterFunc(d, "AfterFunc", f)}
}

func NewTimer(d Duration) *Timer {
	if simrt.S == nil {
		r := std.NewTimer(d)
		return &Timer{r: r, C: r.C}
	}
	ch := make(chan Time, 1)
	return &Timer{C: ch, h: simrt.NewChanTimer(d, ch)}
}

func (t *Timer) Stop() bool {
	if t.r != nil {
		return t.r.Stop()
	}
	if t.h == nil {
		panic("time: Stop called on uninitialized Timer")
	}
	return t.h.Stop()
}

func (t *Timer) Reset(d Duration) bool {
	if t.r != nil {
		return t.r.Reset(d)
	}
	if t.h == nil {
		panic("time: Reset called on uninitialized Timer")
	}
	return t.h.Reset(d)
}

// Pending and When are probes for oracles.
func (t *Timer) Pending() bool {
	return t != nil && t.h != nil && t.h.Pending()
}
func (t *Timer) When() Time { return t.h.When() }

func After(d Duration) <-chan Time { return NewTimer(d).C }

func Sleep(d Duration) { simrt.Sleep(d) }

// Ticker mirrors time.Ticker; implemented as a self re-arming channel timer.
type Ticker struct {
	C    <-chan Time
	ch   chan Time
	d    Duration
	h    *simrt.TimerHandle
	r    *std.Ticker
	stop bool
}

func NewTicker(d Duration) *Ticker {
	if d <= 0 {
		panic("non-positive interval for NewTicker")
	}
	if simrt.S == nil {
		r := std.NewTicker(d)
		return &Ticker{r: r, C: r.C}
	}
	t := &Ticker{d: d, ch: make(chan Time, 1)}
	t.C = t.ch
	t.arm()
	return t
}

func (t *Ticker) arm() {
	t.h = simrt.AfterFunc(t.d, "ticker", func() {
		if t.stop {
			return
		}
		select {
		case t.ch <- std.Now():
		default:
		}
		t.arm()
	})
}

func (t *Ticker) Stop() {
	if t.r != nil {
		t.r.Stop()
		return
	}
	t.stop = true
	if t.h != nil {
		t.h.Stop()
	}
}

func (t *Ticker) Reset(d Duration) {
	if t.r != nil {
		t.r.Reset(d)
		return
	}
	t.d = d
	if t.h != nil {
		t.h.Stop()
	}
	t.stop = false
	t.arm()
}

func Tick(d Duration) <-chan Time {
	if d <= 0 {
		return nil
	}
	return NewTicker(d).C
}
