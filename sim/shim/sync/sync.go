// Package sync is the cooperative re-implementation of the parts of package sync that
// nbio uses. All blocking goes through the simulated scheduler (verif/sim/rt).
package sync

import (
	"fmt"
	stdsync "sync"

	simrt "verif/sim/rt"
)

// Locker is the std interface.
type Locker = stdsync.Locker

// Misuse collects runtime-fatal misuses ("unlock of unlocked mutex", negative WaitGroup
// counter); in a real process these kill the program, here they panic in the offending
// simulated goroutine so the run is reported.
func fatal(msg string) { simrt.Fatal("fatal error: " + msg) }

// ------------------------------------------------------------------ Mutex

type Mutex struct {
	locked bool
	owner  int
	since  int
}

func (m *Mutex) Lock() {
	if !simrt.Active() {
		if m.locked && simrt.S == nil {
			panic("shim sync: Mutex.Lock would block outside a simulated run")
		}
		m.locked = true
		return
	}
	simrt.Yield()
	if m.locked {
		if m.owner == simrt.CurID() && simrt.CurID() >= 0 {
			// sync.Mutex is not re-entrant: this goroutine would block for ever
			simrt.Fatal(fmt.Sprintf("deadlock: sync.Mutex locked again by the goroutine that holds it (g%d, held since step %d)", m.owner, m.since))
		}
		simrt.WaitUntil(fmt.Sprintf("mutex (held by g%d since step %d)", m.owner, m.since), func() bool { return !m.locked })
	}
	m.locked = true
	m.owner = simrt.CurID()
	m.since = simrt.Steps()
}

func (m *Mutex) TryLock() bool {
	simrt.Yield()
	if m.locked {
		return false
	}
	m.locked = true
	m.owner = simrt.CurID()
	return true
}

func (m *Mutex) Unlock() {
	if !m.locked {
		if simrt.S != nil && !simrt.Active() {
			return // unwinding
		}
		fatal("sync: unlock of unlocked mutex")
	}
	m.locked = false
	// A scheduling point right after the release: what a goroutine does between giving up
	// the lock and its next synchronisation (a store that should have been under the lock)
	// is visible to the goroutine that takes the lock next.
	if simrt.Active() {
		simrt.Yield()
	}
}

// Locked is a probe for oracles.
func (m *Mutex) Locked() bool { return m.locked }

// ------------------------------------------------------------------ RWMutex

type RWMutex struct {
	w       bool
	readers int
}

func (m *RWMutex) Lock() {
	if !simrt.Active() {
		m.w = true
		return
	}
	simrt.Yield()
	if m.w || m.readers > 0 {
		simrt.WaitUntil("rwmutex.w", func() bool { return !m.w && m.readers == 0 })
	}
	m.w = true
}

func (m *RWMutex) Unlock() {
	if !m.w {
		if simrt.S != nil && !simrt.Active() {
			return
		}
		fatal("sync: Unlock of unlocked RWMutex")
	}
	m.w = false
	if simrt.Active() {
		simrt.Yield()
	}
}

func (m *RWMutex) RLock() {
	if !simrt.Active() {
		m.readers++
		return
	}
	simrt.Yield()
	if m.w {
		simrt.WaitUntil("rwmutex.r", func() bool { return !m.w })
	}
	m.readers++
}

func (m *RWMutex) RUnlock() {
	if m.readers <= 0 {
		if simrt.S != nil && !simrt.Active() {
			return
		}
		fatal("sync: RUnlock of unlocked RWMutex")
	}
	m.readers--
}

func (m *RWMutex) TryLock() bool {
	simrt.Yield()
	if m.w || m.readers > 0 {
		return false
	}
	m.w = true
	return true
}

func (m *RWMutex) TryRLock() bool {
	simrt.Yield()
	if m.w {
		return false
	}
	m.readers++
	return true
}

type rlocker RWMutex

func (r *rlocker) Lock()   { (*RWMutex)(r).RLock() }
func (r *rlocker) Unlock() { (*RWMutex)(r).RUnlock() }

func (m *RWMutex) RLocker() Locker { return (*rlocker)(m) }

// ------------------------------------------------------------------ WaitGroup

type WaitGroup struct {
	n       int
	waiters int
}

func (wg *WaitGroup) Add(delta int) {
	simrt.Yield()
	wg.n += delta
	if wg.n < 0 {
		if simrt.S != nil && !simrt.Active() {
			wg.n = 0
			return
		}
		fatal("sync: negative WaitGroup counter")
	}
}

func (wg *WaitGroup) Done() { wg.Add(-1) }

func (wg *WaitGroup) Wait() {
	if !simrt.Active() {
		if wg.n > 0 && simrt.S == nil {
			panic("shim sync: WaitGroup.Wait would block outside a simulated run")
		}
		return
	}
	simrt.Yield()
	if wg.n > 0 {
		wg.waiters++
		simrt.WaitUntil("waitgroup", func() bool { return wg.n <= 0 })
		wg.waiters--
	}
}

func (wg *WaitGroup) Go(f func()) {
	wg.Add(1)
	simrt.Go(func() {
		defer wg.Done()
		f()
	})
}

// Count is a probe for oracles.
func (wg *WaitGroup) Count() int { return wg.n }

// ------------------------------------------------------------------ Once

type Once struct {
	done    bool
	running bool
	epoch   uint64
}

// Do runs f once per simulated run: a package-level Once (lazily initialised tables) would
// otherwise make the first run of a process that reaches it longer than the same run executed
// later, i.e. make a run depend on what the worker process ran before. Such initialisers are
// idempotent; a Once inside an object does not outlive its run anyway.
func (o *Once) Do(f func()) {
	if e := simrt.Epoch(); o.epoch != e {
		o.done, o.running, o.epoch = false, false, e
	}
	simrt.Yield()
	if o.done {
		return
	}
	if o.running {
		simrt.WaitUntil("once", func() bool { return o.done })
		return
	}
	o.running = true
	defer func() { o.done = true; o.running = false }()
	f()
}

// ------------------------------------------------------------------ Cond

type Cond struct {
	L      Locker
	gen    uint64
	tokens int
	wait   int
}

func NewCond(l Locker) *Cond { return &Cond{L: l} }

func (c *Cond) Wait() {
	c.wait++
	c.L.Unlock()
	simrt.WaitUntil("cond", func() bool { return c.tokens > 0 })
	c.tokens--
	c.wait--
	c.L.Lock()
}

func (c *Cond) Signal() {
	simrt.Yield()
	if c.wait > c.tokens {
		c.tokens++
	}
}

func (c *Cond) Broadcast() {
	simrt.Yield()
	c.tokens = c.wait
}

// ------------------------------------------------------------------ Pool

// PoolMode is the per-run policy of every simulated Pool: which previously Put item a
// Get returns is a freedom the real sync.Pool has and that tests never see.
//
//	0 LIFO, 1 FIFO, 2 random item, 3 mostly New, 4 random + random drops ("GC")
var PoolMode int

type Pool struct {
	New   func() interface{}
	items []interface{}
	epoch uint64
}

func (p *Pool) sync() {
	if e := simrt.Epoch(); p.epoch != e {
		p.items = nil
		p.epoch = e
	}
}

func (p *Pool) Get() interface{} {
	p.sync()
	simrt.Yield()
	n := len(p.items)
	if n > 0 {
		idx := -1
		switch PoolMode {
		case 0:
			idx = n - 1
		case 1:
			idx = 0
		case 2:
			idx = simrt.Intn(n)
		case 3:
			if simrt.Chance(0.25) {
				idx = simrt.Intn(n)
			}
		default:
			if simrt.Chance(0.1) {
				p.items = nil
			} else {
				idx = simrt.Intn(n)
			}
		}
		if idx >= 0 {
			x := p.items[idx]
			p.items = append(p.items[:idx], p.items[idx+1:]...)
			return x
		}
	}
	if p.New != nil {
		return p.New()
	}
	return nil
}

func (p *Pool) Put(x interface{}) {
	if x == nil {
		return
	}
	p.sync()
	simrt.Yield()
	if len(p.items) < 256 {
		p.items = append(p.items, x)
	}
	// a scheduling point after the object has become visible to other goroutines (as after
	// Unlock): code that goes on using what it has just put back is only caught if somebody
	// else can take it now
	simrt.Yield()
}

// ------------------------------------------------------------------ Map (insertion ordered)

type Map struct {
	keys  []interface{}
	m     map[interface{}]interface{}
	epoch uint64
}

// sync empties a process-global Map at the start of every simulated run, so that a run
// behaves like a fresh process whatever ran before it in the same worker (a replay
// executes one run, a batch worker many).
func (m *Map) sync() {
	if e := simrt.Epoch(); m.epoch != e {
		m.m = nil
		m.keys = nil
		m.epoch = e
	}
}

func (m *Map) init() {
	if m.m == nil {
		m.m = map[interface{}]interface{}{}
	}
}

func (m *Map) Load(key interface{}) (interface{}, bool) {
	m.sync()
	simrt.Yield()
	v, ok := m.m[key]
	return v, ok
}

func (m *Map) Store(key, value interface{}) {
	m.sync()
	simrt.Yield()
	m.init()
	if _, ok := m.m[key]; !ok {
		m.keys = append(m.keys, key)
	}
	m.m[key] = value
}

func (m *Map) LoadOrStore(key, value interface{}) (interface{}, bool) {
	m.sync()
	simrt.Yield()
	m.init()
	if v, ok := m.m[key]; ok {
		return v, true
	}
	m.keys = append(m.keys, key)
	m.m[key] = value
	return value, false
}

func (m *Map) LoadAndDelete(key interface{}) (interface{}, bool) {
	m.sync()
	simrt.Yield()
	v, ok := m.m[key]
	if ok {
		m.del(key)
	}
	return v, ok
}

func (m *Map) del(key interface{}) {
	delete(m.m, key)
	for i, k := range m.keys {
		if k == key {
			m.keys = append(m.keys[:i], m.keys[i+1:]...)
			break
		}
	}
}

func (m *Map) Delete(key interface{}) {
	m.sync()
	simrt.Yield()
	if _, ok := m.m[key]; ok {
		m.del(key)
	}
}

func (m *Map) Swap(key, value interface{}) (interface{}, bool) {
	m.sync()
	simrt.Yield()
	m.init()
	old, ok := m.m[key]
	if !ok {
		m.keys = append(m.keys, key)
	}
	m.m[key] = value
	return old, ok
}

func (m *Map) CompareAndSwap(key, old, new interface{}) bool {
	m.sync()
	simrt.Yield()
	if v, ok := m.m[key]; ok && v == old {
		m.m[key] = new
		return true
	}
	return false
}

func (m *Map) CompareAndDelete(key, old interface{}) bool {
	m.sync()
	simrt.Yield()
	if v, ok := m.m[key]; ok && v == old {
		m.del(key)
		return true
	}
	return false
}

func (m *Map) Range(f func(key, value interface{}) bool) {
	m.sync()
	simrt.Yield()
	keys := append([]interface{}(nil), m.keys...)
	for _, k := range keys {
		v, ok := m.m[k]
		if !ok {
			continue
		}
		if !f(k, v) {
			break
		}
	}
}

func (m *Map) Clear() {
	m.sync()
	simrt.Yield()
	m.m = nil
	m.keys = nil
}

// OnceFunc and friends are pass-throughs.
func OnceFunc(f func()) func() {
	var o Once
	return func() { o.Do(f) }
}

var _ = fmt.Sprint
