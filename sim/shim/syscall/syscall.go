// Package syscall routes the system calls nbio makes to the simulated kernel. Descriptors
// below kernel.FDBase are real ones (files handed to Sendfile) and pass through.
package syscall

import (
	std "syscall"
	"unsafe"

	"verif/sim/kernel"
	simrt "verif/sim/rt"
)

func sim(fd int) bool { return simrt.S != nil && kernel.IsSim(fd) }

// Real descriptors the code under test makes itself (dup of a real file for Sendfile) belong
// to the run that made them. A run that ends while such a descriptor is still queued somewhere
// would leak it into the worker process; after some ten thousand runs the numbers of real
// descriptors reach the range reserved for simulated ones and a close of the one hits the
// other. They are therefore recorded and whatever is left is closed when the next run starts.
var (
	realDups      = map[int]bool{}
	realDupsEpoch uint64
)

func sweepRealDups() {
	if e := simrt.Epoch(); e != realDupsEpoch {
		for fd := range realDups {
			std.Close(fd)
		}
		realDups = map[int]bool{}
		realDupsEpoch = e
	}
}

func Close(fd int) error {
	if !sim(fd) {
		if simrt.S != nil {
			sweepRealDups()
			delete(realDups, fd)
		}
		return std.Close(fd)
	}
	return kernel.K().Close(fd)
}

func Read(fd int, p []byte) (int, error) {
	if !sim(fd) {
		return std.Read(fd, p)
	}
	return kernel.K().Read(fd, p)
}

func Write(fd int, p []byte) (int, error) {
	if !sim(fd) {
		return std.Write(fd, p)
	}
	return kernel.K().Write(fd, p)
}

func Pread(fd int, p []byte, off int64) (int, error)  { return std.Pread(fd, p, off) }
func Pwrite(fd int, p []byte, off int64) (int, error) { return std.Pwrite(fd, p, off) }

func Dup(fd int) (int, error) {
	if !sim(fd) {
		nfd, err := std.Dup(fd)
		if err == nil && simrt.S != nil {
			sweepRealDups()
			if kernel.IsSim(nfd) {
				// must not happen any more; if it does, say so instead of corrupting the run
				std.Close(nfd)
				simrt.Fatal("harness: a real descriptor number reached the simulated range")
				return -1, std.EMFILE
			}
			realDups[nfd] = true
		}
		return nfd, err
	}
	return kernel.K().Dup(fd)
}

func SetNonblock(fd int, nb bool) error {
	if !sim(fd) {
		return std.SetNonblock(fd, nb)
	}
	return nil
}

func EpollCreate1(flag int) (int, error) {
	if simrt.S == nil {
		return std.EpollCreate1(flag)
	}
	return kernel.K().EpollCreate()
}

func EpollCreate(size int) (int, error) { return EpollCreate1(0) }

func EpollCtl(epfd int, op int, fd int, event *EpollEvent) error {
	if !sim(epfd) {
		return std.EpollCtl(epfd, op, fd, event)
	}
	var ev uint32
	var data, pad int32
	if event != nil {
		ev, data, pad = event.Events, event.Fd, event.Pad
	}
	return kernel.K().EpollCtl(epfd, op, fd, ev, data, pad)
}

func EpollWait(epfd int, events []EpollEvent, msec int) (int, error) {
	if !sim(epfd) {
		return std.EpollWait(epfd, events, msec)
	}
	evs, err := kernel.K().EpollWait(epfd, len(events), msec)
	if err != nil {
		return -1, err
	}
	for i, e := range evs {
		events[i] = EpollEvent{Events: e.Events, Fd: e.Fd, Pad: e.Pad}
	}
	return len(evs), nil
}

// Syscall handles the two raw calls nbio makes: writev and eventfd2.
func Syscall(trap, a1, a2, a3 uintptr) (uintptr, uintptr, Errno) {
	if simrt.S == nil {
		return std.Syscall(trap, a1, a2, a3)
	}
	switch trap {
	case std.SYS_WRITEV:
		fd := int(a1)
		if !kernel.IsSim(fd) {
			return std.Syscall(trap, a1, a2, a3)
		}
		iovs := unsafe.Slice((*std.Iovec)(unsafe.Pointer(a2)), int(a3))
		bs := make([][]byte, 0, len(iovs))
		for _, v := range iovs {
			if v.Len > 0 {
				bs = append(bs, unsafe.Slice(v.Base, int(v.Len)))
			}
		}
		n, err := kernel.K().Writev(fd, bs)
		if err != nil {
			return ^uintptr(0), 0, err.(Errno)
		}
		return uintptr(n), 0, 0
	case std.SYS_EVENTFD2:
		fd, err := kernel.K().EventFD()
		if err != nil {
			return ^uintptr(0), 0, err.(Errno)
		}
		return uintptr(fd), 0, 0
	}
	return std.Syscall(trap, a1, a2, a3)
}

func Syscall6(trap, a1, a2, a3, a4, a5, a6 uintptr) (uintptr, uintptr, Errno) {
	return std.Syscall6(trap, a1, a2, a3, a4, a5, a6)
}
func RawSyscall(trap, a1, a2, a3 uintptr) (uintptr, uintptr, Errno) {
	return std.RawSyscall(trap, a1, a2, a3)
}

func toAddr(sa Sockaddr, typ int) *kernel.Addr {
	switch v := sa.(type) {
	case *SockaddrInet4:
		n := "tcp"
		if typ == kernel.UDP {
			n = "udp"
		}
		ip := v.Addr
		if ip == [4]byte{} {
			ip = [4]byte{127, 0, 0, 1} // Linux: connecting to INADDR_ANY reaches the local host
		}
		return &kernel.Addr{Net: n, IP: ip, Port: v.Port}
	case *SockaddrInet6:
		n := "tcp"
		if typ == kernel.UDP {
			n = "udp"
		}
		return &kernel.Addr{Net: n, IP: [4]byte{v.Addr[12], v.Addr[13], v.Addr[14], v.Addr[15]}, Port: v.Port}
	case *SockaddrUnix:
		return &kernel.Addr{Net: "unix", Name: v.Name}
	}
	return nil
}

func fromAddr(a *kernel.Addr) Sockaddr {
	if a == nil {
		return nil
	}
	if a.Net == "unix" {
		return &SockaddrUnix{Name: a.Name}
	}
	return &SockaddrInet4{Addr: a.IP, Port: a.Port}
}

func Socket(domain, typ, proto int) (int, error) {
	if simrt.S == nil {
		return std.Socket(domain, typ, proto)
	}
	kt := kernel.TCP
	switch {
	case domain == AF_UNIX:
		kt = kernel.UNIX
	case typ&0xf == SOCK_DGRAM:
		kt = kernel.UDP
	}
	return kernel.K().Socket(kt)
}

func Connect(fd int, sa Sockaddr) error {
	if !sim(fd) {
		return std.Connect(fd, sa)
	}
	k := kernel.K()
	s := k.SockOf(fd)
	typ := kernel.TCP
	if s != nil {
		typ = s.Typ
	}
	return k.Connect(fd, toAddr(sa, typ))
}

func Getsockname(fd int) (Sockaddr, error) {
	if !sim(fd) {
		return std.Getsockname(fd)
	}
	a, err := kernel.K().Getsockname(fd)
	if err != nil {
		return nil, err
	}
	return fromAddr(a), nil
}

func Getpeername(fd int) (Sockaddr, error) {
	if !sim(fd) {
		return std.Getpeername(fd)
	}
	s := kernel.K().SockOf(fd)
	if s == nil {
		return nil, EBADF
	}
	return fromAddr(s.Remote), nil
}

func Recvfrom(fd int, p []byte, flags int) (int, Sockaddr, error) {
	if !sim(fd) {
		return std.Recvfrom(fd, p, flags)
	}
	n, from, err := kernel.K().Recvfrom(fd, p)
	if err != nil {
		return n, nil, err
	}
	return n, fromAddr(from), nil
}

func Sendto(fd int, p []byte, flags int, to Sockaddr) error {
	if !sim(fd) {
		return std.Sendto(fd, p, flags, to)
	}
	return kernel.K().Sendto(fd, p, toAddr(to, kernel.UDP))
}

func Sendfile(outfd int, infd int, offset *int64, count int) (int, error) {
	if !sim(outfd) {
		return std.Sendfile(outfd, infd, offset, count)
	}
	return kernel.K().Sendfile(outfd, infd, offset, count)
}

func SetsockoptInt(fd, level, opt int, value int) error {
	if !sim(fd) {
		return std.SetsockoptInt(fd, level, opt, value)
	}
	if kernel.K().SockOf(fd) == nil {
		kernel.K().Touch(fd, "setsockopt")
		return EBADF
	}
	return nil
}

func SetsockoptLinger(fd, level, opt int, l *Linger) error {
	if !sim(fd) {
		return std.SetsockoptLinger(fd, level, opt, l)
	}
	if kernel.K().SockOf(fd) == nil {
		kernel.K().Touch(fd, "setsockopt")
		return EBADF
	}
	return nil
}

func GetsockoptInt(fd, level, opt int) (int, error) {
	if !sim(fd) {
		return std.GetsockoptInt(fd, level, opt)
	}
	s := kernel.K().SockOf(fd)
	if s == nil {
		return 0, EBADF
	}
	if opt == SO_ERROR {
		return int(s.TakeError()), nil
	}
	return 0, nil
}

func Shutdown(fd int, how int) error {
	if !sim(fd) {
		return std.Shutdown(fd, how)
	}
	s := kernel.K().SockOf(fd)
	if s == nil {
		return EBADF
	}
	if how == SHUT_WR || how == SHUT_RDWR {
		s.ShutdownWrite()
	}
	return nil
}
