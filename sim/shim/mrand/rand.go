// Package rand: math/rand whose global functions draw from a per-run seeded source.
package rand

import (
	std "math/rand"

	simrt "verif/sim/rt"
)

type (
	Rand     = std.Rand
	Source   = std.Source
	Source64 = std.Source64
	Zipf     = std.Zipf
)

var (
	New       = std.New
	NewSource = std.NewSource
	NewZipf   = std.NewZipf
)

var fallback = std.New(std.NewSource(1))

// ResetFallback re-seeds the source used outside simulated runs (single-threaded stream
// harnesses), so that a run does not depend on what ran before it in the same process.
func ResetFallback(seed int64) { fallback = std.New(std.NewSource(seed)) }

func g() *std.Rand {
	if simrt.S == nil {
		return fallback
	}
	return simrt.Local("mrand", func() interface{} {
		return std.New(std.NewSource(int64(simrt.Mix(simrt.RunSeed(), 77) | 1)))
	}).(*std.Rand)
}

// Reseed installs the run's seed (called by harnesses at run start).
func Reseed(seed uint64) {
	if simrt.S != nil {
		simrt.Local("mrand", func() interface{} { return std.New(std.NewSource(int64(seed))) })
	}
}

func Seed(seed int64)              { g().Seed(seed) }
func Int63() int64                 { return g().Int63() }
func Uint32() uint32               { return g().Uint32() }
func Uint64() uint64               { return g().Uint64() }
func Int31() int32                 { return g().Int31() }
func Int() int                     { return g().Int() }
func Int63n(n int64) int64         { return g().Int63n(n) }
func Int31n(n int32) int32         { return g().Int31n(n) }
func Intn(n int) int               { return g().Intn(n) }
func Float64() float64             { return g().Float64() }
func Float32() float32             { return g().Float32() }
func Perm(n int) []int             { return g().Perm(n) }
func Shuffle(n int, f func(i, j int)) { g().Shuffle(n, f) }
func Read(p []byte) (int, error)   { return g().Read(p) }
func NormFloat64() float64         { return g().NormFloat64() }
func ExpFloat64() float64          { return g().ExpFloat64() }
