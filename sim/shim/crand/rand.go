// Package rand: crypto/rand whose Reader is deterministic inside a simulated run.
package rand

import (
	std "crypto/rand"
	"io"
	"math/big"
	mrand "math/rand"

	simrt "verif/sim/rt"
)

type reader struct{}

func src() *mrand.Rand {
	return simrt.Local("crand", func() interface{} {
		return mrand.New(mrand.NewSource(int64(simrt.Mix(simrt.RunSeed(), 99) | 1)))
	}).(*mrand.Rand)
}

// Reseed installs the run's seed.
func Reseed(seed uint64) {
	if simrt.S != nil {
		simrt.Local("crand", func() interface{} { return mrand.New(mrand.NewSource(int64(seed))) })
	}
}

func (reader) Read(p []byte) (int, error) {
	if simrt.S == nil {
		return std.Reader.Read(p)
	}
	return src().Read(p)
}

var Reader io.Reader = reader{}

func Read(b []byte) (int, error)                      { return io.ReadFull(Reader, b) }
func Int(r io.Reader, max *big.Int) (*big.Int, error) { return std.Int(r, max) }
func Prime(r io.Reader, bits int) (*big.Int, error)   { return std.Prime(r, bits) }
func Text() string                                    { return std.Text() }
