// Package atomic: every atomic operation is a scheduling point followed by the real operation.
package atomic

import (
	std "sync/atomic"
	"unsafe"

	simrt "verif/sim/rt"
)

type (
	Value          = std.Value
	Bool           = std.Bool
	Int32          = std.Int32
	Int64          = std.Int64
	Uint32         = std.Uint32
	Uint64         = std.Uint64
	Uintptr        = std.Uintptr
	Pointer[T any] = std.Pointer[T]
)

func AddInt32(p *int32, d int32) int32       { simrt.Yield(); return std.AddInt32(p, d) }
func AddInt64(p *int64, d int64) int64       { simrt.Yield(); return std.AddInt64(p, d) }
func AddUint32(p *uint32, d uint32) uint32   { simrt.Yield(); return std.AddUint32(p, d) }
func AddUint64(p *uint64, d uint64) uint64   { simrt.Yield(); return std.AddUint64(p, d) }
func AddUintptr(p *uintptr, d uintptr) uintptr { simrt.Yield(); return std.AddUintptr(p, d) }
func LoadInt32(p *int32) int32               { simrt.Yield(); return std.LoadInt32(p) }
func LoadInt64(p *int64) int64               { simrt.Yield(); return std.LoadInt64(p) }
func LoadUint32(p *uint32) uint32            { simrt.Yield(); return std.LoadUint32(p) }
func LoadUint64(p *uint64) uint64            { simrt.Yield(); return std.LoadUint64(p) }
func LoadUintptr(p *uintptr) uintptr         { simrt.Yield(); return std.LoadUintptr(p) }
func LoadPointer(p *unsafe.Pointer) unsafe.Pointer { simrt.Yield(); return std.LoadPointer(p) }
func StoreInt32(p *int32, v int32)           { simrt.Yield(); std.StoreInt32(p, v) }
func StoreInt64(p *int64, v int64)           { simrt.Yield(); std.StoreInt64(p, v) }
func StoreUint32(p *uint32, v uint32)        { simrt.Yield(); std.StoreUint32(p, v) }
func StoreUint64(p *uint64, v uint64)        { simrt.Yield(); std.StoreUint64(p, v) }
func StoreUintptr(p *uintptr, v uintptr)     { simrt.Yield(); std.StoreUintptr(p, v) }
func StorePointer(p *unsafe.Pointer, v unsafe.Pointer) { simrt.Yield(); std.StorePointer(p, v) }
func SwapInt32(p *int32, v int32) int32      { simrt.Yield(); return std.SwapInt32(p, v) }
func SwapInt64(p *int64, v int64) int64      { simrt.Yield(); return std.SwapInt64(p, v) }
func SwapUint32(p *uint32, v uint32) uint32  { simrt.Yield(); return std.SwapUint32(p, v) }
func SwapUint64(p *uint64, v uint64) uint64  { simrt.Yield(); return std.SwapUint64(p, v) }
func SwapUintptr(p *uintptr, v uintptr) uintptr { simrt.Yield(); return std.SwapUintptr(p, v) }
func SwapPointer(p *unsafe.Pointer, v unsafe.Pointer) unsafe.Pointer {
	simrt.Yield()
	return std.SwapPointer(p, v)
}
func CompareAndSwapInt32(p *int32, o, n int32) bool    { simrt.Yield(); return std.CompareAndSwapInt32(p, o, n) }
func CompareAndSwapInt64(p *int64, o, n int64) bool    { simrt.Yield(); return std.CompareAndSwapInt64(p, o, n) }
func CompareAndSwapUint32(p *uint32, o, n uint32) bool { simrt.Yield(); return std.CompareAndSwapUint32(p, o, n) }
func CompareAndSwapUint64(p *uint64, o, n uint64) bool { simrt.Yield(); return std.CompareAndSwapUint64(p, o, n) }
func CompareAndSwapUintptr(p *uintptr, o, n uintptr) bool {
	simrt.Yield()
	return std.CompareAndSwapUintptr(p, o, n)
}
func CompareAndSwapPointer(p *unsafe.Pointer, o, n unsafe.Pointer) bool {
	simrt.Yield()
	return std.CompareAndSwapPointer(p, o, n)
}
func AndInt32(p *int32, m int32) int32     { simrt.Yield(); return std.AndInt32(p, m) }
func OrInt32(p *int32, m int32) int32      { simrt.Yield(); return std.OrInt32(p, m) }
func AndUint32(p *uint32, m uint32) uint32 { simrt.Yield(); return std.AndUint32(p, m) }
func OrUint32(p *uint32, m uint32) uint32  { simrt.Yield(); return std.OrUint32(p, m) }
func AndInt64(p *int64, m int64) int64     { simrt.Yield(); return std.AndInt64(p, m) }
func OrInt64(p *int64, m int64) int64      { simrt.Yield(); return std.OrInt64(p, m) }
func AndUint64(p *uint64, m uint64) uint64 { simrt.Yield(); return std.AndUint64(p, m) }
func OrUint64(p *uint64, m uint64) uint64  { simrt.Yield(); return std.OrUint64(p, m) }
