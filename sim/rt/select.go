package simrt

import "reflect"

// Directions of a select case.
const (
	Recv = 1
	Send = 2
)

// Case is one communication clause of a rewritten select statement.
type Case struct {
	Dir  int
	Chan interface{}
	Send interface{}
}

// Select executes a select statement. Go's runtime picks pseudo-randomly among several
// ready cases, which a seed cannot reach; here the cases are polled one by one in an order
// drawn from the run's PRNG, so the choice is replayable. When no case is ready the
// goroutine blocks in a real select: the first counterpart operation decides, and only one
// goroutine runs at a time, so that is deterministic too. Returns -1 for the default clause.
func Select(hasDefault bool, cases ...Case) (int, reflect.Value, bool) {
	n := len(cases)
	rc := make([]reflect.SelectCase, n)
	for i, c := range cases {
		cv := reflect.ValueOf(c.Chan)
		switch c.Dir {
		case Recv:
			rc[i] = reflect.SelectCase{Dir: reflect.SelectRecv, Chan: cv}
		default:
			sv := reflect.ValueOf(c.Send)
			if !sv.IsValid() && cv.IsValid() {
				sv = reflect.Zero(cv.Type().Elem())
			}
			rc[i] = reflect.SelectCase{Dir: reflect.SelectSend, Chan: cv, Send: sv}
		}
	}
	if S == nil || S.aborting {
		if hasDefault {
			rc = append(rc, reflect.SelectCase{Dir: reflect.SelectDefault})
		}
		i, v, ok := reflect.Select(rc)
		if i == n {
			return -1, v, ok
		}
		return i, v, ok
	}
	start := 0
	if n > 1 {
		start = S.rng.intn(n)
	}
	for k := 0; k < n; k++ {
		i := (start + k) % n
		if !rc[i].Chan.IsValid() || rc[i].Chan.IsNil() {
			continue
		}
		j, v, ok := reflect.Select([]reflect.SelectCase{rc[i], {Dir: reflect.SelectDefault}})
		if j == 0 {
			return i, v, ok
		}
	}
	if hasDefault {
		return -1, reflect.Value{}, false
	}
	return reflect.Select(rc)
}

// As converts the value received by Select to the element type of ch.
func As[T any](ch <-chan T, v reflect.Value) T {
	var zero T
	if !v.IsValid() {
		return zero
	}
	x, _ := v.Interface().(T)
	return x
}
