package simrt

import (
	"fmt"
	"reflect"
	"sort"
)

// Touch records the first time a map key is stored by transformed code, so that ranging
// over maps with keys that have no intrinsic order (pointers, interfaces, address-derived
// arrays) is deterministic: insertion order.
func Touch(key interface{}) {
	s := S
	if s == nil {
		return
	}
	m := s.locals["touch"]
	if m == nil {
		m = map[interface{}]int{}
		s.locals["touch"] = m
	}
	tm := m.(map[interface{}]int)
	if _, ok := tm[key]; !ok {
		tm[key] = len(tm) + 1
	}
}

// UnorderedKeys counts map keys for which no deterministic order was available
// (a determinism self-test requires it to stay zero).
var UnorderedKeys int

// MapKeys returns the keys of m in a deterministic order: insertion order for touched
// keys, value order for basic kinds.
func MapKeys[M ~map[K]V, K comparable, V any](m M) []K {
	keys := make([]K, 0, len(m))
	for k := range m {
		keys = append(keys, k)
	}
	if len(keys) < 2 {
		return keys
	}
	var tm map[interface{}]int
	if S != nil {
		if x := S.locals["touch"]; x != nil {
			tm = x.(map[interface{}]int)
		}
	}
	type ent struct {
		k    K
		ord  int
		str  string
		num  int64
		kind int
	}
	ents := make([]ent, len(keys))
	for i, k := range keys {
		e := ent{k: k}
		if tm != nil {
			e.ord = tm[k]
		}
		if e.ord == 0 {
			rv := reflect.ValueOf(k)
			switch rv.Kind() {
			case reflect.String:
				e.kind, e.str = 1, rv.String()
			case reflect.Int, reflect.Int8, reflect.Int16, reflect.Int32, reflect.Int64:
				e.kind, e.num = 2, rv.Int()
			case reflect.Uint, reflect.Uint8, reflect.Uint16, reflect.Uint32, reflect.Uint64:
				e.kind, e.num = 2, int64(rv.Uint())
			case reflect.Bool:
				e.kind = 2
				if rv.Bool() {
					e.num = 1
				}
			default:
				e.kind = 3
				UnorderedKeys++
				e.str = fmt.Sprint(k)
			}
		}
		ents[i] = e
	}
	sort.SliceStable(ents, func(i, j int) bool {
		a, b := ents[i], ents[j]
		if (a.ord != 0) != (b.ord != 0) {
			return a.ord != 0
		}
		if a.ord != 0 {
			return a.ord < b.ord
		}
		if a.kind != b.kind {
			return a.kind < b.kind
		}
		if a.kind == 2 {
			return a.num < b.num
		}
		return a.str < b.str
	})
	for i := range ents {
		keys[i] = ents[i].k
	}
	return keys
}
