// Package simrt is the deterministic scheduler: real goroutines, run one at a
// time inside a testing/synctest bubble, every interleaving decision drawn from
// one seeded PRNG. See /verif/DESIGN.md section 3.2.
package simrt

import (
	"fmt"
	"os"
	"runtime"
	"runtime/debug"
	"sort"
	"strconv"
	"strings"
	"sync"
	"testing"
	"testing/synctest"
	"time"
)

// goroutine states
const (
	stParked   = iota // waiting for the token; runnable when cond==nil or cond()
	stRunning         // holds the token
	stExternal        // inside a raw channel operation (may be durably blocked there)
	stDead
)

// G is one simulated goroutine.
type G struct {
	ID       int
	Name     string
	state    int
	cond     func() bool
	idle     bool      // runnable only when no non-idle goroutine is runnable
	alt      bool      // cond waiter that also wakes (with idle priority) when the world is stuck
	altLimit time.Time // ... and the end of its horizon: shorter horizons are woken first
	reason   string
	wake     chan struct{}
	prio     int
	abort    bool
	Daemon   bool // harness helper; ignored by leak accounting
	run      int  // fair phase: plain yields since this goroutine was last parked
}

func (g *G) String() string { return fmt.Sprintf("g%d(%s)", g.ID, g.Name) }

// Strategy selects how the next goroutine is chosen.
type Strategy int

const (
	StratRandom Strategy = iota // uniform among runnable, sticky with probability Stick
	StratPCT                    // random priorities with D change points
	StratFair                   // round robin, no pre-emption at plain yields
)

// Config of one run. Everything that influences the run is in here.
type Config struct {
	Seed        uint64
	Strategy    Strategy
	Stick       float64       // StratRandom: probability that a plain yield does not switch
	PCTDepth    int           // StratPCT: number of priority change points
	PCTSpan     int           // StratPCT: change points are drawn in [0,PCTSpan)
	MaxSteps    int           // hard budget of scheduling steps (context switches + yields)
	SpinLimit   int           // fair phase: steps without progress (NoteProgress) that count as a livelock (0: 30000)
	TimeJump    float64       // probability per park that time jumps to the next timer although goroutines are runnable
	TimeJumpMax time.Duration // such a jump happens only if the next timer is at most this far away (0: any distance)
	SiteProb    float64       // fraction of function-entry yield sites that are active
	Trace       bool          // keep a textual event log
	TraceLimit  int
}

// Result of one run.
type Result struct {
	Steps       int
	Switches    int
	LogHash     uint64
	SchedHash   uint64
	SimTime     time.Duration
	BudgetHit   bool
	Spin        bool     // fair phase: SpinLimit steps without any progress
	SpinWho     []string // goroutines that ran during the progress-free window
	Deadlock    bool     // nothing runnable, no timers, root not finished
	Blocked     []string // who was blocked on what at the end (before abort)
	Panics      []string // panics that escaped a simulated goroutine
	Leaked      int      // goroutines that could not be unwound (blocked in raw channel ops)
	LeakedNames []string
	Trace       []string
	Goroutines  int
	HarnessErr  string
}

type simTimer struct {
	when time.Time
	seq  uint64
	f    func()         // AfterFunc style (runs in a new simulated goroutine)
	ch   chan time.Time // NewTimer / After style
	name string
	live bool
	g    *G // goroutine sleeping on it (Sleep)
}

// Sched is the state of one run.
type Sched struct {
	mu       sync.Mutex // protects G.state transitions made from Unblock windows
	cfg      Config
	gs       []*G
	cur      *G
	rng      rng
	steps    int
	switches int
	logHash  uint64
	schHash  uint64
	trace    []string
	timers   []*simTimer
	tseq     uint64
	start    time.Time
	aborting bool
	finished bool
	fair     bool
	rr       int
	panics   []string
	epoch    uint64
	pctAt    map[int]bool
	nextPrio int
	budget   bool
	siteOn   map[int]bool
	siteSalt uint64
	locals   map[string]interface{}
	onStep   []func() // invariants evaluated by the scheduler between steps
	lastProg int
	spin     bool
	ring     [32]*G
	ringN    int
	invErr   string
}

// S is the current run, nil outside a run (pass-through mode).
var S *Sched
var epochCounter uint64

// Active reports whether a simulated run is in progress.
func Active() bool { return S != nil && !S.aborting }

// ---------------------------------------------------------------------------------------
// PRNG (xorshift64*), the only source of randomness of a run.

type rng struct{ s uint64 }

func mix(x uint64) uint64 {
	x += 0x9e3779b97f4a7c15
	x = (x ^ (x >> 30)) * 0xbf58476d1ce4e5b9
	x = (x ^ (x >> 27)) * 0x94d049bb133111eb
	return x ^ (x >> 31)
}

// Mix derives a seed from a seed and a salt.
func Mix(seed uint64, salt uint64) uint64 { return mix(seed ^ mix(salt)) }

func (r *rng) next() uint64 {
	if r.s == 0 {
		r.s = 0x2545F4914F6CDD1D
	}
	x := r.s
	x ^= x >> 12
	x ^= x << 25
	x ^= x >> 27
	r.s = x
	return x * 2685821657736338717
}
func (r *rng) intn(n int) int {
	if n <= 1 {
		return 0
	}
	return int(r.next() % uint64(n))
}
func (r *rng) float() float64 { return float64(r.next()>>11) / (1 << 53) }

// Rand is a PRNG for generators (outside the bubble) with the same algorithm.
type Rand struct{ r rng }

func NewRand(seed uint64) *Rand             { return &Rand{rng{mix(seed) | 1}} }
func (r *Rand) Uint64() uint64              { return r.r.next() }
func (r *Rand) Intn(n int) int              { return r.r.intn(n) }
func (r *Rand) Float() float64              { return r.r.float() }
func (r *Rand) Bool(p float64) bool         { return r.r.float() < p }
func (r *Rand) Range(lo, hi int) int        { return lo + r.r.intn(hi-lo+1) }
func (r *Rand) Pick(xs ...int) int          { return xs[r.r.intn(len(xs))] }
func (r *Rand) PickF(xs ...float64) float64 { return xs[r.r.intn(len(xs))] }
func (r *Rand) PickS(xs ...string) string   { return xs[r.r.intn(len(xs))] }

// Intn draws from the run's PRNG (only call while holding the token).
func Intn(n int) int {
	if S == nil {
		return 0
	}
	return S.rng.intn(n)
}

// Chance draws a boolean with probability p from the run's PRNG.
func Chance(p float64) bool {
	if S == nil || p <= 0 {
		return false
	}
	return S.rng.float() < p
}

// ---------------------------------------------------------------------------------------
// event log

// Ev folds an event into the run's log hash (and the textual trace when enabled).
func Ev(kind string, a ...int64) {
	s := S
	if s == nil {
		return
	}
	h := s.logHash
	for i := 0; i < len(kind); i++ {
		h = (h ^ uint64(kind[i])) * 1099511628211
	}
	for _, v := range a {
		h = (h ^ uint64(v)) * 1099511628211
		h ^= h >> 29
	}
	s.logHash = h
	if s.cfg.Trace && len(s.trace) < s.cfg.TraceLimit {
		id := -1
		if s.cur != nil {
			id = s.cur.ID
		}
		s.trace = append(s.trace, fmt.Sprintf("%6d g%-3d %s %v", s.steps, id, kind, a))
	}
}

// Logf adds a line to the textual trace only (no effect on hashes).
func Logf(format string, a ...interface{}) {
	s := S
	if s == nil || !s.cfg.Trace || len(s.trace) >= s.cfg.TraceLimit {
		return
	}
	id := -1
	if s.cur != nil {
		id = s.cur.ID
	}
	s.trace = append(s.trace, fmt.Sprintf("%6d g%-3d %s", s.steps, id, fmt.Sprintf(format, a...)))
}

// Tracing reports whether a textual trace is kept.
func Tracing() bool { return S != nil && S.cfg.Trace }

// Seq returns the global event sequence number (scheduling steps so far).
func Seq() int64 {
	if S == nil {
		return 0
	}
	S.steps++ // every observation gets a distinct stamp
	return int64(S.steps)
}

// Steps returns the number of steps so far without advancing it.
func Steps() int {
	if S == nil {
		return 0
	}
	return S.steps
}

// Now returns simulated time elapsed since the start of the run.
func Elapsed() time.Duration {
	if S == nil {
		return 0
	}
	return time.Since(S.start)
}

// Local returns per-run storage for shims and kernels.
func Local(key string, mk func() interface{}) interface{} {
	s := S
	if s == nil {
		return mk()
	}
	v, ok := s.locals[key]
	if !ok {
		v = mk()
		s.locals[key] = v
	}
	return v
}

// RunSeed returns the seed of the current run (0 outside runs).
func RunSeed() uint64 {
	if S == nil {
		return 0
	}
	return S.cfg.Seed
}

// Epoch identifies the current run (0 outside runs); used for lazy resets of
// process-global simulated objects such as sync.Pool.
func Epoch() uint64 {
	if S == nil {
		return 0
	}
	return S.epoch
}

// ---------------------------------------------------------------------------------------
// goroutines

// Cur returns the goroutine holding the token.
func Cur() *G {
	if S == nil {
		return nil
	}
	return S.cur
}

// CurID returns the logical id of the running goroutine (-1 outside a run).
func CurID() int {
	if S == nil || S.cur == nil {
		return -1
	}
	return S.cur.ID
}

// SetName names the current goroutine (diagnostics, role-based starvation).
func SetName(n string) {
	if S != nil && S.cur != nil {
		S.cur.Name = n
	}
}

func (s *Sched) newG(name string) *G {
	g := &G{ID: len(s.gs), Name: name, state: stParked, wake: make(chan struct{})}
	s.nextPrio++
	g.prio = s.rng.intn(1<<20) + 1000
	s.gs = append(s.gs, g)
	return g
}

// PassthroughGo makes Go start real goroutines outside simulated runs (default: they are dropped).
var PassthroughGo bool

// DroppedGo counts goroutines that were not started because no run was active.
var DroppedGo int

// Go starts f as a simulated goroutine.
func Go(f func()) { GoNamed("", f) }

// GoNamed is Go with a diagnostic name.
func GoNamed(name string, f func()) {
	s := S
	if s == nil {
		// Outside a simulated run (package initialisation, single-threaded stream
		// harnesses) goroutines of the code under test are not started: a stray real
		// goroutine (e.g. the dispatcher of a pool created by a package-level variable)
		// would later call into the scheduler of a run it does not belong to.
		if PassthroughGo {
			go f()
		} else {
			DroppedGo++
		}
		return
	}
	if s.aborting {
		return
	}
	if name == "" {
		name = callerName(2)
	}
	g := s.newG(name)
	go s.body(g, f)
	Yield()
}

// Spawn starts a simulated goroutine without a scheduling point (for simulator-internal
// helpers that must not interrupt the operation that creates them).
func Spawn(name string, f func()) {
	s := S
	if s == nil || s.aborting {
		return
	}
	g := s.newG(name)
	go s.body(g, f)
}

func callerName(skip int) string {
	pc, _, line, ok := runtime.Caller(skip + 1)
	if !ok {
		return "?"
	}
	fn := runtime.FuncForPC(pc)
	n := "?"
	if fn != nil {
		n = fn.Name()
		if i := strings.LastIndex(n, "/"); i >= 0 {
			n = n[i+1:]
		}
	}
	return fmt.Sprintf("%s:%d", n, line)
}

func (s *Sched) body(g *G, f func()) {
	<-g.wake
	defer func() {
		if r := recover(); r != nil {
			s.panics = append(s.panics, fmt.Sprintf("%v: panic: %v\n%s", g, r, trimStack(debug.Stack())))
		}
		s.mu.Lock()
		g.state = stDead
		s.mu.Unlock()
		if s.cur == g {
			s.cur = nil
		}
	}()
	if g.abort {
		return
	}
	f()
}

func trimStack(b []byte) string {
	lines := strings.Split(string(b), "\n")
	if len(lines) > 40 {
		lines = lines[:40]
	}
	return strings.Join(lines, "\n")
}

// park gives the token back and waits until the scheduler resumes this goroutine.
func (s *Sched) park(g *G, cond func() bool, idle bool, reason string) {
	s.mu.Lock()
	g.cond = cond
	g.idle = idle
	g.alt = false
	g.reason = reason
	g.state = stParked
	g.run = 0
	s.mu.Unlock()
	<-g.wake
	if g.abort {
		runtime.Goexit()
	}
}

// Yield is a scheduling point: the scheduler may switch to another goroutine.
func Yield() {
	s := S
	if s == nil || s.aborting {
		return
	}
	g := s.cur
	if g == nil {
		return
	}
	s.steps++
	if s.steps > s.cfg.MaxSteps {
		s.budget = true
		s.park(g, nil, false, "yield(budget)")
		return
	}
	switch {
	case s.fair:
		if s.steps-s.lastProg > s.cfg.SpinLimit {
			s.spin = true
			s.park(g, nil, false, "yield(spin)")
			return
		}
		// Fair means that every runnable goroutine runs again within a bounded number of
		// steps: a goroutine that loops without ever blocking (a poller whose wait keeps
		// returning at once) must not starve the goroutine whose next step would end the loop.
		g.run++
		if g.run >= fairQuantum {
			g.run = 0
			s.park(g, nil, false, "yield(quantum)")
		}
		return
	case s.cfg.Strategy == StratRandom:
		if s.rng.float() < s.cfg.Stick {
			return
		}
	case s.cfg.Strategy == StratPCT:
		if s.pctAt[s.steps] {
			g.prio = s.nextLow()
		} else if !s.higherRunnable(g) {
			return
		}
	case s.cfg.Strategy == StratFair:
		return
	}
	s.park(g, nil, false, "yield")
}

// Site is a function-entry yield inserted by simgen; only a per-run subset is active.
func Site(id int) {
	s := S
	if s == nil || s.aborting || s.fair || s.cfg.SiteProb <= 0 {
		return
	}
	on, ok := s.siteOn[id]
	if !ok {
		on = float64(mix(s.siteSalt^uint64(id))>>11)/(1<<53) < s.cfg.SiteProb
		s.siteOn[id] = on
	}
	if on {
		Yield()
	}
}

// Settle always parks, so that the scheduler runs synctest.Wait and every goroutine
// woken by a raw channel operation has re-parked before anything else happens.
func Settle() {
	s := S
	if s == nil || s.aborting || s.cur == nil {
		return
	}
	s.steps++
	if s.steps > s.cfg.MaxSteps {
		s.budget = true
	}
	s.park(s.cur, nil, false, "settle")
}

func (s *Sched) nextLow() int {
	s.nextPrio++
	return 1000 - s.nextPrio
}

func (s *Sched) higherRunnable(g *G) bool {
	for _, o := range s.gs {
		if o != g && o.state == stParked && !o.idle && o.prio > g.prio && (o.cond == nil || o.cond()) {
			return true
		}
	}
	return false
}

// WaitUntil parks the current goroutine until cond holds. cond is evaluated by the
// scheduler while nothing else runs and must not have side effects.
func WaitUntil(reason string, cond func() bool) {
	s := S
	if s == nil {
		if !cond() {
			panic("simrt: blocking outside a simulated run: " + reason)
		}
		return
	}
	if s.aborting {
		return
	}
	g := s.cur
	if g == nil {
		panic("simrt: WaitUntil without current goroutine: " + reason)
	}
	s.steps++
	if s.steps > s.cfg.MaxSteps {
		s.budget = true
	}
	s.park(g, cond, false, reason)
}

// Idle parks until no other (non-idle) goroutine is runnable. Pending timers do not count.
func Idle() {
	s := S
	if s == nil || s.aborting || s.cur == nil {
		return
	}
	s.steps++
	s.park(s.cur, nil, true, "idle")
}

// Block marks the current goroutine as entering a raw channel operation.
func Block() *G {
	s := S
	if s == nil || s.aborting {
		return nil
	}
	g := s.cur
	if g == nil {
		return nil
	}
	Yield()
	s.mu.Lock()
	g.state = stExternal
	g.reason = "chan " + callerName(1)
	s.mu.Unlock()
	return g
}

// Unblock is called right after the raw channel operation completed.
func Unblock(g *G) {
	s := S
	if s == nil || g == nil {
		return
	}
	if s.aborting {
		// the run is being torn down: a goroutine released by teardown just unwinds
		runtime.Goexit()
	}
	s.mu.Lock()
	g.cond = nil
	g.idle = false
	g.reason = "unblock"
	g.state = stParked
	s.mu.Unlock()
	<-g.wake
	if g.abort {
		runtime.Goexit()
	}
}

// fairQuantum is the number of plain yields a goroutine may pass in the fair phase before the
// round robin moves on.
const fairQuantum = 64

// SetFair switches to the fair phase: round-robin with a quantum of fairQuantum plain yields,
// time advances only when nothing is runnable.
func SetFair(on bool) {
	if S != nil {
		S.fair = on
		S.lastProg = S.steps
	}
}

// NoteProgress tells the scheduler that the world made observable progress (bytes moved,
// a descriptor opened or closed, a callback delivered). The fair phase ends as a livelock
// when SpinLimit steps pass without any.
func NoteProgress() {
	if S != nil {
		S.lastProg = S.steps
	}
}

// Finish marks the run as complete; the scheduler stops after the current goroutine parks or exits.
func Finish() {
	if S != nil {
		S.finished = true
	}
}

// Fail records a harness-level error that ends the run.
func BudgetHit() bool { return S != nil && S.budget }

// OnStep registers an invariant evaluated by the scheduler before every resume.
// A non-empty return value is recorded (first one wins) and ends the run.
func OnStep(f func()) {
	if S != nil {
		S.onStep = append(S.onStep, f)
	}
}

// ---------------------------------------------------------------------------------------
// timers (virtual, on top of the bubble's fake clock)

func (s *Sched) addTimer(t *simTimer, d time.Duration) {
	if d < 0 {
		d = 0
	}
	s.tseq++
	t.seq = s.tseq
	t.when = time.Now().Add(d)
	t.live = true
	s.timers = append(s.timers, t)
}

func (s *Sched) nextTimer() *simTimer {
	var best *simTimer
	j := 0
	for _, t := range s.timers {
		if !t.live {
			continue
		}
		s.timers[j] = t
		j++
		if best == nil || t.when.Before(best.when) || (t.when.Equal(best.when) && t.seq < best.seq) {
			best = t
		}
	}
	for k := j; k < len(s.timers); k++ {
		s.timers[k] = nil
	}
	s.timers = s.timers[:j]
	return best
}

// TimerHandle is what the time shim holds.
type TimerHandle struct{ t *simTimer }

// AfterFunc registers f to run in a new simulated goroutine after d.
func AfterFunc(d time.Duration, name string, f func()) *TimerHandle {
	s := S
	if s == nil {
		panic("simrt: AfterFunc outside run")
	}
	t := &simTimer{f: f, name: name}
	s.addTimer(t, d)
	return &TimerHandle{t}
}

// NewChanTimer registers a timer that delivers on ch (buffered, cap 1).
func NewChanTimer(d time.Duration, ch chan time.Time) *TimerHandle {
	s := S
	if s == nil {
		panic("simrt: NewChanTimer outside run")
	}
	t := &simTimer{ch: ch, name: "chan-timer"}
	s.addTimer(t, d)
	return &TimerHandle{t}
}

// Stop cancels the timer; reports whether it was pending.
func (h *TimerHandle) Stop() bool {
	was := h.t.live
	h.t.live = false
	return was
}

// Reset re-arms the timer; reports whether it was pending.
func (h *TimerHandle) Reset(d time.Duration) bool {
	s := S
	was := h.t.live
	h.t.live = false
	if s == nil || s.aborting {
		return was
	}
	nt := *h.t
	h.t = &nt
	s.addTimer(h.t, d)
	return was
}

// Pending reports whether the timer is armed, and When its expiry.
func (h *TimerHandle) Pending() bool   { return h.t.live }
func (h *TimerHandle) When() time.Time { return h.t.when }

// Sleep parks the current goroutine for d of simulated time.
func Sleep(d time.Duration) {
	s := S
	if s == nil {
		time.Sleep(d)
		return
	}
	if s.aborting || s.cur == nil {
		return
	}
	if d <= 0 {
		Yield()
		return
	}
	t := &simTimer{name: "sleep", g: s.cur}
	s.addTimer(t, d)
	s.steps++
	s.park(s.cur, func() bool { return !t.live }, false, "sleep")
}

// NextTimer returns the expiry of the earliest pending timer (zero if none).
func NextTimer() time.Time {
	if S == nil {
		return time.Time{}
	}
	if t := S.nextTimer(); t != nil {
		return t.when
	}
	return time.Time{}
}

// PendingTimers counts armed timers (excluding sleeps of the given goroutine, if any).
func PendingTimers() int {
	if S == nil {
		return 0
	}
	n := 0
	for _, t := range S.timers {
		if t.live {
			n++
		}
	}
	return n
}

// PendingTimerNames describes the armed timers (diagnostics).
func PendingTimerNames() []string {
	var out []string
	if S == nil {
		return out
	}
	for _, t := range S.timers {
		if t.live {
			d := t.name
			if t.g != nil {
				d += " (sleep of " + t.g.String() + ")"
			}
			out = append(out, fmt.Sprintf("%s due in %v", d, time.Until(t.when)))
		}
	}
	return out
}

// advance moves the fake clock to the earliest timer and fires everything due.
func (s *Sched) advance() bool {
	t := s.nextTimer()
	if t == nil {
		return false
	}
	if d := time.Until(t.when); d > 0 {
		time.Sleep(d) // all bubble goroutines are durably blocked: the fake clock jumps
	}
	now := time.Now()
	var due []*simTimer
	for _, x := range s.timers {
		if x.live && !x.when.After(now) {
			due = append(due, x)
		}
	}
	sort.Slice(due, func(i, j int) bool {
		if !due[i].when.Equal(due[j].when) {
			return due[i].when.Before(due[j].when)
		}
		return due[i].seq < due[j].seq
	})
	for _, x := range due {
		x.live = false
		Ev("timer", int64(x.seq))
		switch {
		case x.f != nil:
			g := s.newG("timer:" + x.name)
			go s.body(g, x.f)
		case x.ch != nil:
			select {
			case x.ch <- now:
			default:
			}
		}
	}
	return true
}

// ---------------------------------------------------------------------------------------
// the scheduler loop

func (s *Sched) runnable() (norm []*G, idle []*G) {
	for _, g := range s.gs {
		if g.state != stParked {
			continue
		}
		if g.cond != nil && !g.cond() {
			if g.alt {
				idle = append(idle, g)
			}
			continue
		}
		if g.idle {
			idle = append(idle, g)
		} else {
			norm = append(norm, g)
		}
	}
	return
}

// stuckOrder narrows the candidates of a stuck world. A WaitStuck waiter is somebody who will
// act when the world is stuck (a closer that waits for "the point where nothing else
// happens"); a goroutine in Idle / Quiesce, and a WaitStuck waiter with a longer horizon, wait
// for "nobody is going to act any more". So the waiters with the shortest horizon go first,
// and Idle callers only when there is no such waiter left - otherwise a harness could judge a
// run while one of its own actors has not had its turn.
func stuckOrder(idle []*G) []*G {
	var first []*G
	for _, g := range idle {
		if !g.alt {
			continue
		}
		switch {
		case len(first) == 0 || g.altLimit.Before(first[0].altLimit):
			first = append(first[:0], g)
		case g.altLimit.Equal(first[0].altLimit):
			first = append(first, g)
		}
	}
	if len(first) > 0 {
		return first
	}
	return idle
}

func (s *Sched) pick(c []*G) *G {
	if len(c) == 1 {
		return c[0]
	}
	if s.fair || s.cfg.Strategy == StratFair {
		// round robin by id
		for _, g := range c {
			if g.ID > s.rr {
				s.rr = g.ID
				return g
			}
		}
		s.rr = c[0].ID
		return c[0]
	}
	if s.cfg.Strategy == StratPCT {
		best := c[0]
		for _, g := range c[1:] {
			if g.prio > best.prio {
				best = g
			}
		}
		return best
	}
	return c[s.rng.intn(len(c))]
}

func (s *Sched) loop(root func()) {
	s.start = time.Now()
	g0 := s.newG("root")
	go s.body(g0, root)
	for {
		synctest.Wait()
		if s.invErr == "" {
			for _, f := range s.onStep {
				f()
			}
		}
		if s.finished || s.budget || s.spin || len(s.panics) > 0 {
			break
		}
		if s.fair && s.steps-s.lastProg > s.cfg.SpinLimit {
			s.spin = true
			break
		}
		norm, idle := s.runnable()
		if len(norm) > 0 && !s.fair && s.cfg.TimeJump > 0 && s.rng.float() < s.cfg.TimeJump {
			if nt := s.nextTimer(); nt != nil && (s.cfg.TimeJumpMax <= 0 || time.Until(nt.when) <= s.cfg.TimeJumpMax) {
				if s.advance() {
					continue
				}
			}
		}
		var g *G
		switch {
		case len(norm) > 0:
			g = s.pick(norm)
		case len(idle) > 0:
			g = s.pick(stuckOrder(idle))
		default:
			if s.advance() {
				continue
			}
		}
		if g == nil {
			break // quiescent for ever: deadlock or simply done
		}
		s.steps++
		if s.steps > s.cfg.MaxSteps {
			s.budget = true
			break
		}
		s.ring[s.ringN%len(s.ring)] = g
		s.ringN++
		if s.cur != g {
			s.switches++
			s.schHash = (s.schHash ^ uint64(g.ID+1)) * 1099511628211
			if s.cfg.Trace && len(s.trace) < s.cfg.TraceLimit {
				s.trace = append(s.trace, fmt.Sprintf("%6d ---- switch to %v (was: %s)", s.steps, g, g.reason))
			}
		}
		s.mu.Lock()
		g.state = stRunning
		s.mu.Unlock()
		s.cur = g
		g.wake <- struct{}{}
	}
}

func (s *Sched) teardown(res *Result) {
	// describe who is blocked where, before unwinding
	for _, g := range s.gs {
		if g.state == stParked || g.state == stExternal {
			if g.Daemon {
				continue
			}
			st := "parked"
			if g.state == stExternal {
				st = "chan"
			}
			res.Blocked = append(res.Blocked, fmt.Sprintf("%v %s: %s", g, st, g.reason))
		}
	}
	s.aborting = true
	for round := 0; round < 3; round++ {
		for _, g := range s.gs {
			if g.state == stParked {
				g.abort = true
				s.cur = g
				g.wake <- struct{}{}
				synctest.Wait()
			}
		}
	}
	s.cur = nil
	for _, g := range s.gs {
		if g.state != stDead {
			res.Leaked++
			res.LeakedNames = append(res.LeakedNames, fmt.Sprintf("%v: %s", g, g.reason))
		}
	}
}

// Run executes root under the scheduler inside a fresh synctest bubble.
func Run(t *testing.T, cfg Config, root func()) (res *Result) {
	if cfg.MaxSteps <= 0 {
		cfg.MaxSteps = 200000
	}
	if cfg.TraceLimit <= 0 {
		cfg.TraceLimit = 20000
		if v, err := strconv.Atoi(os.Getenv("VERIF_TRACE_LIMIT")); err == nil && v > 0 {
			cfg.TraceLimit = v // debugging aid
		}
	}
	if cfg.SpinLimit <= 0 {
		cfg.SpinLimit = 30000
	}
	epochCounter++
	s := &Sched{cfg: cfg, rng: rng{mix(cfg.Seed) | 1}, epoch: epochCounter,
		siteOn: map[int]bool{}, siteSalt: mix(cfg.Seed ^ 0x51ed), locals: map[string]interface{}{},
		logHash: 14695981039346656037, schHash: 14695981039346656037}
	if cfg.Strategy == StratPCT {
		s.pctAt = map[int]bool{}
		span := cfg.PCTSpan
		if span <= 0 {
			span = 2000
		}
		for i := 0; i < cfg.PCTDepth; i++ {
			s.pctAt[1+s.rng.intn(span)] = true
		}
	}
	res = &Result{}
	func() {
		defer func() {
			if r := recover(); r != nil {
				msg := fmt.Sprint(r)
				if strings.Contains(msg, "blocked goroutines remain") || strings.Contains(msg, "deadlock") {
					return // goroutines left in raw channel operations; counted in res.Leaked
				}
				res.HarnessErr = fmt.Sprintf("panic in scheduler: %v\n%s", r, trimStack(debug.Stack()))
			}
		}()
		synctest.Test(t, func(t *testing.T) {
			S = s
			defer func() { S = nil }()
			s.loop(root)
			res.SimTime = time.Since(s.start)
			res.BudgetHit = s.budget
			res.Spin = s.spin
			if s.spin {
				seen := map[*G]bool{}
				for _, g := range s.ring {
					if g != nil && !seen[g] {
						seen[g] = true
						res.SpinWho = append(res.SpinWho, g.String())
					}
				}
			}
			if !s.finished && !s.budget && !s.spin && len(s.panics) == 0 {
				res.Deadlock = true
			}
			s.teardown(res)
		})
	}()
	S = nil
	res.Steps = s.steps
	res.Switches = s.switches
	res.LogHash = s.logHash
	res.SchedHash = s.schHash
	res.Panics = s.panics
	res.Trace = s.trace
	res.Goroutines = len(s.gs)
	return res
}

// Goroutines lists the goroutines of the current run that are not dead, for oracles.
func Alive() []string {
	var out []string
	if S == nil {
		return nil
	}
	for _, g := range S.gs {
		if g.state != stDead && g != S.cur && !g.Daemon {
			st := "parked"
			if g.state == stExternal {
				st = "chan"
			}
			out = append(out, fmt.Sprintf("%v %s: %s", g, st, g.reason))
		}
	}
	return out
}

// Fatal mimics a runtime throw (e.g. "sync: unlock of unlocked mutex"): it cannot be
// recovered by the code under test. The run ends and the message is reported as a panic.
func Fatal(msg string) {
	s := S
	if s == nil {
		panic(msg)
	}
	if s.aborting {
		return
	}
	s.panics = append(s.panics, fmt.Sprintf("%v: %s\n%s", s.cur, msg, trimStack(debug.Stack())))
	runtime.Goexit()
}

// MarkDaemon flags the current goroutine as a harness helper.
func MarkDaemon() {
	if S != nil && S.cur != nil {
		S.cur.Daemon = true
	}
}

// Quiesce lets the world run until nothing is runnable and no timer is due within the
// horizon (simulated time from now). Timers beyond the horizon stay pending.
func Quiesce(horizon time.Duration) {
	s := S
	if s == nil || s.aborting || s.cur == nil {
		return
	}
	limit := time.Now().Add(horizon)
	for {
		Idle()
		if s.budget || s.aborting {
			return
		}
		t := s.nextTimer()
		if t == nil || t.when.After(limit) {
			return
		}
		d := time.Until(t.when)
		if d <= 0 {
			d = 1
		}
		Sleep(d)
	}
}

// WaitStuck parks until cond holds (returns true) or until the world is stuck: nothing
// else is runnable and no timer is due within the horizon (returns false).
func WaitStuck(reason string, horizon time.Duration, cond func() bool) bool {
	s := S
	if s == nil {
		return cond()
	}
	if s.aborting || s.cur == nil {
		return cond()
	}
	g := s.cur
	limit := time.Now().Add(horizon)
	for {
		if cond() {
			return true
		}
		s.steps++
		if s.steps > s.cfg.MaxSteps {
			s.budget = true
		}
		s.mu.Lock()
		g.cond = cond
		g.idle = false
		g.alt = true
		g.altLimit = limit
		g.reason = reason
		g.state = stParked
		s.mu.Unlock()
		<-g.wake
		g.alt = false
		if g.abort {
			runtime.Goexit()
		}
		if cond() {
			return true
		}
		if s.budget {
			return false
		}
		t := s.nextTimer()
		if t == nil || t.when.After(limit) {
			return false
		}
		d := time.Until(t.when)
		if d <= 0 {
			d = 1
		}
		Sleep(d)
	}
}
