// simgen copies the non-test sources of lesismal/nbio from a working tree into a scratch
// module and rewrites them so that every source of nondeterminism goes through the
// simulator (DESIGN.md section 3.1):
//
//   - imports of sync, sync/atomic, time, syscall, net, math/rand, crypto/rand are swapped
//     for the shims under verif/sim/shim;
//   - go statements become simrt.Go;
//   - raw channel operations are bracketed with simrt.Block / simrt.Unblock;
//   - range over a map iterates a deterministic key order (simrt.MapKeys) and stores into
//     maps with non-basic keys record insertion order (simrt.Touch);
//   - every function gets an entry yield site (simrt.Site).
//
// Anything it does not understand makes it exit 2.
package main

import (
	"bytes"
	"flag"
	"fmt"
	"go/ast"
	"go/build"
	"go/format"
	"go/importer"
	"go/parser"
	"go/token"
	"go/types"
	"os"
	"path/filepath"
	"sort"
	"strconv"
	"strings"
)

var modPath = "github.com/lesismal/nbio"

var swap = map[string]string{
	"sync":        "verif/sim/shim/sync",
	"sync/atomic": "verif/sim/shim/atomic",
	"time":        "verif/sim/shim/time",
	"syscall":     "verif/sim/shim/syscall",
	"net":         "verif/sim/shim/net",
	"math/rand":   "verif/sim/shim/mrand",
	"crypto/rand": "verif/sim/shim/crand",
}

var (
	repo    = flag.String("repo", "/repo", "working tree of lesismal/nbio")
	out     = flag.String("out", "", "output directory (scratch module root)")
	pkgList = flag.String("pkgs", ".,logging,mempool,taskpool,timer,lmux,nbhttp,nbhttp/websocket,extension/tls", "package directories to transform")
	verif   = flag.String("verif", "/verif", "path of the verif module (for the generated go.mod)")
	noSwap  = flag.String("noswap", "", "comma separated std packages that are NOT swapped")
	modFlag = flag.String("mod", "", "module path of the tree (default github.com/lesismal/nbio); other modules keep their go.mod")
	siteBase = flag.Int("sitebase", 0, "first yield site number (keeps site ids of several trees apart)")
)

func fatal(format string, a ...interface{}) {
	fmt.Fprintf(os.Stderr, "simgen: "+format+"\n", a...)
	os.Exit(2)
}

type pkgInfo struct {
	dir   string // relative
	path  string
	files []*ast.File
	names []string
	info  *types.Info
	tpkg  *types.Package
}

type loader struct {
	fset *token.FileSet
	pkgs map[string]*pkgInfo // by import path
	std  types.ImporterFrom
	errs []string
}

func (l *loader) Import(path string) (*types.Package, error) { return l.ImportFrom(path, *repo, 0) }

func (l *loader) ImportFrom(path, dir string, mode types.ImportMode) (*types.Package, error) {
	if path == modPath || strings.HasPrefix(path, modPath+"/") {
		rel := strings.TrimPrefix(strings.TrimPrefix(path, modPath), "/")
		if rel == "" {
			rel = "."
		}
		p, err := l.load(rel)
		if err != nil {
			return nil, err
		}
		return p.tpkg, nil
	}
	return l.std.ImportFrom(path, *repo, 0)
}

func (l *loader) load(rel string) (*pkgInfo, error) {
	path := modPath
	if rel != "." {
		path = modPath + "/" + filepath.ToSlash(rel)
	}
	if p, ok := l.pkgs[path]; ok {
		if p.tpkg == nil {
			return nil, fmt.Errorf("import cycle through %s", path)
		}
		return p, nil
	}
	p := &pkgInfo{dir: rel, path: path}
	l.pkgs[path] = p
	dir := filepath.Join(*repo, rel)
	ents, err := os.ReadDir(dir)
	if err != nil {
		return nil, err
	}
	ctx := build.Default
	ctx.GOOS, ctx.GOARCH = "linux", "amd64"
	ctx.CgoEnabled = false
	for _, e := range ents {
		n := e.Name()
		if e.IsDir() || !strings.HasSuffix(n, ".go") || strings.HasSuffix(n, "_test.go") {
			continue
		}
		ok, err := ctx.MatchFile(dir, n)
		if err != nil {
			return nil, err
		}
		if !ok {
			continue
		}
		f, err := parser.ParseFile(l.fset, filepath.Join(dir, n), nil, parser.ParseComments)
		if err != nil {
			return nil, err
		}
		if f.Name.Name == "main" {
			continue
		}
		p.files = append(p.files, f)
		p.names = append(p.names, n)
	}
	if len(p.files) == 0 {
		return nil, fmt.Errorf("no Go files in %s", dir)
	}
	p.info = &types.Info{Types: map[ast.Expr]types.TypeAndValue{}}
	conf := types.Config{Importer: l, Error: func(err error) { l.errs = append(l.errs, err.Error()) }, GoVersion: ""}
	tp, _ := conf.Check(path, l.fset, p.files, p.info)
	p.tpkg = tp
	return p, nil
}

// ---------------------------------------------------------------------------------------

type rewriter struct {
	l       *loader
	p       *pkgInfo
	file    *ast.File
	fname   string
	tmp     int
	usedRT  bool
	siteSeq *int
}

func (r *rewriter) pos(n ast.Node) string { return r.l.fset.Position(n.Pos()).String() }

func (r *rewriter) name(prefix string) *ast.Ident {
	r.tmp++
	return ast.NewIdent(fmt.Sprintf("__sim_%s%d", prefix, r.tmp))
}

func (r *rewriter) rt(fn string, args ...ast.Expr) *ast.CallExpr {
	r.usedRT = true
	return &ast.CallExpr{Fun: &ast.SelectorExpr{X: ast.NewIdent("simrt"), Sel: ast.NewIdent(fn)}, Args: args}
}

func (r *rewriter) typeOf(e ast.Expr) types.Type {
	if tv, ok := r.p.info.Types[e]; ok {
		return tv.Type
	}
	return nil
}

func isRecv(e ast.Expr) bool {
	for {
		if p, ok := e.(*ast.ParenExpr); ok {
			e = p.X
			continue
		}
		break
	}
	u, ok := e.(*ast.UnaryExpr)
	return ok && u.Op == token.ARROW
}

// containsRecv reports a receive expression anywhere below n, not descending into function literals.
func containsRecv(n ast.Node) bool {
	found := false
	ast.Inspect(n, func(x ast.Node) bool {
		if found {
			return false
		}
		switch v := x.(type) {
		case *ast.FuncLit:
			return false
		case *ast.UnaryExpr:
			if v.Op == token.ARROW {
				found = true
			}
		}
		return true
	})
	return found
}

// stmts rewrites a statement list and returns the new list.
func (r *rewriter) stmts(list []ast.Stmt) []ast.Stmt {
	var outl []ast.Stmt
	for _, s := range list {
		outl = append(outl, r.stmt(s)...)
	}
	return outl
}

func (r *rewriter) block(b *ast.BlockStmt) {
	if b != nil {
		b.List = r.stmts(b.List)
	}
}

// funcLits rewrites the bodies of function literals that occur inside expressions of n.
func (r *rewriter) funcLits(n ast.Node) {
	if n == nil {
		return
	}
	ast.Inspect(n, func(x ast.Node) bool {
		if fl, ok := x.(*ast.FuncLit); ok {
			r.block(fl.Body)
			return false
		}
		return true
	})
}

func (r *rewriter) bracket(s ast.Stmt) []ast.Stmt {
	t := r.name("t")
	return []ast.Stmt{
		&ast.AssignStmt{Lhs: []ast.Expr{t}, Tok: token.DEFINE, Rhs: []ast.Expr{r.rt("Block")}},
		s,
		&ast.ExprStmt{X: r.rt("Unblock", t)},
	}
}

func (r *rewriter) stmt(s ast.Stmt) []ast.Stmt {
	switch v := s.(type) {
	case nil:
		return nil
	case *ast.BlockStmt:
		r.block(v)
	case *ast.IfStmt:
		if v.Init != nil && containsRecv(v.Init) {
			fatal("%s: channel receive in if-init is not supported", r.pos(v))
		}
		r.funcLits(v.Init)
		r.funcLits(v.Cond)
		r.block(v.Body)
		if v.Else != nil {
			e := r.stmt(v.Else)
			if len(e) == 1 {
				v.Else = e[0]
			} else {
				v.Else = &ast.BlockStmt{List: e}
			}
		}
	case *ast.ForStmt:
		if (v.Init != nil && containsRecv(v.Init)) || (v.Cond != nil && containsRecv(v.Cond)) || (v.Post != nil && containsRecv(v.Post)) {
			fatal("%s: channel receive in for header is not supported", r.pos(v))
		}
		r.funcLits(v.Init)
		r.funcLits(v.Cond)
		r.funcLits(v.Post)
		r.block(v.Body)
	case *ast.RangeStmt:
		return r.rangeStmt(v)
	case *ast.SwitchStmt:
		if (v.Init != nil && containsRecv(v.Init)) || (v.Tag != nil && containsRecv(v.Tag)) {
			fatal("%s: channel receive in switch header is not supported", r.pos(v))
		}
		r.funcLits(v.Init)
		r.funcLits(v.Tag)
		for _, c := range v.Body.List {
			cc := c.(*ast.CaseClause)
			for _, e := range cc.List {
				r.funcLits(e)
			}
			cc.Body = r.stmts(cc.Body)
		}
	case *ast.TypeSwitchStmt:
		r.funcLits(v.Init)
		r.funcLits(v.Assign)
		for _, c := range v.Body.List {
			cc := c.(*ast.CaseClause)
			cc.Body = r.stmts(cc.Body)
		}
	case *ast.SelectStmt:
		return r.selectStmt(v)
	case *ast.LabeledStmt:
		if sel, ok := v.Stmt.(*ast.SelectStmt); ok {
			list := r.selectStmt(sel)
			v.Stmt = list[len(list)-1]
			list[len(list)-1] = v
			return list
		}
		inner := r.stmt(v.Stmt)
		if len(inner) != 1 {
			// a labelled channel operation / select / go: keep the label on a block
			switch v.Stmt.(type) {
			case *ast.SelectStmt, *ast.ForStmt, *ast.RangeStmt, *ast.SwitchStmt, *ast.TypeSwitchStmt:
				fatal("%s: labelled statement that needs a multi-statement rewrite is not supported", r.pos(v))
			}
			v.Stmt = &ast.BlockStmt{List: inner}
		} else {
			v.Stmt = inner[0]
		}
	case *ast.GoStmt:
		return r.goStmt(v)
	case *ast.SendStmt:
		r.funcLits(v.Value)
		return r.bracket(v)
	case *ast.ExprStmt:
		if isRecv(v.X) {
			return r.bracket(v)
		}
		if containsRecv(v.X) {
			fatal("%s: channel receive nested in an expression is not supported", r.pos(v))
		}
		r.funcLits(v.X)
		if c, ok := v.X.(*ast.CallExpr); ok {
			if id, ok := c.Fun.(*ast.Ident); ok && id.Name == "close" && len(c.Args) == 1 {
				if t := r.typeOf(c.Args[0]); t != nil {
					if _, ok := t.Underlying().(*types.Chan); ok {
						return []ast.Stmt{v, &ast.ExprStmt{X: r.rt("Settle")}}
					}
				}
			}
		}
	case *ast.AssignStmt:
		if len(v.Rhs) == 1 && isRecv(v.Rhs[0]) {
			return r.bracket(v)
		}
		if containsRecv(v) {
			fatal("%s: channel receive nested in an assignment is not supported", r.pos(v))
		}
		r.funcLits(v)
		// stores into maps whose key order cannot be derived from the key value
		var pre []ast.Stmt
		for _, lhs := range v.Lhs {
			ix, ok := lhs.(*ast.IndexExpr)
			if !ok {
				continue
			}
			t := r.typeOf(ix.X)
			if t == nil {
				continue
			}
			m, ok := t.Underlying().(*types.Map)
			if !ok || basicKey(m.Key()) {
				continue
			}
			pre = append(pre, &ast.ExprStmt{X: r.rt("Touch", ix.Index)})
		}
		if len(pre) > 0 {
			return append(pre, v)
		}
	case *ast.DeclStmt, *ast.ReturnStmt, *ast.IncDecStmt, *ast.DeferStmt:
		if containsRecv(v) {
			fatal("%s: channel receive nested in a statement is not supported", r.pos(v))
		}
		r.funcLits(v)
	case *ast.BranchStmt, *ast.EmptyStmt:
	default:
		fatal("%s: unsupported statement %T", r.pos(s), s)
	}
	return []ast.Stmt{s}
}

// selectStmt rewrites a select into simrt.Select (PRNG-ordered polling) plus a switch.
func (r *rewriter) selectStmt(v *ast.SelectStmt) []ast.Stmt {
	t := r.name("t")
	idx, val, ok := r.name("i"), r.name("v"), r.name("ok")
	var pre []ast.Stmt
	var cases []ast.Expr
	var clauses []ast.Stmt
	hasDefault := false
	n := 0
	sel := func(name string) ast.Expr {
		r.usedRT = true
		return &ast.SelectorExpr{X: ast.NewIdent("simrt"), Sel: ast.NewIdent(name)}
	}
	for _, c := range v.Body.List {
		cc := c.(*ast.CommClause)
		body := r.stmts(cc.Body)
		if cc.Comm == nil {
			hasDefault = true
			clauses = append(clauses, &ast.CaseClause{List: nil, Body: body})
			continue
		}
		ch := r.name("c")
		var chanExpr ast.Expr
		var lit *ast.CompositeLit
		var head []ast.Stmt
		switch cm := cc.Comm.(type) {
		case *ast.SendStmt:
			r.funcLits(cm.Value)
			chanExpr = cm.Chan
			lit = &ast.CompositeLit{Type: sel("Case"), Elts: []ast.Expr{
				&ast.KeyValueExpr{Key: ast.NewIdent("Dir"), Value: sel("Send")},
				&ast.KeyValueExpr{Key: ast.NewIdent("Chan"), Value: ch},
				&ast.KeyValueExpr{Key: ast.NewIdent("Send"), Value: cm.Value}}}
		case *ast.ExprStmt:
			u, isU := unparen(cm.X).(*ast.UnaryExpr)
			if !isU || u.Op != token.ARROW {
				fatal("%s: unsupported select communication", r.pos(cm))
			}
			chanExpr = u.X
		case *ast.AssignStmt:
			if len(cm.Rhs) != 1 {
				fatal("%s: unsupported select communication", r.pos(cm))
			}
			u, isU := unparen(cm.Rhs[0]).(*ast.UnaryExpr)
			if !isU || u.Op != token.ARROW {
				fatal("%s: unsupported select communication", r.pos(cm))
			}
			chanExpr = u.X
			rhs := []ast.Expr{&ast.CallExpr{Fun: sel("As"), Args: []ast.Expr{ch, val}}}
			if len(cm.Lhs) == 2 {
				rhs = append(rhs, ok)
			}
			head = append(head, &ast.AssignStmt{Lhs: cm.Lhs, Tok: cm.Tok, Rhs: rhs})
			if cm.Tok == token.DEFINE {
				// avoid "declared and not used" for identifiers the body ignores
				for _, l := range cm.Lhs {
					if id, isID := l.(*ast.Ident); isID && id.Name != "_" {
						head = append(head, &ast.AssignStmt{Lhs: []ast.Expr{ast.NewIdent("_")}, Tok: token.ASSIGN, Rhs: []ast.Expr{ast.NewIdent(id.Name)}})
					}
				}
			}
		default:
			fatal("%s: unsupported select communication %T", r.pos(cc.Comm), cc.Comm)
		}
		pre = append(pre, &ast.AssignStmt{Lhs: []ast.Expr{ch}, Tok: token.DEFINE, Rhs: []ast.Expr{chanExpr}})
		if lit == nil {
			lit = &ast.CompositeLit{Type: sel("Case"), Elts: []ast.Expr{
				&ast.KeyValueExpr{Key: ast.NewIdent("Dir"), Value: sel("Recv")},
				&ast.KeyValueExpr{Key: ast.NewIdent("Chan"), Value: ch}}}
		}
		cases = append(cases, lit)
		clauses = append(clauses, &ast.CaseClause{List: []ast.Expr{&ast.BasicLit{Kind: token.INT, Value: strconv.Itoa(n)}}, Body: append(head, body...)})
		n++
	}
	hd := "false"
	if hasDefault {
		hd = "true"
	} else {
		// keeps the switch a terminating statement when every clause terminates, as the select was
		clauses = append(clauses, &ast.CaseClause{List: nil, Body: []ast.Stmt{&ast.ExprStmt{X: &ast.CallExpr{Fun: ast.NewIdent("panic"),
			Args: []ast.Expr{&ast.BasicLit{Kind: token.STRING, Value: strconv.Quote("simrt: select returned an impossible index")}}}}}})
	}
	call := r.rt("Select", append([]ast.Expr{ast.NewIdent(hd)}, cases...)...)
	out := append(pre,
		&ast.AssignStmt{Lhs: []ast.Expr{t}, Tok: token.DEFINE, Rhs: []ast.Expr{r.rt("Block")}},
		&ast.AssignStmt{Lhs: []ast.Expr{idx, val, ok}, Tok: token.DEFINE, Rhs: []ast.Expr{call}},
		&ast.ExprStmt{X: r.rt("Unblock", t)},
		&ast.AssignStmt{Lhs: []ast.Expr{ast.NewIdent("_"), ast.NewIdent("_")}, Tok: token.ASSIGN, Rhs: []ast.Expr{val, ok}},
		&ast.SwitchStmt{Tag: idx, Body: &ast.BlockStmt{List: clauses}},
	)
	return out
}

func unparen(e ast.Expr) ast.Expr {
	for {
		p, ok := e.(*ast.ParenExpr)
		if !ok {
			return e
		}
		e = p.X
	}
}

func basicKey(t types.Type) bool {
	b, ok := t.Underlying().(*types.Basic)
	if !ok {
		return false
	}
	return b.Info()&(types.IsString|types.IsInteger|types.IsBoolean|types.IsFloat) != 0
}

func isConstLike(e ast.Expr, info *types.Info) bool {
	if tv, ok := info.Types[e]; ok && (tv.Value != nil || tv.IsNil()) {
		return true
	}
	switch v := e.(type) {
	case *ast.BasicLit:
		return true
	case *ast.Ident:
		return v.Name == "nil" || v.Name == "true" || v.Name == "false"
	}
	return false
}

func (r *rewriter) goStmt(g *ast.GoStmt) []ast.Stmt {
	call := g.Call
	var pre []ast.Stmt
	for _, a := range call.Args {
		r.funcLits(a)
	}
	fun := call.Fun
	if fl, ok := fun.(*ast.FuncLit); ok {
		r.block(fl.Body)
		if len(call.Args) == 0 {
			return []ast.Stmt{&ast.ExprStmt{X: r.rt("Go", fl)}}
		}
	} else {
		r.funcLits(fun)
		f := r.name("f")
		pre = append(pre, &ast.AssignStmt{Lhs: []ast.Expr{f}, Tok: token.DEFINE, Rhs: []ast.Expr{fun}})
		fun = f
	}
	args := make([]ast.Expr, len(call.Args))
	for i, a := range call.Args {
		if isConstLike(a, r.p.info) {
			args[i] = a
			continue
		}
		t := r.name("a")
		pre = append(pre, &ast.AssignStmt{Lhs: []ast.Expr{t}, Tok: token.DEFINE, Rhs: []ast.Expr{a}})
		args[i] = t
	}
	inner := &ast.CallExpr{Fun: fun, Args: args, Ellipsis: call.Ellipsis}
	lit := &ast.FuncLit{Type: &ast.FuncType{Params: &ast.FieldList{}}, Body: &ast.BlockStmt{List: []ast.Stmt{&ast.ExprStmt{X: inner}}}}
	pre = append(pre, &ast.ExprStmt{X: r.rt("Go", lit)})
	return []ast.Stmt{&ast.BlockStmt{List: pre}}
}

func (r *rewriter) rangeStmt(v *ast.RangeStmt) []ast.Stmt {
	r.funcLits(v.X)
	r.block(v.Body)
	t := r.typeOf(v.X)
	if t == nil {
		fatal("%s: no type information for range expression", r.pos(v))
	}
	switch t.Underlying().(type) {
	case *types.Chan:
		fatal("%s: range over a channel is not supported", r.pos(v))
	case *types.Map:
	default:
		return []ast.Stmt{v}
	}
	if v.Tok == token.ASSIGN {
		fatal("%s: range over map with '=' is not supported", r.pos(v))
	}
	m := r.name("m")
	pre := &ast.AssignStmt{Lhs: []ast.Expr{m}, Tok: token.DEFINE, Rhs: []ast.Expr{v.X}}
	keyID, _ := v.Key.(*ast.Ident)
	valID, _ := v.Value.(*ast.Ident)
	if v.Key != nil && keyID == nil || v.Value != nil && valID == nil {
		fatal("%s: range over map with non-identifier targets is not supported", r.pos(v))
	}
	k := keyID
	if k == nil || k.Name == "_" {
		k = r.name("k")
	}
	ok := r.name("ok")
	var head []ast.Stmt
	vv := ast.Expr(ast.NewIdent("_"))
	if valID != nil && valID.Name != "_" {
		vv = valID
	}
	head = append(head, &ast.AssignStmt{Lhs: []ast.Expr{vv, ok}, Tok: token.DEFINE,
		Rhs: []ast.Expr{&ast.IndexExpr{X: m, Index: k}}})
	head = append(head, &ast.IfStmt{Cond: &ast.UnaryExpr{Op: token.NOT, X: ok},
		Body: &ast.BlockStmt{List: []ast.Stmt{&ast.BranchStmt{Tok: token.CONTINUE}}}})
	v.Key = ast.NewIdent("_")
	v.Value = k
	v.Tok = token.DEFINE
	v.X = r.rt("MapKeys", m)
	v.Body.List = append(head, v.Body.List...)
	return []ast.Stmt{&ast.BlockStmt{List: []ast.Stmt{pre, v}}}
}

func (r *rewriter) rewriteFile() {
	f := r.file
	f.Comments = nil
	f.Doc = nil
	// imports
	for _, im := range f.Imports {
		p, _ := strconv.Unquote(im.Path.Value)
		if np, ok := swap[p]; ok {
			im.Path.Value = strconv.Quote(np)
			im.EndPos = 0
		}
	}
	for _, d := range f.Decls {
		switch v := d.(type) {
		case *ast.FuncDecl:
			if v.Body == nil {
				continue
			}
			r.block(v.Body)
			if v.Name.Name != "init" {
				*r.siteSeq++
				site := &ast.ExprStmt{X: r.rt("Site", &ast.BasicLit{Kind: token.INT, Value: strconv.Itoa(*r.siteSeq)})}
				v.Body.List = append([]ast.Stmt{site}, v.Body.List...)
			}
		case *ast.GenDecl:
			r.funcLits(v)
		}
	}
	if r.usedRT {
		addImport(f, "simrt", "verif/sim/rt")
	}
}

func addImport(f *ast.File, name, path string) {
	spec := &ast.ImportSpec{Name: ast.NewIdent(name), Path: &ast.BasicLit{Kind: token.STRING, Value: strconv.Quote(path)}}
	for _, d := range f.Decls {
		if gd, ok := d.(*ast.GenDecl); ok && gd.Tok == token.IMPORT {
			gd.Specs = append(gd.Specs, spec)
			if len(gd.Specs) > 1 && !gd.Lparen.IsValid() {
				gd.Lparen = gd.Pos()
				gd.Rparen = gd.End()
			}
			f.Imports = append(f.Imports, spec)
			return
		}
	}
	gd := &ast.GenDecl{Tok: token.IMPORT, Specs: []ast.Spec{spec}}
	f.Decls = append([]ast.Decl{gd}, f.Decls...)
	f.Imports = append(f.Imports, spec)
}

func main() {
	flag.Parse()
	if *out == "" {
		fatal("-out is required")
	}
	for _, n := range strings.Split(*noSwap, ",") {
		delete(swap, n)
	}
	if *modFlag != "" {
		modPath = *modFlag
	}
	fset := token.NewFileSet()
	l := &loader{fset: fset, pkgs: map[string]*pkgInfo{}}
	l.std = importer.ForCompiler(fset, "source", nil).(types.ImporterFrom)
	var dirs []string
	for _, d := range strings.Split(*pkgList, ",") {
		d = strings.TrimSpace(d)
		if d == "" {
			continue
		}
		if _, err := os.Stat(filepath.Join(*repo, d)); err != nil {
			continue
		}
		dirs = append(dirs, d)
	}
	for _, d := range dirs {
		if _, err := l.load(d); err != nil {
			fatal("load %s: %v", d, err)
		}
	}
	paths := make([]string, 0, len(l.pkgs))
	for p := range l.pkgs {
		paths = append(paths, p)
	}
	sort.Strings(paths)
	site := *siteBase
	nfiles := 0
	for _, pp := range paths {
		p := l.pkgs[pp]
		odir := filepath.Join(*out, p.dir)
		if err := os.MkdirAll(odir, 0o755); err != nil {
			fatal("%v", err)
		}
		for i, f := range p.files {
			r := &rewriter{l: l, p: p, file: f, fname: p.names[i], siteSeq: &site}
			r.rewriteFile()
			var buf bytes.Buffer
			if err := format.Node(&buf, fset, f); err != nil {
				fatal("print %s/%s: %v", p.dir, p.names[i], err)
			}
			// line directives keep stack traces and replay messages pointing at /repo
			src := buf.Bytes()
			if err := os.WriteFile(filepath.Join(odir, p.names[i]), src, 0o644); err != nil {
				fatal("%v", err)
			}
			nfiles++
		}
	}
	if *modFlag == "" {
		gomod := fmt.Sprintf("module %s\n\ngo 1.21\n\nrequire (\n\tgithub.com/lesismal/llib v1.2.4\n\tverif v0.0.0\n)\n\nreplace verif => %s\n", modPath, *verif)
		if err := os.WriteFile(filepath.Join(*out, "go.mod"), []byte(gomod), 0o644); err != nil {
			fatal("%v", err)
		}
	}
	if len(l.errs) > 0 {
		// type errors do not stop the rewrite (the compiler is the judge) but are shown
		max := len(l.errs)
		if max > 5 {
			max = 5
		}
		fmt.Fprintf(os.Stderr, "simgen: %d type-check diagnostics (first %d): %s\n", len(l.errs), max, strings.Join(l.errs[:max], "; "))
	}
	fmt.Printf("simgen: %d packages, %d files, %d yield sites\n", len(paths), nfiles, site)
}
