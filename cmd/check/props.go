package main

// spec describes how one property is checked.
type spec struct {
	World       string
	Level       string
	QuickS      int // search budget, seconds
	ThoroughS   int
	Rule        string
	Real        []string
	Stub        []string
	Assumptions []string
}

var stubCommon = []string{
	"goroutine scheduling (verif/sim/rt: one real goroutine runs at a time, every choice from the seeded PRNG)",
	"sync.Mutex/RWMutex/WaitGroup/Once/Cond (cooperative re-implementation), sync.Pool (PRNG-chosen reuse policy), sync.Map (insertion ordered)",
	"clock and timers (testing/synctest fake clock advanced by the scheduler; time.AfterFunc/NewTimer/Sleep virtual)",
}

var assumeCommon = []string{
	"the mechanical source transformation by cmd/simgen (import swap, go -> simrt.Go, bracketed channel operations, ordered map iteration, entry yields) preserves nbio's semantics",
	"code between two scheduling points (sync/atomic/channel/syscall/timer operations and function entries) executes atomically; the Go memory model below that granularity is not simulated",
	"a clean batch is evidence for the sampled seeds, not a proof",
}

var stubKernel = append([]string{
	"Linux kernel: sockets (TCP/AF_UNIX/UDP), listeners, epoll LT/ET/ONESHOT, eventfd, descriptor table (verif/sim/kernel; rules in DESIGN.md 3.4)",
	"peers (harness goroutines using kernel endpoints directly)",
}, stubCommon...)

var realCore = []string{"nbio.Engine, nbio.Conn, poller (epoll build), timer, taskpool, mempool, logging - all transformed real code", "real temp file as Sendfile source"}

var assumeKernel = append([]string{
	"the kernel model returns only results Linux can return: EAGAIN only when there is no room, a short count only together with a later write-space wake-up, EINTR on writes only in LT/ONESHOT runs (DESIGN.md 3.4)",
}, assumeCommon...)

var specs = map[string]spec{
	"C01": {
		World: "core", Level: "exploration", QuickS: 40, ThoroughS: 900,
		Rule: "cases = (engine mode LT/ET/ONESHOT x sync/async read x transport tcp/unix x pollers, kernel send capacity 1B..256KiB, low-water mark, in-flight delivery, fault rates, 1-10 Write/Writev/Sendfile operations from goroutines and from open/data callbacks or 2-3 concurrent writers with record framing, peer read pacing, schedule) from the seed; non-trivial = a backlog formed in nbio's queue and >= 1 kernel fault (short write / EAGAIN / EINTR / withheld readiness) fired; distinct = distinct context-switch sequence hash",
		Real: realCore, Stub: stubKernel,
		Assumptions: append([]string{"a call that fails with a fatal error may leave a prefix of its own input as the last bytes of the stream; nothing else is tolerated",
			"bytes missing at quiescence while nbio's queue is non-empty are attributed to C04 (stalled), with an empty queue to C01 (lost)"}, assumeKernel...),
	},
	"C02": {
		World: "core", Level: "exploration", QuickS: 40, ThoroughS: 900,
		Rule: "cases = full engine matrix {LT, ET, ET+ONESHOT} x {sync, async read} x {default, inline, goroutine-per-call, bounded pool IOExecute} x 1-3 pollers x ReadBufferSize {1,2,7,64,4Ki,64Ki} x MaxConnReadTimesPerEventLoop {default,1,2,3} x {tcp, unix, udp}; 1-3 connections (1-4 UDP remotes) with bursts sized around the read buffer, pauses, half-close / close / reset, optional echo and a concurrent application writer; kernel: in-flight delivery, short reads, EINTR, withheld readiness; non-trivial = some stream longer than the read buffer and a burst arrived while earlier input was still unread (stream) or >= 2 remotes and > 2 datagrams (udp); distinct = context-switch sequence hash",
		Real: realCore, Stub: stubKernel,
		Assumptions: append([]string{"completeness of delivery is demanded for connections that stay open or end orderly; for reset connections only prefix-correctness",
			"UDP: only datagrams the listener's socket queue accepted count as sent; datagrams are <= ReadBufferSize",
			"a progress-free fair phase dominated by reads/epoll_waits is reported as a spinning reader"}, assumeKernel...),
	},
	"C03": {
		World: "core", Level: "exploration", QuickS: 40, ThoroughS: 900,
		Rule: "cases = 1-3 connections of kind accepted / added (nbio.Dial + AddConn) / DialAsync[Timeout] with model outcome connected, refused or never answered; each with 0-4 concurrent enders drawn from {Close, CloseWithError, peer FIN, peer close, peer reset, read deadline, write deadline with backlog, write-buffer overflow, write to a dead peer} at random delays, optional post-Close API calls, injected dup / EPOLL_CTL_ADD failures, then Engine.Stop; non-trivial = >= 2 causes on one connection, or concurrent Close calls, or a dial that did not succeed; distinct = context-switch sequence hash",
		Real: realCore, Stub: stubKernel,
		Assumptions: append([]string{"first cause: the reported error must belong to a cause that became observable no later than the notification and was not preceded by another cause whose call had already returned; overlapping causes are all acceptable",
			"'closed indication' = a non-nil error from Write/Writev/Sendfile, false from Execute; descriptor access is attributed by calling goroutine through the kernel model's syscall hook"}, assumeKernel...),
	},
	"C04": {
		World: "core", Level: "exploration", QuickS: 40, ThoroughS: 900,
		Rule: "same scenario as C01 biased to backlogs (peer stalls until the writers are done, tiny send capacity, writes from callbacks); after the last operation all faults stop, the scheduler is fair and the peer keeps reading: bounded liveness = at quiescence every accepted byte has arrived; non-trivial = a backlog existed; distinct = distinct context-switch sequence hash",
		Real: realCore, Stub: stubKernel,
		Assumptions: append([]string{"liveness is judged only in the fair phase (no faults, round-robin scheduling, time advances only at quiescence) and only for connections that are still open"}, assumeKernel...),
	},
	"C05": {
		World: "core", Level: "exploration", QuickS: 30, ThoroughS: 600,
		Rule: "cases = executor in {inline default, goroutine per call, bounded taskpool(3,2)} x 1-4 submitters x 1-6 jobs via Execute / MustExecute (jobs yield, panic, resubmit from inside) x Close invoked after k submissions have returned; oracle on the recorded history: run intervals pairwise disjoint, accepted jobs exactly once by quiescence, rejected jobs never, Execute false only if Close had been invoked and never true once Close had returned, starts ordered by real-time precedence of submissions (FIFO linearisation), successors of a panicking job run; non-trivial = >= 2 submitters or Close overlapped a submission; distinct = context-switch sequence hash",
		Real: realCore, Stub: stubKernel,
		Assumptions: append([]string{"FIFO is checked as real-time precedence (a returned before b was invoked => a runs before b) plus per-submitter order, which is exactly linearizability against a FIFO queue with a single consumer; porcupine is not needed for that"}, assumeKernel...),
	},
	"C16": {
		World: "core", Level: "exploration", QuickS: 30, ThoroughS: 600,
		Rule: "cases = timed histories of 2-14 operations from {SetReadDeadline, SetWriteDeadline, SetDeadline (set / renew / clear), Write that empties or does not empty the backlog, peer drain, sleep around the deadline (d-1, d, d+1 us), Close} on one connection in a random engine mode; the scheduler also jumps the clock to the next timer while goroutines are runnable (probability up to 5% per step); reference model of the documented semantics judges each timeout close (deadline of that kind expired and was still in force) and at quiescence each deadline in force that passed; non-trivial = a timeout close happened or a deadline was renewed/cleared within 2us of its expiry",
		Real: realCore, Stub: stubKernel,
		Assumptions: append([]string{"a renewal or clear whose call is invoked at a simulated time >= the deadline is allowed to lose the race; the write deadline is cleared only by a Write that returns with an empty true backlog (kernel ground truth)",
			"HTTP and WebSocket keep-alive timing (the second half of C16) is exercised in the e2e world when claimed there; this check covers the core deadlines"}, assumeKernel...),
	},
	"C18": {
		World: "core", Level: "exploration", QuickS: 40, ThoroughS: 900,
		Rule: "cases = 0-4 connections (accepted / added / DialAsync connected / DialAsync never answered) with traffic, backlogs and pending deadlines, then Stop or Shutdown(live ctx) raced with late connects, peer closes, application closes and writes, optionally invoked right after Start; oracle: Stop returns in the fair phase, one close notification per opened connection at return, listener gone, no engine goroutine alive, no simulated descriptor open, no timer armed; non-trivial = some activity overlapped Stop; distinct = context-switch sequence hash",
		Real: realCore, Stub: stubKernel,
		Assumptions: append([]string{"this check covers the core engine (nbio.Engine); nbhttp.Engine.Stop/Shutdown is covered in the e2e world when claimed there",
			"goroutines are attributed to the engine by the function that started them (nbio., taskpool., timer.)"}, assumeKernel...),
	},
	"C06": {
		World: "stream", Level: "fault_enumeration", QuickS: 30, ThoroughS: 600,
		Rule: "cases = pipelined sequences of 1-3 HTTP/1.x requests or responses from a grammar (methods, targets, 1.0/1.1, 0-4 headers with spacing variants, Content-Length / chunked bodies with extensions and declared trailers) optionally corrupted by 1-2 byte-level mutations (flip, delete, insert, duplicate, truncate, set to CR/LF/colon/...); per stream the transport's segmentation is ENUMERATED: one piece (reference), every single cut position, byte-at-a-time, plus 16 (quick) / 48 (thorough) seeded multi-cut segmentations; the recording Processor's event log and the accept/reject verdict must equal the reference; non-trivial = stream with a body or >= 2 messages; distinct = distinct stream bytes",
		Real: []string{"nbhttp.Parser (parser.go, state.go, table.go) - transformed real code, driven through its Processor interface"},
		Stub: []string{"transport: in-memory connection; segmentation chosen by the harness", "Processor: recording implementation (observation seam)", "allocators: ownership tracker installed as mempool.DefaultMemPool / BodyAllocator"},
		Assumptions: []string{"'same rejection' = both feeds are rejected and report identical events before the rejection; the error text is not compared", "the parser is driven like Engine.DataHandler drives it: first error => CloseAndClean => no more Parse",
			"ReadLimit is off in this check (it makes acceptance depend on segmentation by design; C08 covers it)", "single-cut enumeration is complete per generated stream; the stream space itself is sampled"},
	},
	"C07": {
		World: "stream", Level: "exploration", QuickS: 25, ThoroughS: 600,
		Rule: "cases = pipelined sequences of 1-4 well-formed requests (through the real ServerProcessor and a recording http.Handler) or responses (recording Processor) restricted to forms both implementations are documented to accept identically (token header names, visible-ASCII values, Content-Length or chunked on 1.1, declared trailers, Connection variants), fed byte-at-a-time (exact boundaries) or in larger reads; reference = http.ReadRequest / http.ReadResponse over the same bytes; compared: start line, host, header multimap modulo OWS (Host / Transfer-Encoding / Trailer bookkeeping mapped explicitly), body bytes, trailers, close decision, end offset of every message; non-trivial = >= 2 pipelined messages or a chunked body; distinct = distinct stream bytes",
		Real: []string{"nbhttp.Parser, nbhttp.ServerProcessor, nbhttp.BodyReader (transformed real code)", "net/http as reference parser (untransformed std)"},
		Stub: []string{"transport: in-memory connection", "allocators: ownership tracker"},
		Assumptions: []string{"candidly: the deciding power is a differential oracle over generated inputs; the simulator contributes segmentation, pipelining, seeding, replay and shrinking only",
			"a generated stream that net/http itself rejects is outside the common ground and is skipped (counted as probe)", "the status reason phrase, Host promotion and Transfer-Encoding/Trailer removal are normalised in the comparator"},
	},
	"C08": {
		World: "stream", Level: "exploration", QuickS: 25, ThoroughS: 600,
		Rule: "cases = (a) a fixed catalogue of malformed framing metadata (non-numeric / negative / overflowing / signed Content-Length, unsupported or repeated Transfer-Encoding, non-hex / overflowing / empty chunk sizes, a missing CR or LF at each position) swept in three segmentations, (b) grammar messages corrupted by 0-4 byte-level mutations or oversize fields, (c) random garbage; ReadLimit in {0,16..4096}, MaxHTTPBodySize in {0,1..1000}, transport read size in {1,2,7,64,512,all}; oracle: no recovered or unrecovered panic (log seam), nothing observed after the first error and a later Parse reports closed, catalogue entries rejected and never delivered, pooled bytes held (tracking allocator) bounded by ReadLimit + one read + body bound, no delivered or pending body above MaxHTTPBodySize; non-trivial = corrupted / catalogue / garbage input that reaches at least one parse event",
		Real: []string{"nbhttp.Parser, nbhttp.ServerProcessor, nbhttp.BodyReader (transformed real code)"},
		Stub: []string{"transport: in-memory connection with byte-level corruption", "allocators: ownership tracker (also measures retained bytes)"},
		Assumptions: []string{"the parser is driven like Engine.DataHandler (first error => CloseAndClean)", "retained bytes are measured by capacity at the allocator; the bound allows a factor 2 plus 4 KiB for allocator rounding"},
	},
	"C09": {
		World: "stream", Level: "exploration", QuickS: 25, ThoroughS: 600,
		Rule: "cases = handler programs over Header().Set/Add/Del, WriteHeader, Write, WriteString, ReadFrom, Flush, declared trailers set after the body, optional explicit Content-Length; write sizes biased to 0, 1 and to 64KiB +- head size; request version 1.0/1.1 with Connection variants; three of four cases fault-free (wire decoded by http.ReadResponse must equal the handler's intent: status, headers, trailers, body, nothing following, framing consistent with the version, every successful Write returns len(data), connection kept or closed as dictated), one of four with a transport write failure at the k-th write (narrow relaxation: error surfaced or connection closed, no panic); non-trivial = >= 2 body writes or a threshold-crossing write",
		Real: []string{"nbhttp.Response, nbhttp.ServerProcessor.flushResponse, nbhttp.Parser (transformed real code)", "net/http as independent client parser"},
		Stub: []string{"transport: in-memory connection with write-failure injection", "allocators: ownership tracker"},
		Assumptions: []string{"handler intent follows the net/http ResponseWriter contract: headers are snapshotted at the first WriteHeader/Write/Flush, trailers are declared before and set after the body",
			"handlers that write a body different from their explicit Content-Length, or a body with 204/304, are not generated"},
	},
	"C17": {
		World: "core", Level: "exploration", QuickS: 40, ThoroughS: 900,
		Rule: "same scenario as C01 with MaxWriteBufferSize M in 1..256KiB and write sizes placed around M and around the kernel capacity; oracle on the true backlog (accepted buffer bytes minus bytes the kernel model took): accepted => held <= M, refused => backlog+n > M, internal counter == true backlog whenever the connection mutex is free; non-trivial = a write landed within +-1 of the bound and a backlog formed",
		Real: realCore, Stub: stubKernel,
		Assumptions: append([]string{"Sendfile ranges are not 'held' bytes and are excluded from the backlog", "the internal counter is read by reflection on the field name 'left'; if it does not resolve the drift oracle is skipped"}, assumeKernel...),
	},
	"C19": {
		World: "exec", Level: "exploration", QuickS: 25, ThoroughS: 600,
		Rule: "cases = (pool kind in {pool, custom caller, io, async}, max, queue, 1-4 submitters x 1-16 tasks with yields/sleeps/panics, optional Stop racing the submissions, schedule strategy+seed) drawn from the seed; a run is non-trivial when submissions exceeded max+queue or Stop raced a submission (pools) or >= 2 producers overlapped (Async); distinct = distinct hash of the sequence of context switches",
		Real: []string{"taskpool.TaskPool", "taskpool.IOTaskPool", "timer.Timer.Async", "logging"},
		Stub: stubCommon,
		Assumptions: append([]string{
			"'handed over before it is stopped' = Go returned before Stop was invoked",
			"the bound is the configured maxConcurrent; capacity recovery is self-calibrated against a fresh pool of the same configuration in the same run (no implementation constant mirrored)",
		}, assumeCommon...),
	},
}
