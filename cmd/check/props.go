package main

// spec describes how one property is checked.
type spec struct {
	World       string
	Level       string
	QuickS      int // search budget, seconds
	ThoroughS   int
	Rule        string
	Real        []string
	Stub        []string
	Assumptions []string
}

var stubCommon = []string{
	"goroutine scheduling (verif/sim/rt: one real goroutine runs at a time, every choice from the seeded PRNG)",
	"sync.Mutex/RWMutex/WaitGroup/Once/Cond (cooperative re-implementation), sync.Pool (PRNG-chosen reuse policy), sync.Map (insertion ordered)",
	"clock and timers (testing/synctest fake clock advanced by the scheduler; time.AfterFunc/NewTimer/Sleep virtual)",
}

var assumeCommon = []string{
	"the mechanical source transformation by cmd/simgen (import swap, go -> simrt.Go, bracketed channel operations, ordered map iteration, entry yields) preserves nbio's semantics",
	"code between two scheduling points (sync/atomic/channel/syscall/timer operations and function entries) executes atomically; the Go memory model below that granularity is not simulated",
	"a clean batch is evidence for the sampled seeds, not a proof",
}

var stubKernel = append([]string{
	"Linux kernel: sockets (TCP/AF_UNIX/UDP), listeners, epoll LT/ET/ONESHOT, eventfd, descriptor table (verif/sim/kernel; rules in DESIGN.md 3.4)",
	"peers (harness goroutines using kernel endpoints directly)",
}, stubCommon...)

var realCore = []string{"nbio.Engine, nbio.Conn, poller (epoll build), timer, taskpool, mempool, logging - all transformed real code", "real temp file as Sendfile source"}

var assumeKernel = append([]string{
	"the kernel model returns only results Linux can return: EAGAIN only when there is no room, a short count only together with a later write-space wake-up, EINTR on writes only in LT/ONESHOT runs (DESIGN.md 3.4)",
}, assumeCommon...)

var specs = map[string]spec{
	"C01": {
		World: "core", Level: "exploration", QuickS: 40, ThoroughS: 900,
		Rule: "cases = (engine mode LT/ET/ONESHOT x sync/async read x transport tcp/unix x pollers, kernel send capacity 1B..256KiB, low-water mark, in-flight delivery, fault rates, 1-10 Write/Writev/Sendfile operations from goroutines and from open/data callbacks or 2-3 concurrent writers with record framing, peer read pacing, schedule) from the seed; non-trivial = a backlog formed in nbio's queue and >= 1 kernel fault (short write / EAGAIN / EINTR / withheld readiness) fired; distinct = distinct context-switch sequence hash",
		Real: realCore, Stub: stubKernel,
		Assumptions: append([]string{"a call that fails with a fatal error may leave a prefix of its own input as the last bytes of the stream; nothing else is tolerated",
			"bytes missing at quiescence while nbio's queue is non-empty are attributed to C04 (stalled), with an empty queue to C01 (lost)"}, assumeKernel...),
	},
	"C02": {
		World: "core", Level: "exploration", QuickS: 40, ThoroughS: 900,
		Rule: "cases = full engine matrix {LT, ET, ET+ONESHOT} x {sync, async read} x {default, inline, goroutine-per-call, bounded pool IOExecute} x 1-3 pollers x ReadBufferSize {1,2,7,64,4Ki,64Ki} x MaxConnReadTimesPerEventLoop {default,1,2,3} x {tcp, unix, udp}; 1-3 connections (1-4 UDP remotes) with bursts sized around the read buffer, pauses, half-close / close / reset, optional echo and a concurrent application writer; kernel: in-flight delivery, short reads, EINTR, withheld readiness; non-trivial = some stream longer than the read buffer and a burst arrived while earlier input was still unread (stream) or >= 2 remotes and > 2 datagrams (udp); distinct = context-switch sequence hash",
		Real: realCore, Stub: stubKernel,
		Assumptions: append([]string{"completeness of delivery is demanded for connections that stay open or end orderly; for reset connections only prefix-correctness",
			"UDP: only datagrams the listener's socket queue accepted count as sent; datagrams are <= ReadBufferSize",
			"a progress-free fair phase dominated by reads/epoll_waits is reported as a spinning reader"}, assumeKernel...),
	},
	"C03": {
		World: "core", Level: "exploration", QuickS: 40, ThoroughS: 900,
		Rule: "seven run indices in eight (part lifecycle): cases = 1-3 connections of kind accepted / added (nbio.Dial + AddConn) / DialAsync[Timeout] with model outcome connected, refused or never answered; each with 0-4 concurrent enders drawn from {Close, CloseWithError, peer FIN, peer close, peer reset, read deadline, write deadline with backlog, write-buffer overflow, write to a dead peer} at random delays, optional post-Close API calls, injected dup / EPOLL_CTL_ADD failures, then Engine.Stop; non-trivial = >= 2 causes on one connection, or concurrent Close calls, or a dial that did not succeed; distinct = context-switch sequence hash; 12% of the connections are UDP client connections (net.DialUDP handed to the engine with AddConn, 0-2 one-byte datagrams received first, ended by Close / CloseWithError / read deadline from one or several goroutines). One run index in eight (part udpsessions): 1-3 remotes talk to a UDP listener in 1-3 rounds each; a round opens a session (1-3 datagrams), which is ended by Close / CloseWithError from 1-3 goroutines at once, a read deadline or the engine's UDPReadTimeout; oracles: open before close and exactly one close per session object, the reported error is the cause (the engine's timeout is always a possible first cause when configured), the next round of the same address gets a new session",
		Real: realCore, Stub: stubKernel,
		Assumptions: append([]string{"first cause: the reported error must belong to a cause that became observable no later than the notification and was not preceded by another cause whose call had already returned; overlapping causes are all acceptable",
			"'closed indication' = a non-nil error from Write/Writev/Sendfile, false from Execute; descriptor access is attributed by calling goroutine through the kernel model's syscall hook"}, assumeKernel...),
	},
	"C04": {
		World: "core", Level: "exploration", QuickS: 40, ThoroughS: 900,
		Rule: "same scenario as C01 biased to backlogs (peer stalls until the writers are done, tiny send capacity, writes from callbacks); after the last operation all faults stop, the scheduler is fair and the peer keeps reading: bounded liveness = at quiescence every accepted byte has arrived; non-trivial = a backlog existed; distinct = distinct context-switch sequence hash",
		Real: realCore, Stub: stubKernel,
		Assumptions: append([]string{"liveness is judged only in the fair phase (no faults, round-robin scheduling, time advances only at quiescence) and only for connections that are still open"}, assumeKernel...),
	},
	"C05": {
		World: "e2e", Level: "exploration", QuickS: 30, ThoroughS: 600,
		Rule: "seven eighths of the run indices (part 'jobs', nbio.Conn directly): cases = executor in {inline default, goroutine per call, bounded taskpool(3,2)} x 1-4 submitters x 1-6 jobs via Execute / MustExecute (jobs yield, panic, resubmit from inside) x Close invoked after k submissions have returned; oracle on the recorded history: run intervals pairwise disjoint, accepted jobs exactly once by quiescence, rejected jobs never, Execute false only if Close had been invoked and never true once Close had returned, starts ordered by real-time precedence of submissions (FIFO linearisation), successors of a panicking job run; non-trivial = >= 2 submitters or Close overlapped a submission; distinct = context-switch sequence hash. One eighth (part 'stop', the consequence for nbhttp: 'handlers and callbacks of one connection never overlap, close handling runs after the work queued before it'): the HTTP-engine stop scenarios of C18 (handlers in flight, websocket messages being echoed, Stop / Shutdown meanwhile), judged only for the close handling (nbhttp.Engine.OnClose hook, websocket OnClose) running while a handler or message callback of the same connection is still in progress",
		Real: append([]string{"nbhttp.Engine / websocket (transformed real code) in the stop part"}, realCore...), Stub: stubKernel,
		Assumptions: append([]string{"FIFO is checked as real-time precedence (a returned before b was invoked => a runs before b) plus per-submitter order, which is exactly linearizability against a FIFO queue with a single consumer; porcupine is not needed for that"}, assumeKernel...),
	},
	"C16": {
		World: "e2e", Level: "exploration", QuickS: 40, ThoroughS: 900,
		Rule: "three quarters of the run indices (part 'deadlines', core engine): cases = timed histories of 2-14 operations from {SetReadDeadline, SetWriteDeadline, SetDeadline (set / renew / clear), Write that empties or does not empty the backlog, peer drain, sleep around the deadline (d-1, d, d+1 us), Close} on one connection in a random engine mode (15%: on a connection made with DialAsyncTimeout, whose dial timer must be gone afterwards); the scheduler also jumps the clock to the next timer while goroutines are runnable (probability up to 5% per step); reference model of the documented semantics judges each timeout close (deadline of that kind expired and was still in force) and at quiescence each deadline in force that passed; non-trivial = a timeout close happened or a deadline was renewed/cleared within 2us of its expiry. One quarter (part 'keepalive', nbhttp.Engine + websocket.Upgrader on the simulated kernel, I/O modes nonblocking/blocking/mixed, all upgrade paths incl. transfer to the poller): 1-3 client connections follow a timed script on the simulated clock (HTTP requests, upgrade, messages, pings separated by gaps up to half the keep-alive window) and then fall silent; HTTP keep-alive in {20,50,200} ms, websocket keep-alive in {off,10,30,400} ms; oracles: no connection is closed before (instant its last request/message had been sent + the keep-alive time that applies), every silent connection has been closed after three keep-alive times of fair running, and a websocket whose keep-alive is switched off is still open then (the HTTP timer armed at accept must not survive the upgrade); 20% of the keep-alive cases run over TLS (reference instant of an unused connection = its connect)",
		Real: append([]string{"nbhttp.Engine, nbhttp processor/parser, websocket.Upgrader/Conn (transformed real code) in the keepalive part"}, realCore...), Stub: stubKernel,
		Assumptions: append([]string{"a renewal or clear whose call is invoked at a simulated time >= the deadline is allowed to lose the race; the write deadline is cleared only by a Write call that itself wrote everything to the socket (decided from the system calls the call made under the connection mutex)",
			"keep-alive: the lower bound is measured from the instant the client had sent its last request or message, which precedes the server's renewal, so it never demands more than the statement; requests that arrive in the last half of the window are not generated (whether a request racing the expiry is served is not specified)"}, assumeKernel...),
	},
	"C18": {
		World: "e2e", Level: "exploration", QuickS: 40, ThoroughS: 900,
		Rule: "three quarters of the run indices (part 'core', nbio.Engine): cases = 0-4 connections (accepted / added / DialAsync connected / DialAsync never answered) with traffic, backlogs (15%: a queued Sendfile, whose dup'ed real descriptor is audited through /proc/self/fd) and pending deadlines, then Stop or Shutdown(live ctx) raced with late connects, peer closes, application closes and writes, optionally invoked right after Start; oracle: Stop returns in the fair phase, one close notification per opened connection at return, listener gone, no engine goroutine alive, no simulated descriptor open, no timer armed; non-trivial = some activity overlapped Stop; distinct = context-switch sequence hash. One quarter (part 'http', nbhttp.Engine in I/O modes nonblocking/blocking/mixed): 0-4 client connections in the states idle, answered keep-alive, handler in flight (sleeping), half a request sent, upgraded websocket (poller-driven, blocking with parser, transferred to the poller) with or without traffic; then Stop or Shutdown(context with a one hour timeout) after all clients reached their state or racing them, optionally with one more client connecting meanwhile; 20% of these cases over TLS (a handshake interrupted by the stop counts as a refused connection); oracles: the call returns in the fair phase, every client sees its connection closed, the listener is gone, no engine goroutine, descriptor or timer is left",
		Real: append([]string{"nbhttp.Engine (listeners, blocking read loops, lmux, Stop/Shutdown), websocket.Upgrader/Conn (transformed real code) in the http part"}, realCore...), Stub: stubKernel,
		Assumptions: append([]string{"goroutines are attributed to the engine by the function that started them (nbio., taskpool., timer., nbhttp., websocket., lmux.)",
			"TLS: llib's implementation is transformed like nbio; the clients use the standard library's crypto/tls"}, assumeKernel...),
	},
	"C06": {
		World: "stream", Level: "fault_enumeration", QuickS: 30, ThoroughS: 600,
		Rule: "cases = pipelined sequences of 1-3 HTTP/1.x requests or responses from a grammar (methods, targets, 1.0/1.1, 0-4 headers with spacing variants, Content-Length / chunked bodies with extensions and declared trailers) optionally corrupted by 1-2 byte-level mutations (flip, delete, insert, duplicate, truncate, set to CR/LF/colon/...); per stream the transport's segmentation is ENUMERATED: one piece (reference), every single cut position, byte-at-a-time, plus 16 (quick) / 48 (thorough) seeded multi-cut segmentations; the recording Processor's event log and the accept/reject verdict must equal the reference; non-trivial = stream with a body or >= 2 messages; distinct = distinct stream bytes",
		Real: []string{"nbhttp.Parser (parser.go, state.go, table.go) - transformed real code, driven through its Processor interface"},
		Stub: []string{"transport: in-memory connection; segmentation chosen by the harness", "Processor: recording implementation (observation seam)", "allocators: ownership tracker installed as mempool.DefaultMemPool / BodyAllocator"},
		Assumptions: []string{"'same rejection' = both feeds are rejected and report identical events before the rejection; the error text is not compared", "the parser is driven like Engine.DataHandler drives it: first error => CloseAndClean => no more Parse",
			"30% of the cases install the moving flavour of the tracker as mempool.DefaultMemPool (Append relocates, like mempool.NewAligned()); 40% set MaxHTTPBodySize; half of the unmutated request streams also run through the real ServerProcessor and a handler", "ReadLimit is off in this check (it makes acceptance depend on segmentation by design; C08 covers it)", "single-cut enumeration is complete per generated stream; the stream space itself is sampled"},
	},
	"C07": {
		World: "stream", Level: "exploration", QuickS: 25, ThoroughS: 600,
		Rule: "cases = pipelined sequences of 1-4 well-formed requests (through the real ServerProcessor and a recording http.Handler) or responses (recording Processor) restricted to forms both implementations are documented to accept identically (token header names, visible-ASCII values, Content-Length or chunked on 1.1, declared trailers, Connection variants), fed byte-at-a-time (exact boundaries) or in larger reads; reference = http.ReadRequest / http.ReadResponse over the same bytes; compared: start line, host, header multimap modulo OWS (Host / Transfer-Encoding / Trailer bookkeeping mapped explicitly), body bytes, trailers, close decision, end offset of every message; non-trivial = >= 2 pipelined messages or a chunked body; distinct = distinct stream bytes",
		Real: []string{"nbhttp.Parser, nbhttp.ServerProcessor, nbhttp.BodyReader (transformed real code)", "net/http as reference parser (untransformed std)"},
		Stub: []string{"transport: in-memory connection", "allocators: ownership tracker"},
		Assumptions: []string{"candidly: the deciding power is a differential oracle over generated inputs; the simulator contributes segmentation, pipelining, seeding, replay and shrinking only",
			"a generated stream that net/http itself rejects is outside the common ground and is skipped (counted as probe)", "the status reason phrase, Host promotion and Transfer-Encoding/Trailer removal are normalised in the comparator"},
	},
	"C08": {
		World: "stream", Level: "exploration", QuickS: 25, ThoroughS: 600,
		Rule: "cases = (a) a fixed catalogue of malformed framing metadata (non-numeric / negative / overflowing / signed Content-Length, unsupported or repeated Transfer-Encoding, non-hex / overflowing / empty chunk sizes, a missing CR or LF at each position) swept in three segmentations, (b) grammar messages corrupted by 0-4 byte-level mutations or oversize fields, (c) random garbage; ReadLimit in {0,16..4096}, MaxHTTPBodySize in {0,1..1000}, transport read size in {1,2,7,64,512,all}; oracle: no recovered or unrecovered panic (log seam), nothing observed after the first error and a later Parse reports closed, catalogue entries rejected and never delivered, pooled bytes held (tracking allocator) bounded by ReadLimit + one read + body bound, no delivered or pending body above MaxHTTPBodySize; non-trivial = corrupted / catalogue / garbage input that reaches at least one parse event",
		Real: []string{"nbhttp.Parser, nbhttp.ServerProcessor, nbhttp.BodyReader (transformed real code)"},
		Stub: []string{"transport: in-memory connection with byte-level corruption", "allocators: ownership tracker (also measures retained bytes)"},
		Assumptions: []string{"the parser is driven like Engine.DataHandler (first error => CloseAndClean)", "retained bytes are measured by capacity at the allocator; the bound allows a factor 2 plus 4 KiB for allocator rounding"},
	},
	"C09": {
		World: "stream", Level: "exploration", QuickS: 25, ThoroughS: 600,
		Rule: "cases = handler programs over Header().Set/Add/Del, WriteHeader, Write, WriteString, ReadFrom, Flush, declared trailers set after the body, optional explicit Content-Length; write sizes biased to 0, 1 and to 64KiB +- head size; request version 1.0/1.1 with Connection variants; three of four cases fault-free (wire decoded by http.ReadResponse must equal the handler's intent: status, headers, trailers, body, nothing following, framing consistent with the version, every successful Write returns len(data), connection kept or closed as dictated), one of four with a transport write failure at the k-th write (narrow relaxation: error surfaced or connection closed, no panic); non-trivial = >= 2 body writes or a threshold-crossing write",
		Real: []string{"nbhttp.Response, nbhttp.ServerProcessor.flushResponse, nbhttp.Parser (transformed real code)", "net/http as independent client parser"},
		Stub: []string{"transport: in-memory connection with write-failure injection", "allocators: ownership tracker"},
		Assumptions: []string{"handler intent follows the net/http ResponseWriter contract: headers are snapshotted at the first WriteHeader/Write/Flush, trailers are declared before and set after the body",
			"handlers that write a body different from their explicit Content-Length, or a body with 204/304, are not generated"},
	},
	"C10": {
		World: "e2e", Level: "exploration", QuickS: 40, ThoroughS: 900,
		Rule: "three quarters of the run indices (server clauses): cases = nbhttp.Engine in IOMod {NonBlocking, Blocking, Mixed} x epoll mode {LT, ET, ET+ONESHOT} x 1-2 pollers x executor {inline, taskpool of 2 / 4}, 1-4 concurrent raw simulated client connections, each with 1-4 requests (HTTP/1.0 / 1.1, Connection variants, Content-Length or chunked request bodies up to 20000 bytes, response bodies from {0,1,100,1000,4096,65535,65536,70000}, handler sleeps / yields / Flush mid-body), pipelining window 1-4, client write size {1,7,64,all}; kernel: send capacity 64B-256KiB, in-flight delivery, short reads/writes, withheld readiness; oracle per connection: the received stream decodes (http.ReadResponse) to exactly one answer per written request, in order, each echoing its request's unique id with the keyed body; the handler sees the keyed request body; connection kept / closed as version and Connection header dictate; no id of another connection; handlers of one connection never overlap; non-trivial = >= 2 connections and a pipelined request; distinct = context-switch sequence hash; 20% of these cases run over TLS (the server side is llib's TLS, transformed like nbio; the clients are crypto/tls clients); 25% of the handlers announce Content-Length and write the body in two steps; 15% of the clients whose last exchange keeps the connection end with a request that is malformed from its first byte immediately followed by a valid one (same write / next TLS record): Config.OnRequest and the handler must not see the valid one (C08 end to end). One quarter (client clause): nbhttp.Client (connection pool, MaxConnsPerHost 1-4) or nbhttp.ClientConn (pipelined) against a scripted server on the simulated kernel that answers (Content-Length / chunked, written in pieces), delays, closes before or in the middle of an answer, sends garbage or stalls; dial attempts fail as planned; 1-3 caller goroutines, 1-6 requests, Timeout / IdleConnTimeout on the simulated clock, default pool or goroutine-per-call client executor, 20% over https (llib's TLS client, transformed); oracles: each callback exactly once (after Client.Close and quiescence for requests still pending), never neither response nor error, a response carries the id and body of its own request",
		Real: []string{"nbhttp.Engine, Parser, ServerProcessor, Response, Client, ClientConn, ClientProcessor, lmux, nbio.Engine/Conn/poller, taskpool, llib std/crypto/tls (transformed real code)", "net/http types and http.ReadResponse as client-side decoder"},
		Stub: append([]string{"TLS clients of the server clauses and the TLS side of the scripted server of the client clause: the standard library's crypto/tls (untransformed, the independent counterpart; the scripted server is limited to TLS 1.2, see DESIGN.md 11.2); proxies and redirects of nbhttp.Client: NOT explored", "scripted HTTP server of the client clause (harness code on the simulated network)"}, stubKernel...),
		Assumptions: append([]string{"requests pipelined behind an exchange that closes the connection may be dropped", "client clause: 'an error' is allowed for any request by the statement, so a request that fails in a fault-free run is only counted (probe client_request_failed_in_fault_free_run)"}, assumeKernel...),
	},
	"C14": {
		World: "e2e", Level: "exploration", QuickS: 40, ThoroughS: 900,
		Rule: "cases = nbhttp.Engine + websocket.Upgrader in upgrade path {poller-driven (IOModNonBlocking), blocking with parser hand-over and asynchronous send queue (IOModBlocking), transferred to the poller (UpgradeAndTransferConnToPoller), hijacked from a net/http-style server and read by the connection's own HandleRead loop (the harness plays the std server: accept, http.ReadRequest, http.Hijacker)}; permessage-deflate in both directions in 30% of the cases; wss (llib TLS transformed, crypto/tls clients) in 20% of the cases except the std path x epoll mode x 1-2 pollers x executor pool of 2 / 4; 1-3 raw simulated clients perform the HTTP upgrade, then send 0-5 masked messages (optionally fragmented, optionally in one burst immediately after the 101) while 0-4 server goroutines per connection call WriteMessage concurrently with fragmentation by MaxWebsocketFramePayloadSize in {none,16,100,1000}; connections end by client close frame, client reset, application Close or stay open; oracle: callback log matches open-start open-end (msg-start k msg-end k)* [close] with no overlap, messages in wire order exactly once (prefix if the connection ended early), close exactly once when the connection ended; the frame stream seen by the peer decodes (independent codec) into whole messages, fragments of one message contiguous, every WriteMessage that returned nil exactly once on a surviving connection, nothing from another connection; non-trivial = >= 2 concurrent writers on a connection or a close raced a callback / writer; 10% of the connections have one message callback that panics when it is done (later messages and the close callback must still come); one end kind in six is a frame with a reserved opcode after the messages: the connection must be failed and closed exactly once on every path. One run index in five (part dialer) has nbio on both ends: 1-3 connections made by websocket.Dialer (sync result or result handler; own client engine or the serving engine; default or goroutine-per-task ClientExecutor; DialTimeout 0 / 2 s; ws or wss with llib TLS 1.2 on both ends) to an nbhttp server (non-blocking or blocking) with an Upgrader; 0-3 messages written inside either open callback (the server's travel with the 101), 0-3 concurrent writers on EACH side, ended by Close / WriteClose from either side after everything arrived, by an early Close from either side, or not at all; oracles on BOTH endpoints: the callback grammar above, every delivered message is one written message, per-writer order, nothing twice, nothing lost unless the connection was ended early, exactly one close callback per endpoint (none while the connection lives), the result of Dial is delivered once, after the client's open callback has completed, with that connection",
		Real: []string{"nbhttp.Engine, websocket.Upgrader / Conn (all engine upgrade paths and HandleRead), websocket.Dialer + nbhttp.ClientConn (dialer part), compression, nbio core, taskpool, llib std/crypto/tls (transformed real code)"},
		Stub: append([]string{"net/http.Server for the std path: played by the harness (accept, ReadRequest, Hijacker)", "TLS clients: the standard library's crypto/tls (untransformed)"}, stubKernel...),
		Assumptions: append([]string{"the simulated client is compliant: it sends data frames only after it has received the complete 101 response, possibly immediately", "FIFO of the asynchronous send queue is judged from the peer's side (whole messages, per-writer order), not with a separate porcupine model"}, assumeKernel...),
	},
	"C11": {
		World: "e2e", Level: "exploration", QuickS: 40, ThoroughS: 900,
		Rule: "the primary oracle is the ownership-tracking allocator installed as mempool.DefaultMemPool and as the engine's BodyAllocator: Free/Append/AppendString/Realloc on a freed or foreign buffer, second Free, write into a quarantined (poisoned, never recycled) buffer, poison in parser output or in the parser's carry-over buffer when the input has no such byte (read after free), poison on the wire. Half of the cases are single-threaded (stream scenarios): the C09 handler programs (half with transport write failures, biased to 64KiB-crossing writes), the C12 round trips (40% with sender transport failures), the C13 byzantine frame sequences, the C08 corrupted request streams through ServerProcessor/BodyReader, the C15 limit scenarios and pipelined messages in 32 random segmentations each; one run index in sixteen is a C01 outbound scenario (core engine write queue) with the tracker as mempool.DefaultMemPool and an OnWrittenSize hook that looks for poison in the bytes it is given. The other half are the close races: the C14 WebSocket scenarios (all five upgrade paths, concurrent writers, send queue, compression, resets, application close) the C10 HTTP server scenarios (pipelining, Flush, split writes, closing exchanges), and in one run index in sixteen each the C10 client scenarios (nbhttp.Client / ClientConn against the scripted server) and the C14 dialer scenarios (websocket.Dialer against the Upgrader), on the simulated kernel under the seeded scheduler, with the same trackers; non-trivial = at least 3 buffers were returned to the allocators in the run; distinct = fingerprint of the underlying case / schedule",
		Real: []string{"nbhttp.Response / Parser / BodyReader / ServerProcessor, websocket.Conn, nbhttp.Engine, nbio.Engine / Conn write queue (transformed real code)"},
		Stub: append([]string{"allocators: ownership tracker (the seam is the public mempool.Allocator interface); it never recycles memory, so the pool's own reuse policy is not part of these runs (C20 covers it)", "transport: in-memory connections with write-failure injection (stream scenarios), simulated kernel (e2e scenarios)"}, stubCommon...),
		Assumptions: append([]string{"leaks (buffers never returned) are counted as a probe only; the property does not demand their absence",
			"20% of the e2e cases run over TLS (llib transformed); its buffers come from Engine.TLSAllocator, which defaults to mempool.DefaultMemPool, i.e. they are tracked too"}, assumeCommon...),
	},
	"C20": {
		World: "stream", Level: "exploration", QuickS: 25, ThoroughS: 600,
		Rule: "cases = allocator in {MemPool with bufSize in {default,1,64,1024} and freeSize in {default,64,1024,4096,65536}, AlignedAllocator, stdAllocator} x 1-3 simulated goroutines x 3-30 operations from {Malloc, Append, AppendString, Realloc, Free} with sizes from {0..3, 2^k-1/2^k/2^k+1 for k=5..15, freeSize-1..freeSize+2, random < 5000}; the simulated sync.Pool returns any earlier Put or a new object by PRNG under five policies (LIFO, FIFO, random, mostly-new, random with drops); after EVERY operation all live buffers of all goroutines are compared with their model contents and their [base, base+cap) ranges must be pairwise disjoint; non-trivial = some Malloc returned memory that had been handed out before (pool reuse); distinct = context-switch hash x operation list",
		Real: []string{"mempool.MemPool, mempool.AlignedAllocator, mempool.stdAllocator (transformed real code)"},
		Stub: append([]string{"sync.Pool: simulated, PRNG-chosen reuse policy"}, stubCommon...),
		Assumptions: append([]string{"candidly: most of the power is model-based operation-sequence search; the simulator contributes the pool's reuse freedom and the interleaving of goroutines", "only buffers obtained from the allocator are freed into it"}, assumeCommon...),
	},
	"C12": {
		World: "stream", Level: "exploration", QuickS: 25, ThoroughS: 600,
		Rule: "cases = two real websocket.Conn endpoints (client role masks, server role does not) joined by the simulated transport; 1-5 text/binary messages with lengths from {0,1,2,124..128,4095..4097,65534..65537,70000,200000} and around multiples of the frame-size limit, random / highly compressible / multi-byte UTF-8 content, interleaved pings and pongs, compression off or on at levels {default,1,5,9,huffman-only}, MaxWebsocketFramePayloadSize in {0,1,2,125,126,1000,4096,65535,65536}; the wire is decoded by an independent frame codec (mask bit by role, minimal lengths, fragments within the limit, RSV1 only on the first frame of a compressed message) and delivered in every single cut (small cases), seeded multi-cuts, or fixed read sizes; 10% of the cases fail the sender's transport; non-trivial = fragmentation or compression or a length-class boundary exercised; distinct = distinct wire bytes",
		Real: []string{"websocket.Conn (WriteMessage / writeFrame / Parse / nextFrame / compression) - transformed real code, both endpoints", "compress/flate"},
		Stub: []string{"transport: in-memory connections, segmentation and write failures chosen by the harness", "HTTP upgrade handshake: skipped (endpoints built with NewServerConn / NewClientConn)", "allocators: ownership tracker (moving flavour as BodyAllocator)"},
		Assumptions: []string{"the handshake is not part of this property; compression is 'negotiated' by constructing both ends with the same setting"},
	},
	"C13": {
		World: "stream", Level: "exploration", QuickS: 25, ThoroughS: 600,
		Rule: "cases = frame sequences of 1-6 steps for a server or client endpoint: valid data messages (optionally fragmented inside a multi-byte rune, optionally with a control frame in between), pings, pongs, close frames with codes swept over the interesting set plus a random 16-bit code and optional invalid UTF-8 reasons, and spliced-in violations (RSV bits, reserved opcodes, fragmented / over-long control frames, continuation without start, new data frame inside a fragmented message, 64-bit length with top bit, non-minimal lengths, wrong masking), in reads of {1,2,3,7,64,all} bytes; oracle = executable reference validator written from RFC 6455 (sections 5.2, 5.4, 5.5, 7.4, 8.1): messages before the first violation delivered exactly, connection failed at a violation, nothing containing the offending frame delivered, ping -> identical pong, close -> close; where the RFC leaves latitude (non-minimal lengths, close codes 1012-1015 and >= 5000, wrong masking, RSV1 on control frames with deflate) nothing is asserted; non-trivial = a violation is present or a control frame sits inside a fragmented message",
		Real: []string{"websocket.Conn Parse / nextFrame / validFrame / handleWsMessage (transformed real code)"},
		Stub: []string{"peer: byzantine frame generator", "transport: in-memory connection", "allocators: ownership tracker"},
		Assumptions: []string{"'fails the connection' = Parse returns an error (the engine then closes) or the endpoint closes the underlying connection", "invalid UTF-8 may be detected at the end of the message (the RFC allows earlier)"},
	},
	"C15": {
		World: "stream", Level: "exploration", QuickS: 25, ThoroughS: 600,
		Rule: "cases = MessageLengthLimit L in {1..100000} x ReadLimit in {0,64,1024,65536} x scenario {single frame of L-1/L/L+1/L+2/L+100, fragments in every partition class incl. empty fragments, permessage-deflate frame whose inflated size straddles L or is 2..1000 x L (bomb), control frame of 124..200 bytes received, control frame sent, enormous declared length trickled} x read size; oracle: no delivered message above L, connection failed and close code 1009 sent when L is exceeded, sizes within L accepted, oversize control frames refused on send (nothing written) and receive, bytes live at the tracking allocator for this connection bounded by L + ReadLimit + reads (factor 2 + 12 KiB allocator slack) - which is what catches a bomb rejected only after inflating; non-trivial = size within +-1 of L, or a bomb; scenario cfragments: an unfinished compressed message whose fragments (incompressible deflate stream, RSV1 on the first) are each within the limit and together three times above it",
		Real: []string{"websocket.Conn Parse / nextFrame / readAll / isMessageTooLarge / WriteMessage (transformed real code)", "compress/flate"},
		Stub: []string{"peer: generated frames", "transport: in-memory connection", "allocators: ownership tracker (measures live bytes)"},
		Assumptions: []string{"memory is measured by capacity at the allocator seam; decompressor-internal windows (32 KiB) are outside it"},
	},
	"C17": {
		World: "core", Level: "exploration", QuickS: 40, ThoroughS: 900,
		Rule: "same scenario as C01 with MaxWriteBufferSize M in 1..256KiB and write sizes placed around M and around the kernel capacity; oracle on the true backlog (accepted buffer bytes minus bytes the kernel model took): accepted => held <= M, refused => backlog+n > M, internal counter == true backlog whenever the connection mutex is free; non-trivial = a write landed within +-1 of the bound and a backlog formed",
		Real: realCore, Stub: stubKernel,
		Assumptions: append([]string{"Sendfile ranges are not 'held' bytes and are excluded from the backlog", "the internal counter is read by reflection on the field name 'left'; if it does not resolve the drift oracle is skipped"}, assumeKernel...),
	},
	"C19": {
		World: "exec", Level: "exploration", QuickS: 25, ThoroughS: 600,
		Rule: "cases = (pool kind in {pool, custom caller, io, async}, max, queue, 1-4 submitters x 1-16 tasks with yields/sleeps/panics, optional Stop racing the submissions, schedule strategy+seed) drawn from the seed; a run is non-trivial when submissions exceeded max+queue or Stop raced a submission (pools) or >= 2 producers overlapped (Async); distinct = distinct hash of the sequence of context switches",
		Real: []string{"taskpool.TaskPool", "taskpool.IOTaskPool", "timer.Timer.Async", "logging"},
		Stub: stubCommon,
		Assumptions: append([]string{
			"'handed over before it is stopped' = Go returned before Stop was invoked",
			"the bound is the configured maxConcurrent; capacity recovery is self-calibrated against a fresh pool of the same configuration in the same run (no implementation constant mirrored)",
		}, assumeCommon...),
	},
}
