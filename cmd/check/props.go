package main

// spec describes how one property is checked.
type spec struct {
	World       string
	Level       string
	QuickS      int // search budget, seconds
	ThoroughS   int
	Rule        string
	Real        []string
	Stub        []string
	Assumptions []string
}

var stubCommon = []string{
	"goroutine scheduling (verif/sim/rt: one real goroutine runs at a time, every choice from the seeded PRNG)",
	"sync.Mutex/RWMutex/WaitGroup/Once/Cond (cooperative re-implementation), sync.Pool (PRNG-chosen reuse policy), sync.Map (insertion ordered)",
	"clock and timers (testing/synctest fake clock advanced by the scheduler; time.AfterFunc/NewTimer/Sleep virtual)",
}

var assumeCommon = []string{
	"the mechanical source transformation by cmd/simgen (import swap, go -> simrt.Go, bracketed channel operations, ordered map iteration, entry yields) preserves nbio's semantics",
	"code between two scheduling points (sync/atomic/channel/syscall/timer operations and function entries) executes atomically; the Go memory model below that granularity is not simulated",
	"a clean batch is evidence for the sampled seeds, not a proof",
}

var specs = map[string]spec{
	"C19": {
		World: "exec", Level: "exploration", QuickS: 25, ThoroughS: 600,
		Rule: "cases = (pool kind in {pool, custom caller, io, async}, max, queue, 1-4 submitters x 1-16 tasks with yields/sleeps/panics, optional Stop racing the submissions, schedule strategy+seed) drawn from the seed; a run is non-trivial when submissions exceeded max+queue or Stop raced a submission (pools) or >= 2 producers overlapped (Async); distinct = distinct hash of the sequence of context switches",
		Real: []string{"taskpool.TaskPool", "taskpool.IOTaskPool", "timer.Timer.Async", "logging"},
		Stub: stubCommon,
		Assumptions: append([]string{
			"'handed over before it is stopped' = Go returned before Stop was invoked",
			"the bound is the configured maxConcurrent; capacity recovery is self-calibrated against a fresh pool of the same configuration in the same run (no implementation constant mirrored)",
		}, assumeCommon...),
	},
}
