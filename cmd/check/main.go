// check is the driver behind every quick_cmd / thorough_cmd / replay command in
// MANIFEST.json: transform /repo's current working tree (simgen), build the world's test
// binary against it, run seeded workers in parallel, aggregate coverage into
// /verif/evidence/<id>.json, handle known findings, minimise and report violations.
//
// Exit codes: 0 property held on everything explored; 1 + "VIOLATION property=<id>
// replay=<path>"; 2 infrastructure trouble (never a violation).
package main

import (
	"encoding/json"
	"flag"
	"fmt"
	"os"
	"os/exec"
	"path/filepath"
	"runtime"
	"sort"
	"strconv"
	"strings"
	"sync"
	"time"
)

var (
	verifDir = flag.String("verif", "/verif", "verif directory")
	repoDir  = flag.String("repo", "/repo", "nbio working tree")
	prop     = flag.String("p", "", "property id")
	tier     = flag.String("tier", "", "quick | thorough (default $VERIF_TIER or quick)")
	seedFlag = flag.String("seed", "", "base seed (default $VERIF_SEED or 1)")
	replay   = flag.String("replay", "", "replay file")
	workersF = flag.Int("workers", 0, "worker processes (default: number of CPUs)")
	budgetF  = flag.Int("budget", 0, "search budget in seconds (default: per property and tier)")
	keep     = flag.Bool("keep", false, "keep the scratch directory")
	hashes   = flag.String("hashes", "", "write per-run hashes to this file (determinism self-test)")
	maxRuns  = flag.Int("maxruns", 0, "max runs per worker")
	noShrink = flag.Bool("noshrink", false, "do not minimise")
)

func infra(format string, a ...interface{}) {
	fmt.Fprintf(os.Stderr, "check: infrastructure problem: "+format+"\n", a...)
	os.Exit(2)
}

type finding struct {
	Property  string `json:"property"`
	ID        string `json:"id"`
	Status    string `json:"status"` // open | fixed
	Commit    string `json:"commit,omitempty"`
	Signature string `json:"signature"`
	What      string `json:"what"`
	Trigger   string `json:"trigger,omitempty"`
	Replay    string `json:"replay,omitempty"`
	Line      string `json:"line,omitempty"` // the "fixed: property=<id> <commit> <what>" line for fixed entries
}

type workerResult struct {
	Property   string            `json:"property"`
	Runs       int               `json:"runs"`
	Skipped    int               `json:"skipped"`
	NonTrivial int               `json:"nontrivial"`
	Fingers    []uint64          `json:"fingers"`
	AllFingers int               `json:"all_fingers"`
	States     []uint64          `json:"states"`
	Steps      int64             `json:"steps"`
	SimTimeNs  int64             `json:"simtime_ns"`
	Faults     map[string]int    `json:"faults"`
	Probes     map[string]int    `json:"probes"`
	Violations []json.RawMessage `json:"violations"`
	Infra      []string          `json:"infra"`
	Samples    []json.RawMessage `json:"samples"`
	Hashes     []string          `json:"hashes"`
	WallS      float64           `json:"wall_s"`
	SweepDone  bool              `json:"sweep_done"`
	SweepSize  int               `json:"sweep_size"`
}

type foundViolation struct {
	Property  string          `json:"property"`
	Index     int             `json:"index"`
	Seed      uint64          `json:"seed"`
	Case      json.RawMessage `json:"case"`
	Violation struct {
		Oracle    string `json:"oracle"`
		Signature string `json:"signature"`
		Msg       string `json:"msg"`
	} `json:"violation"`
	LogHash   uint64   `json:"loghash"`
	Trace     []string `json:"trace,omitempty"`
	Minimised bool     `json:"minimised"`
	TreeHash  string   `json:"tree_hash,omitempty"`
	ShrinkLog []string `json:"shrink_log,omitempty"`
}

type replayResult struct {
	Reproduced bool `json:"reproduced"`
	SameHash   bool `json:"same_hash"`
	Violation  *struct {
		Oracle    string `json:"oracle"`
		Signature string `json:"signature"`
		Msg       string `json:"msg"`
	} `json:"violation,omitempty"`
	Infra   string   `json:"infra,omitempty"`
	Trace   []string `json:"trace,omitempty"`
	LogHash uint64   `json:"loghash"`
}

func goEnv() []string {
	env := os.Environ()
	out := env[:0:0]
	for _, e := range env {
		if strings.HasPrefix(e, "GOFLAGS=") || strings.HasPrefix(e, "GOPROXY=") || strings.HasPrefix(e, "GOTOOLCHAIN=") ||
			strings.HasPrefix(e, "GOSUMDB=") || strings.HasPrefix(e, "PATH=") || strings.HasPrefix(e, "GOMAXPROCS=") {
			continue
		}
		out = append(out, e)
	}
	out = append(out, "PATH=/opt/veriftools/go1.26.8/bin:"+os.Getenv("PATH"), "GOFLAGS=-mod=mod", "GOPROXY=off",
		"GOSUMDB=off", "GOTOOLCHAIN=local")
	return out
}

func run(dir string, env []string, name string, args ...string) (string, error) {
	cmd := exec.Command(name, args...)
	cmd.Dir = dir
	cmd.Env = env
	b, err := cmd.CombinedOutput()
	return string(b), err
}

// outDir is where evidence and fresh replays go: the verif directory, unless VERIF_OUTDIR redirects
// them (used when a seeded change is applied to /repo, so that registered evidence is untouched).
func outDir() string {
	if d := os.Getenv("VERIF_OUTDIR"); d != "" {
		return d
	}
	return *verifDir
}

func main() {
	flag.Parse()
	if *prop == "" {
		infra("-p <property id> is required")
	}
	spec, ok := specs[*prop]
	if !ok {
		infra("unknown property %q", *prop)
	}
	t := *tier
	if t == "" {
		t = os.Getenv("VERIF_TIER")
	}
	if t != "thorough" {
		t = "quick"
	}
	seed := uint64(1)
	ss := *seedFlag
	if ss == "" {
		ss = os.Getenv("VERIF_SEED")
	}
	if ss != "" {
		if n, err := strconv.ParseUint(ss, 10, 64); err == nil {
			seed = n
		} else if n, err := strconv.ParseInt(ss, 10, 64); err == nil {
			seed = uint64(n)
		}
	}
	start := time.Now()

	// ---- build -------------------------------------------------------------------------
	scratchRoot := os.Getenv("VERIF_SCRATCH")
	if scratchRoot == "" {
		scratchRoot = "/var/tmp"
	}
	scratch, err := os.MkdirTemp(scratchRoot, "verif-"+*prop+"-")
	if err != nil {
		infra("mktemp: %v", err)
	}
	cleanup := func() {
		if !*keep {
			os.RemoveAll(scratch)
		}
	}
	defer cleanup()
	die := func(format string, a ...interface{}) {
		cleanup()
		infra(format, a...)
	}
	env := goEnv()
	src := filepath.Join(scratch, "src")
	simgen := filepath.Join(*verifDir, "bin", "simgen")
	if _, err := os.Stat(simgen); err != nil {
		die("bin/simgen missing: run MANIFEST.setup_cmd first (%v)", err)
	}
	if out, err := run(*verifDir, env, simgen, "-repo", *repoDir, "-out", src, "-verif", *verifDir); err != nil {
		die("simgen failed: %v\n%s", err, out)
	}
	// The TLS implementation nbhttp uses (github.com/lesismal/llib, a dependency) takes locks,
	// reads the clock and draws random numbers: in the e2e world it is transformed like nbio.
	llibReplace := ""
	if spec.World == "e2e" {
		out, err := run(*repoDir, env, "/opt/veriftools/go1.26.8/bin/go", "list", "-m", "-f", "{{.Dir}}", "github.com/lesismal/llib")
		dir := strings.TrimSpace(out)
		if err != nil || dir == "" {
			die("locating the llib module failed: %v\n%s", err, out)
		}
		orig, dst := filepath.Join(scratch, "llib-orig"), filepath.Join(scratch, "llib")
		for _, d := range []string{orig, dst} {
			if out, err := run(scratch, env, "cp", "-r", dir, d); err != nil {
				die("copying llib: %v\n%s", err, out)
			}
			run(scratch, env, "chmod", "-R", "u+w", d)
		}
		if out, err := run(*verifDir, env, simgen, "-mod", "github.com/lesismal/llib", "-repo", orig, "-pkgs", "std/crypto/tls", "-out", dst, "-sitebase", "100000", "-verif", *verifDir); err != nil {
			die("simgen (llib) failed: %v\n%s", err, out)
		}
		gm, _ := os.ReadFile(filepath.Join(dst, "go.mod"))
		os.WriteFile(filepath.Join(dst, "go.mod"), []byte(strings.Replace(string(gm), "\ngo 1.16\n", "\ngo 1.21\n", 1)), 0o644)
		// pin the dependency versions of the real build: with llib replaced by a directory the
		// module graph would otherwise be pruned differently and ask for versions that are not cached
		list, err := run(*repoDir, env, "/opt/veriftools/go1.26.8/bin/go", "list", "-m", "-f", "{{.Path}} {{.Version}}", "all")
		if err != nil {
			die("listing the modules of the build failed: %v\n%s", err, list)
		}
		pins := ""
		for _, l := range strings.Split(strings.TrimSpace(list), "\n") {
			f := strings.Fields(l)
			if len(f) == 2 && f[0] != "github.com/lesismal/nbio" {
				pins += "\t" + f[0] + " " + f[1] + "\n"
			}
		}
		llibReplace = fmt.Sprintf("\nrequire (\n%s)\n\nreplace github.com/lesismal/llib => %s\n", pins, dst)
	}
	modfile := filepath.Join(scratch, "go.mod")
	mod := fmt.Sprintf("module verif\n\ngo 1.26\n\nrequire (\n\tgithub.com/anishathalye/porcupine v1.3.0\n\tgithub.com/lesismal/nbio v0.0.0\n)\n\nreplace github.com/lesismal/nbio => %s\n", src) + llibReplace
	if err := os.WriteFile(modfile, []byte(mod), 0o644); err != nil {
		die("%v", err)
	}
	sum, _ := os.ReadFile(filepath.Join(*verifDir, "go.sum"))
	os.WriteFile(filepath.Join(scratch, "go.sum"), sum, 0o644)
	bin := filepath.Join(scratch, spec.World+".test")
	if out, err := run(*verifDir, env, "/opt/veriftools/go1.26.8/bin/go", "test", "-c", "-trimpath", "-modfile="+modfile, "-o", bin, "./harness/"+spec.World); err != nil {
		die("building the %s world against the transformed tree failed: %v\n%s", spec.World, err, out)
	}
	buildS := time.Since(start).Seconds()

	workers := *workersF
	if workers <= 0 {
		workers = runtime.NumCPU()
	}

	// The sandbox has no memory limit and some scenarios allocate hundreds of megabytes per run
	// (decompression bombs): without a ceiling the collector lets every worker grow to several
	// gigabytes and sixteen of them meet the kernel's OOM killer in a long batch. Each worker
	// gets an equal share of half the machine's memory as its soft limit.
	memLimit := workerMemLimit(workers)
	worker := func(mode string, extra []string, outFile string, timeout time.Duration) (string, error) {
		cmd := exec.Command(bin, "-test.run", "^TestWorker$", "-test.timeout", fmt.Sprintf("%ds", int(timeout.Seconds())+30))
		cmd.Dir = scratch
		cmd.Env = append(append([]string{}, env...), "VERIF_PROP="+*prop, "VERIF_MODE="+mode, "VERIF_OUT="+outFile, "VERIF_TIER="+t,
			"VERIF_SEED="+strconv.FormatUint(seed, 10), "GOMAXPROCS=2", "GOMEMLIMIT="+memLimit)
		cmd.Env = append(cmd.Env, extra...)
		done := make(chan struct{})
		var out []byte
		var err error
		go func() { out, err = cmd.CombinedOutput(); close(done) }()
		select {
		case <-done:
		case <-time.After(timeout + 60*time.Second):
			cmd.Process.Kill()
			<-done
			return string(out), fmt.Errorf("watchdog: worker exceeded %v", timeout+60*time.Second)
		}
		return string(out), err
	}

	// ---- replay mode --------------------------------------------------------------------
	if *replay != "" {
		abs, _ := filepath.Abs(*replay)
		outFile := filepath.Join(scratch, "replay.json")
		out, err := worker("replay", []string{"VERIF_FILE=" + abs}, outFile, 10*time.Minute)
		var rr replayResult
		b, rerr := os.ReadFile(outFile)
		if rerr != nil || json.Unmarshal(b, &rr) != nil {
			die("replay worker failed: %v\n%s", err, tail(out, 40))
		}
		if rr.Infra != "" {
			die("replay: %s", rr.Infra)
		}
		for _, l := range rr.Trace {
			fmt.Println("  | " + l)
		}
		if rr.Violation != nil {
			fmt.Printf("replay: violation %s: %s\n", rr.Violation.Signature, rr.Violation.Msg)
			fmt.Printf("replay: same signature as recorded: %v, identical event-log hash: %v\n", rr.Reproduced, rr.SameHash)
			fmt.Printf("VIOLATION property=%s replay=%s\n", *prop, abs)
			cleanup()
			os.Exit(1)
		}
		fmt.Printf("replay: no violation on the current tree (event-log hash %016x)\n", rr.LogHash)
		return
	}

	// ---- known findings ---------------------------------------------------------------------
	var findings []finding
	if b, err := os.ReadFile(filepath.Join(*verifDir, "known_findings.json")); err == nil {
		var all struct {
			Findings []finding `json:"findings"`
		}
		if err := json.Unmarshal(b, &all); err != nil {
			die("known_findings.json: %v", err)
		}
		for _, f := range all.Findings {
			if f.Property == *prop {
				findings = append(findings, f)
			}
		}
	}
	suppressed := map[string]string{} // signature -> finding id
	var openIDs []string
	var knownLines []string
	lineOf := map[string]string{}
	printed := map[string]bool{}
	for i, f := range findings {
		if f.Status != "open" {
			continue
		}
		if f.Replay == "" {
			continue
		}
		outFile := filepath.Join(scratch, fmt.Sprintf("known%d.json", i))
		out, err := worker("replay", []string{"VERIF_FILE=" + filepath.Join(*verifDir, f.Replay)}, outFile, 5*time.Minute)
		var rr replayResult
		b, rerr := os.ReadFile(outFile)
		if rerr != nil || json.Unmarshal(b, &rr) != nil {
			die("replay of known finding %s failed: %v\n%s", f.ID, err, tail(out, 40))
		}
		// An open finding always suppresses its own signature (and nothing else). Its committed
		// replay is a convenience: when it still reproduces, the line is printed at once and the
		// workers may steer away from the trigger (Prop.Exclude) to keep exploring behind it. When
		// it does not (any change to /repo shifts schedules), the trigger region stays in the
		// search, and the line is printed if the search meets the signature.
		suppressed[f.Signature] = f.ID
		lineOf[f.ID] = fmt.Sprintf("KNOWN-FINDING: property=%s %s [%s] %s", *prop, f.ID, f.Signature, f.What)
		if rr.Violation != nil && rr.Violation.Signature == f.Signature {
			knownLines = append(knownLines, lineOf[f.ID])
			printed[f.ID] = true
			openIDs = append(openIDs, f.ID)
		} else {
			fmt.Printf("note: committed replay of known finding %s did not reproduce its signature; searching without steering around it\n", f.ID)
		}
	}
	for _, l := range knownLines {
		fmt.Println(l)
	}

	// ---- search ------------------------------------------------------------------------------
	budget := spec.QuickS
	if t == "thorough" {
		budget = spec.ThoroughS
		if v := os.Getenv("VERIF_THOROUGH_S"); v != "" {
			if n, err := strconv.Atoi(v); err == nil {
				budget = n
			}
		}
	}
	if *budgetF > 0 {
		budget = *budgetF
	}
	results := make([]*workerResult, workers)
	errs := make([]string, workers)
	var wg sync.WaitGroup
	for w := 0; w < workers; w++ {
		wg.Add(1)
		go func(w int) {
			defer wg.Done()
			outFile := filepath.Join(scratch, fmt.Sprintf("w%d.json", w))
			extra := []string{"VERIF_WORKER=" + strconv.Itoa(w), "VERIF_WORKERS=" + strconv.Itoa(workers),
				"VERIF_BUDGET_MS=" + strconv.Itoa(budget*1000), "VERIF_OPEN_FINDINGS=" + strings.Join(openIDs, ",")}
			if *hashes != "" {
				extra = append(extra, "VERIF_HASHES=1")
			}
			if *maxRuns > 0 {
				extra = append(extra, "VERIF_MAXRUNS="+strconv.Itoa(*maxRuns))
			}
			out, err := worker("batch", extra, outFile, time.Duration(budget)*4*time.Second+120*time.Second)
			b, rerr := os.ReadFile(outFile)
			if rerr != nil {
				errs[w] = fmt.Sprintf("worker %d produced no result (%v): %s", w, err, tail(out, 30))
				return
			}
			if os.Getenv("VERIF_MEMTRACE") != "" {
				for _, l := range strings.Split(out, "\n") {
					if strings.HasPrefix(l, "MEMTRACE") {
						fmt.Println(l)
					}
				}
			}
			var r workerResult
			if err := json.Unmarshal(b, &r); err != nil {
				errs[w] = fmt.Sprintf("worker %d result unreadable: %v", w, err)
				return
			}
			results[w] = &r
		}(w)
	}
	wg.Wait()
	for _, e := range errs {
		if e != "" {
			die("%s", e)
		}
	}
	// aggregate
	agg := &workerResult{Faults: map[string]int{}, Probes: map[string]int{}}
	fingers := map[uint64]bool{}
	states := map[uint64]bool{}
	var viols []foundViolation
	var hashLines []string
	sweepDone := true
	for _, r := range results {
		agg.Runs += r.Runs
		agg.Skipped += r.Skipped
		agg.NonTrivial += r.NonTrivial
		agg.Steps += r.Steps
		agg.SimTimeNs += r.SimTimeNs
		agg.AllFingers += r.AllFingers
		for k, v := range r.Faults {
			agg.Faults[k] += v
		}
		for k, v := range r.Probes {
			agg.Probes[k] += v
		}
		for _, f := range r.Fingers {
			fingers[f] = true
		}
		for _, s := range r.States {
			states[s] = true
		}
		agg.Infra = append(agg.Infra, r.Infra...)
		if len(agg.Samples) < 4 && len(r.Samples) > 0 {
			agg.Samples = append(agg.Samples, r.Samples[0])
		}
		for _, raw := range r.Violations {
			var fv foundViolation
			if json.Unmarshal(raw, &fv) == nil {
				viols = append(viols, fv)
			}
		}
		hashLines = append(hashLines, r.Hashes...)
		if r.SweepSize > agg.SweepSize {
			agg.SweepSize = r.SweepSize
		}
		if !r.SweepDone {
			sweepDone = false
		}
	}
	if *hashes != "" {
		sort.Strings(hashLines)
		os.WriteFile(*hashes, []byte(strings.Join(hashLines, "\n")+"\n"), 0o644)
	}
	if len(agg.Infra) > 0 {
		if len(agg.Infra) > 4 {
			agg.Infra = agg.Infra[:4]
		}
		die("harness errors (not violations): %s", strings.Join(agg.Infra, " | "))
	}
	sort.Slice(viols, func(i, j int) bool { return viols[i].Index < viols[j].Index })

	// classify violations
	var fresh []foundViolation
	knownHits := map[string]int{}
	seenSig := map[string]bool{}
	for _, v := range viols {
		if id, ok := suppressed[v.Violation.Signature]; ok {
			knownHits[id]++
			if !printed[id] {
				printed[id] = true
				fmt.Println(lineOf[id])
			}
			continue
		}
		if seenSig[v.Violation.Signature] {
			continue
		}
		seenSig[v.Violation.Signature] = true
		fresh = append(fresh, v)
	}

	// minimise and write replay files for fresh violations
	var reports []string
	if len(fresh) > 0 {
		foundDir := filepath.Join(outDir(), "replays", "found")
		os.MkdirAll(foundDir, 0o755)
		for i, v := range fresh {
			if i >= 3 {
				break
			}
			name := fmt.Sprintf("%s-%s-seed%d-idx%d.json", *prop, sanitize(v.Violation.Signature), seed, v.Index)
			path := filepath.Join(foundDir, name)
			b, _ := json.MarshalIndent(v, "", " ")
			os.WriteFile(path, b, 0o644)
			if !*noShrink {
				sb := 60
				if t == "thorough" {
					sb = 300
				}
				outFile := filepath.Join(scratch, fmt.Sprintf("shrunk%d.json", i))
				_, _ = worker("shrink", []string{"VERIF_FILE=" + path, "VERIF_BUDGET_MS=" + strconv.Itoa(sb*1000)}, outFile, time.Duration(sb)*time.Second+60*time.Second)
				if mb, err := os.ReadFile(outFile); err == nil {
					var mv foundViolation
					if json.Unmarshal(mb, &mv) == nil && mv.Minimised {
						// confirm in a fresh process that the minimised file reproduces
						os.WriteFile(path+".min", mb, 0o644)
						rf := filepath.Join(scratch, fmt.Sprintf("confirm%d.json", i))
						_, _ = worker("replay", []string{"VERIF_FILE=" + path + ".min"}, rf, 5*time.Minute)
						var rr replayResult
						if cb, err := os.ReadFile(rf); err == nil && json.Unmarshal(cb, &rr) == nil && rr.Reproduced && rr.SameHash {
							os.Rename(path+".min", path)
							v = mv
						} else {
							os.Remove(path + ".min")
						}
					}
				}
			}
			reports = append(reports, fmt.Sprintf("VIOLATION property=%s replay=%s", *prop, path))
			fmt.Printf("violation [%s] %s\n", v.Violation.Signature, v.Violation.Msg)
			for _, l := range v.ShrinkLog {
				fmt.Println("  " + l)
			}
		}
	}

	// ---- evidence --------------------------------------------------------------------------------
	wall := time.Since(start).Seconds()
	searchS := wall - buildS
	if searchS < 0.001 {
		searchS = 0.001
	}
	cov := map[string]interface{}{
		"evaluations":           agg.Runs,
		"distinct_nontrivial":   len(fingers),
		"rule":                  spec.Rule,
		"samples":               samplesOf(agg.Samples),
		"nontrivial_runs":       agg.NonTrivial,
		"runs_per_hour":         int(float64(agg.Runs) / searchS * 3600),
		"seeds_per_hour":        int(float64(agg.Runs) / searchS * 3600),
		"scheduling_steps":      agg.Steps,
		"simulated_time_s":      float64(agg.SimTimeNs) / 1e9,
		"faults_fired":          agg.Faults,
		"probes":                agg.Probes,
		"distinct_fingerprints": agg.AllFingers,
		"abstract_states":       len(states),
		"workers":               workers,
		"search_budget_s":       budget,
		"build_s":               buildS,
		"skipped_by_known_finding_trigger": agg.Skipped,
		"known_findings_reproduced":        openIDs,
		"known_finding_hits_in_search":     knownHits,
		"components_real":                  spec.Real,
		"components_stub":                  spec.Stub,
		"exhaustive":                       false,
	}
	if agg.SweepSize > 0 {
		cov["sweep_cases"] = agg.SweepSize
		cov["sweep_completed"] = sweepDone
	}
	ev := map[string]interface{}{
		"property_id": *prop,
		"tier":        t,
		"seed":        int64(seed & 0x7fffffffffffffff),
		"level":       spec.Level,
		"coverage":    cov,
		"assumptions": spec.Assumptions,
		"wall_s":      wall,
		"violations":  len(fresh),
	}
	os.MkdirAll(filepath.Join(outDir(), "evidence"), 0o755)
	eb, _ := json.MarshalIndent(ev, "", " ")
	if err := os.WriteFile(filepath.Join(outDir(), "evidence", *prop+".json"), eb, 0o644); err != nil {
		die("writing evidence: %v", err)
	}
	fmt.Printf("%s %s: %d runs (%d non-trivial, %d distinct non-trivial fingerprints), %d steps, %.1fs simulated, faults %v, wall %.1fs (build %.1fs), seed %d\n",
		*prop, t, agg.Runs, agg.NonTrivial, len(fingers), agg.Steps, float64(agg.SimTimeNs)/1e9, agg.Faults, wall, buildS, seed)
	if len(reports) > 0 {
		for _, r := range reports {
			fmt.Println(r)
		}
		cleanup()
		os.Exit(1)
	}
	if agg.Runs == 0 {
		die("no run was executed")
	}
}

func samplesOf(raw []json.RawMessage) []interface{} {
	var out []interface{}
	for _, r := range raw {
		var v interface{}
		if json.Unmarshal(r, &v) == nil {
			out = append(out, v)
		}
	}
	if len(out) == 0 {
		out = append(out, "no sample recorded")
	}
	return out
}

func sanitize(s string) string {
	var b strings.Builder
	for _, r := range s {
		if r >= 'a' && r <= 'z' || r >= 'A' && r <= 'Z' || r >= '0' && r <= '9' || r == '-' {
			b.WriteRune(r)
		} else {
			b.WriteByte('_')
		}
	}
	return b.String()
}

func tail(s string, n int) string {
	lines := strings.Split(strings.TrimRight(s, "\n"), "\n")
	if len(lines) > n {
		lines = lines[len(lines)-n:]
	}
	return strings.Join(lines, "\n")
}

// workerMemLimit returns the GOMEMLIMIT of one worker: half of MemTotal divided by the
// number of workers, at least 512 MiB ($VERIF_WORKER_MEMLIMIT overrides it).
func workerMemLimit(workers int) string {
	if v := os.Getenv("VERIF_WORKER_MEMLIMIT"); v != "" {
		return v
	}
	total := int64(16 << 30)
	if b, err := os.ReadFile("/proc/meminfo"); err == nil {
		for _, line := range strings.Split(string(b), "\n") {
			var kb int64
			if n, _ := fmt.Sscanf(line, "MemTotal: %d kB", &kb); n == 1 && kb > 0 {
				total = kb << 10
			}
		}
	}
	if workers < 1 {
		workers = 1
	}
	lim := total / 2 / int64(workers)
	if lim < 512<<20 {
		lim = 512 << 20
	}
	return fmt.Sprintf("%dMiB", lim>>20)
}
