# source this: offline Go 1.26.8 environment for everything under /verif
export PATH=/opt/veriftools/go1.26.8/bin:$PATH
export GOFLAGS=-mod=mod GOPROXY=off GOSUMDB=off GOTOOLCHAIN=local GONOSUMDB=* GONOSUMCHECK=1 GOFLAGS=-mod=mod
