module verif

go 1.26

require (
	github.com/anishathalye/porcupine v1.3.0
	github.com/lesismal/llib v1.2.4
	github.com/lesismal/nbio v0.0.0
)

require (
	golang.org/x/crypto v0.0.0-20210513122933-cd7d49e622d5 // indirect
	golang.org/x/sys v0.0.0-20210423082822-04245dca01da // indirect
)

replace github.com/lesismal/nbio => /repo
